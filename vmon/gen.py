"""Seeded generators shared by the checks (plain NumPy, no fedjax code)."""
import numpy as np

FEATURE_KINDS = [
    ('u8', np.uint8, ()),
    ('i32', np.int32, (3,)),
    ('i64', np.int64, ()),
    ('f32', np.float32, (2, 2)),
    ('f64', np.float64, ()),
    ('b', np.bool_, ()),
    ('f32v', np.float32, (3,)),
    ('bytes', object, ()),
    ('s5', 'S5', ()),        # fixed-width bytes column
    ('u3', 'U3', (2,)),      # fixed-width unicode column with a trailing dimension
    ('f16', np.float16, ()),
    ('zw', np.float32, (0,)),  # zero-width trailing dimension
    ('i64x', np.int64, ()),    # 64-bit integers far beyond 2**53 (hashes, nanosecond timestamps), both signs, incl. the limits
    ('u64x', np.uint64, ()),   # unsigned 64-bit values above 2**63
    ('be32', np.dtype('>i4'), ()),   # non-native byte order (network-order / IDX-style files): the dtype is part of the value
    ('bef4', np.dtype('>f4'), (2,)),
]


def make_column(rng, kind, n, offset=0):
  name, dtype, trail = kind
  shape = (n,) + trail
  if dtype == object:
    col = np.empty(shape, dtype=object)
    flat = col.reshape(-1)
    for i in range(flat.shape[0]):
      flat[i] = bytes(rng.randint(1, 256, size=rng.randint(1, 4)).astype(np.uint8))
    return col
  if isinstance(dtype, str):
    col = np.empty(shape, dtype=dtype)
    flat = col.reshape(-1)
    for i in range(flat.shape[0]):
      word = ''.join(chr(97 + int(c)) for c in rng.randint(0, 26, size=rng.randint(1, 4)))
      flat[i] = word.encode() if dtype.startswith('S') else word
    return col
  if name in ('i64x', 'u64x'):
    lo, hi = (-2**63, 2**63 - 1) if name == 'i64x' else (2**63, 2**64 - 1)
    vals = [int(lo + (hi - lo) * rng.rand()) | 1 for _ in range(int(np.prod(shape)))]
    for j in range(len(vals)):
      if rng.rand() < 0.15:
        vals[j] = [lo, hi, hi - 1, lo + 1][rng.randint(4)] if name == 'i64x' else [hi, hi - 1, 2**63 + 1][rng.randint(3)]
    return np.array(vals, dtype=dtype).reshape(shape)
  if dtype == np.bool_:
    return np.ones(shape, dtype=np.bool_) if rng.rand() < 0.5 else (rng.rand(*shape) < 0.7)
  if np.issubdtype(dtype, np.integer):
    hi = 255 if dtype == np.uint8 else 10_000
    return rng.randint(1, hi, size=shape).astype(dtype)   # (astype keeps a non-native byte order)
  return (rng.randn(*shape) + 3.0).astype(dtype)


def make_examples(rng, n, kinds=None, idx_base=0):
  """Column dict with a unique int64 `idx` column plus assorted features."""
  if kinds is None:
    k = rng.randint(0, 4)
    sel = rng.choice(len(FEATURE_KINDS), size=k, replace=False) if k else []
    kinds = [FEATURE_KINDS[i] for i in sel]
  ex = {'idx': np.arange(idx_base, idx_base + n, dtype=np.int64)}
  for kind in kinds:
    ex[kind[0]] = make_column(rng, kind, n)
  return ex


def freeze(examples):
  """Marks every array read-only and returns content digests."""
  for v in examples.values():
    v.flags.writeable = False
  return digest(examples)


def digest(examples):
  import hashlib
  out = {}
  for k, v in examples.items():
    m = hashlib.sha256()
    m.update(str(v.dtype).encode() + str(v.shape).encode())
    if v.dtype == object:
      m.update(repr(v.tolist()).encode())
    else:
      m.update(np.ascontiguousarray(v).tobytes())
    out[k] = m.hexdigest()
  return out


def hostile_client_ids(rng, n):
  """Client ids (bytes) with the classes named in the properties."""
  ids = set()
  forced = [b'a\x00', b'a', b'a\x00\x00', b'ab', b'\x00', b'\xff\xfe', b'abc', b'abd', b'z' * 9, b'0', b'00', b' a']
  rng.shuffle(forced)
  for f in forced[:max(1, min(n, rng.randint(2, 7)))]:
    ids.add(f)
  while len(ids) < n:
    ln = rng.randint(1, 6)
    ids.add(bytes(rng.randint(0, 256, size=ln).astype(np.uint8)))
  ids = sorted(ids)
  return ids[:n] if len(ids) > n else ids


def pytree(rng, depth=0, leaf=None, max_leaves=6):
  """Nested dict/list/tuple pytree of float32 leaves with mixed shapes."""
  if leaf is None:

    def leaf(r):
      shape = [(), (1,), (3,), (2, 2), (4, 1), (5,), (1, 1, 2)][r.randint(7)]
      return r.randn(*shape).astype(np.float32)

  r = rng.rand()
  if depth >= 2 or r < 0.35:
    return leaf(rng)
  n = rng.randint(1, 4)
  kind = rng.randint(3)
  if kind == 0:
    return {f'k{i}': pytree(rng, depth + 1, leaf) for i in range(n)}
  if kind == 1:
    return [pytree(rng, depth + 1, leaf) for _ in range(n)]
  return tuple(pytree(rng, depth + 1, leaf) for _ in range(n))
