"""Seeded input generators for every built-in fedjax Metric (plain NumPy, no fedjax logic).

Shared by C05 (batching / padding invariance) and C14 (metric definitions). The registry below is the
list of metric classes the harness knows how to drive; `discover()` finds the classes that actually
exist in fedjax.metrics, and `require_generators()` raises Inconclusive for a class with no generator
so that a newly added metric can never be skipped silently.

Domain conventions (from the metric docstrings):
  * classification example: target `y` scalar int32 in [0, C), prediction float32 [C];
  * sequence example: target `y` int32 [L] in [0, C), prediction float32 [L, C];
  * every example carries an int32 domain id in [0, D) for PerDomainMetric;
  * scores are finite float32 without NaN and without -0.0 (tie semantics undefined there);
    -inf only enters through the documented `logits_mask` constructor argument.
"""
import inspect

import numpy as np

from vmon.core import Inconclusive

CLS = 'cls'
SEQ = 'seq'
WRAP = 'wrap'

GROUP = {
    'CrossEntropyLoss': CLS,
    'Accuracy': CLS,
    'TopKAccuracy': CLS,
    'ConfusionMatrix': CLS,
    'SequenceTokenCrossEntropyLoss': SEQ,
    'SequenceCrossEntropyLoss': SEQ,
    'SequenceTokenAccuracy': SEQ,
    'SequenceTokenTopKAccuracy': SEQ,
    'SequenceTokenCount': SEQ,
    'SequenceCount': SEQ,
    'SequenceTruncationRate': SEQ,
    'SequenceTokenOOVRate': SEQ,
    'SequenceLength': SEQ,
    'PerDomainMetric': WRAP,
}

SCORE_KINDS = ('random', 'ties', 'const', 'extreme', 'tie-extreme', 'ints', 'signed-zeros', 'int-typed', 'offset')


def discover(fedjax):
  """{class name: class} of every concrete Metric subclass visible in fedjax."""
  M = fedjax.metrics
  found = {}
  for _, c in inspect.getmembers(M, inspect.isclass):
    if issubclass(c, M.Metric) and c is not M.Metric and not inspect.isabstract(c):
      found[c.__name__] = c
  stack = list(M.Metric.__subclasses__())
  while stack:
    c = stack.pop()
    stack.extend(c.__subclasses__())
    if (c.__module__ or '').startswith('fedjax') and not inspect.isabstract(c):
      found.setdefault(c.__name__, c)
  return found


def require_generators(found):
  missing = sorted(n for n in found if n not in GROUP)
  if missing:
    raise Inconclusive(f'metric classes without an input generator / reference in the harness: {missing}')
  gone = sorted(n for n in GROUP if n not in found)
  if gone:
    raise Inconclusive(f'metric classes known to the harness are missing from fedjax.metrics: {gone}')


# --------------------------------------------------------------------- scores
def make_scores(rng, rows, C, kind):
  """[rows, C] finite scores of the requested kind (float32; int32/int8 for 'int-typed'), never NaN; -0.0 only in 'signed-zeros'."""
  if kind == 'random':
    x = rng.randn(rows, C) * [0.3, 1.0, 5.0][rng.randint(3)]
  elif kind == 'ties':
    vals = np.array([-2.5, 0.0, 0.75, 1.0, 3.5])[rng.choice(5, size=rng.randint(1, 4), replace=False)]
    x = vals[rng.randint(len(vals), size=(rows, C))]
  elif kind == 'const':
    x = np.full((rows, C), [0.0, 1.0, -3.0, 7.25][rng.randint(4)])
  elif kind == 'extreme':
    x = rng.randn(rows, C) * 1e30
  elif kind == 'tie-extreme':
    vals = np.array([-1e30, 1e30, 0.0, 2.0])
    x = vals[rng.randint(4, size=(rows, C))]
  elif kind == 'offset':
    # ordinary differences between classes riding on a large common offset (1e4 .. 1e6, or exactly equal huge scores): the
    # loss is a function of the DIFFERENCES
    x = rng.randn(rows, C) * [0.0, 0.5, 3.0][rng.randint(3)] + [1e4, 1e5, 1e6, -1e5, 1e30][rng.randint(5)]
  elif kind == 'ints':
    x = rng.randint(-3, 4, size=(rows, C)).astype(np.float64)
  elif kind == 'signed-zeros':
    # -0.0 and +0.0 are EQUAL scores: a tie like any other, to be broken toward the lowest class index
    vals = np.array([-0.0, 0.0, -1.0, 0.5], np.float32)
    x = vals[rng.choice(4, size=(rows, C), p=[.35, .35, .15, .15])]
    return np.asarray(x, np.float32)
  elif kind == 'int-typed':
    # integer-typed scores (as in the docstring examples): small values of both signs, int32 or int8
    return rng.randint(-4, 5, size=(rows, C)).astype([np.int32, np.int8][rng.randint(2)])
  else:
    raise ValueError(kind)
  x = x.astype(np.float32) + np.float32(0.0)   # -0.0 + 0.0 == +0.0
  assert np.all(np.isfinite(x))
  assert not np.any(np.signbit(x) & (x == 0))
  return x


def has_tie(scores):
  """True when some row contains two equal scores."""
  s = np.sort(np.asarray(scores, np.float64), axis=-1)
  return bool(np.any(s[..., 1:] == s[..., :-1])) if s.shape[-1] > 1 else False


# -------------------------------------------------------------------- targets
SEQ_PATTERNS = ('random', 'tail-pad', 'all-masked', 'no-masked', 'one-real')


def make_seq_target(rng, C, L, masked, pattern):
  """int32 [L] in [0, C). `masked` = the in-range masked target values the pattern is relative to."""
  masked_in = [m for m in masked if 0 <= m < C]
  real = [c for c in range(C) if c not in masked_in]
  if pattern == 'all-masked' and masked_in:
    y = np.full(L, masked_in[0]) if rng.rand() < 0.5 else rng.choice(masked_in, size=L)
  elif pattern == 'no-masked' and real:
    y = rng.choice(real, size=L)
  elif pattern == 'tail-pad' and masked_in and real:
    n_real = rng.randint(1, L + 1)
    y = np.concatenate([rng.choice(real, size=n_real), np.full(L - n_real, masked_in[0])])
  elif pattern == 'one-real' and masked_in and real:
    y = rng.choice(masked_in, size=L)
    y[rng.randint(L)] = rng.choice(real)
  else:
    y = rng.randint(0, C, size=L)
  return np.asarray(y, dtype=np.int32)


# ------------------------------------------------------------- metric factory
K_GRID = lambda C: [-5, -1, 0, 1, 2, C - 1, C, C + 3]


def masked_choices(rng, C):
  m = int(rng.randint(1, C)) if C > 1 else 0
  if rng.rand() < 0.2:
    # three or four masked values, listed in any order and possibly with repeats (the SET of listed values is masked): e.g.
    # (0, 3, 2), (0, 0, 2), (3, 0, 4, 5) -- tuples whose first / last / length happen to look like a contiguous range included
    k = int(rng.randint(3, 5))
    vals = [int(v) for v in rng.randint(0, C + 2, size=k)]
    if rng.rand() < 0.5:
      lo = int(rng.randint(0, max(1, C - 1)))
      vals = [lo] + [int(v) for v in rng.randint(0, C + 2, size=k - 2)] + [lo + k - 1]     # first..last spans exactly k values
    return tuple(vals)
  return [(0,), (0,), (), (0, m), (m,), (0, C + 5), (C + 2,)][rng.randint(7)]


def logits_mask_choice(rng, C):
  r = rng.rand()
  if r < 0.45:
    return None
  if r < 0.55:
    return tuple([0.0] * C)
  if r < 0.62:
    return tuple([float('-inf')] * C)          # everything masked: a C-way tie
  if r < 0.76:
    # additive biases that are neither 0 nor -inf: the '-1e9' idiom, finite offsets, occasionally +inf (forces a class).
    # The mask is ADDED to the scores (docstring), so these entries must move the arg-max / top-k set accordingly.
    vals = np.array([0.0, -1e9, -30.0, 5.0, 2.5, 1e9, float('-inf')])
    lm = vals[rng.randint(len(vals), size=C)]
    if rng.rand() < 0.15:
      lm[rng.randint(C)] = float('inf')
    if np.all(np.isneginf(lm)):
      lm[rng.randint(C)] = 5.0
    return tuple(float(v) for v in lm)
  lm = np.where(rng.rand(C) < 0.4, float('-inf'), 0.0)
  if np.all(np.isinf(lm)):
    lm[rng.randint(C)] = 0.0
  return tuple(float(v) for v in lm)


def make_metric(M, name, rng, C, L, tkey='y', pkey=None, dkey='domain_id', D=3, base=None, k=None, pp=None):
  """Returns (metric, args) for class `name`; args is a JSON-able description of the constructor settings."""
  common = {'target_key': tkey}
  args = {'class': name}
  cls = getattr(M, name)
  if name in ('CrossEntropyLoss', 'Accuracy'):
    kw = dict(common, pred_key=pkey)
  elif name == 'TopKAccuracy':
    kk = int(K_GRID(C)[rng.randint(8)]) if k is None else k
    kw = dict(common, pred_key=pkey, k=kk)
    args['k'] = kk
  elif name == 'ConfusionMatrix':
    kw = dict(common, pred_key=pkey, num_classes=C)
    args['num_classes'] = C
  elif name in ('SequenceTokenCrossEntropyLoss',):
    kw = dict(common, pred_key=pkey, masked_target_values=masked_choices(rng, C), per_position=bool(rng.rand() < 0.4))
  elif name == 'SequenceCrossEntropyLoss':
    kw = dict(common, pred_key=pkey, masked_target_values=masked_choices(rng, C))
  elif name == 'SequenceTokenAccuracy':
    kw = dict(common, pred_key=pkey, masked_target_values=masked_choices(rng, C),
              logits_mask=logits_mask_choice(rng, C), per_position=bool(rng.rand() < 0.4))
  elif name == 'SequenceTokenTopKAccuracy':
    kk = int(K_GRID(C)[rng.randint(8)]) if k is None else k
    kw = dict(common, pred_key=pkey, k=kk, masked_target_values=masked_choices(rng, C),
              logits_mask=logits_mask_choice(rng, C), per_position=bool(rng.rand() < 0.4))
    args['k'] = kk
  elif name in ('SequenceTokenCount', 'SequenceCount', 'SequenceLength'):
    kw = dict(common, masked_target_values=masked_choices(rng, C))
  elif name == 'SequenceTruncationRate':
    masked = masked_choices(rng, C)
    # eos is never a masked value: "masked values are ignored in computation" and "truncated sequences will not have this value"
    # give no defined answer for a masked eos (C14 assumption)
    cand = [c for c in range(C) if c not in masked] or [C]
    kw = dict(common, masked_target_values=masked, eos_target_value=int(cand[rng.randint(len(cand))]))
  elif name == 'SequenceTokenOOVRate':
    r = rng.rand()
    if r < 0.7:
      oov = (int(rng.randint(0, C)),)
    elif r < 0.9:
      oov = tuple(int(v) for v in rng.choice(C, size=min(C, rng.randint(2, 4)), replace=False))
    else:
      oov = ()
    kw = dict(common, masked_target_values=masked_choices(rng, C), oov_target_values=oov,
              per_position=bool(rng.rand() < 0.4))
  elif name == 'PerDomainMetric':
    if base is None:
      raise ValueError('PerDomainMetric needs a base')
    bm, bargs = base
    kw = dict(base=bm, num_domains=D, domain_id_key=dkey)
    args.update(num_domains=D, domain_id_key=dkey, base=bargs)
    return cls(**kw), args
  else:
    raise Inconclusive(f'no metric generator for {name}')
  if pp is not None and 'per_position' in kw:
    kw['per_position'] = bool(pp)
  for key, v in kw.items():
    if key not in ('target_key', 'pred_key'):
      args.setdefault(key, list(v) if isinstance(v, tuple) else v)
  args['target_key'], args['pred_key'] = tkey, pkey
  return cls(**kw), args


def metric_masked(args):
  """Masked target values of a generated metric (following PerDomain to its base)."""
  while 'base' in args:
    args = args['base']
  return tuple(args.get('masked_target_values', ()))


def base_args(args):
  while 'base' in args:
    args = args['base']
  return args
