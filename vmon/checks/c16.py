"""C16 — Serialization round-trips every supported value exactly.

Three workloads, all judged by a harness-side structural bitwise comparator that shares no code with fedjax:

  rt/      msgpack_deserialize(msgpack_serialize(x)) for generated nested dict/list structures of supported leaves
  reject/  the same with one leaf of an unsupported class planted somewhere: the only allowed outcomes are an
           exception (at either stage) or a result that is structurally equal to the input
  sqlite/  SQLiteFederatedDataBuilder -> SQLiteFederatedData: ids, sizes, examples
  state/   save_state/load_state and save_checkpoint/load_latest_checkpoint of pytree dataclass states
"""
import os
import shutil
import struct
import sys
import tempfile

import numpy as np

from vmon import gen

PROPERTY = 'C16'
LEVEL = 'exploration'
RULE = ('Seeded random structures: nesting depth 0-4 of dict/list; leaves drawn from ndarray (15 dtypes x shapes 0-d/empty/'
        'rank<=5 x layouts C/F/strided/negative-stride/broadcast/transposed/unaligned-field x native/swapped byte order, '
        'random bit patterns incl. NaN payloads, inf, denormals, -0.0), jax.Array, bytes-object arrays, NumPy scalars, '
        'Python int (incl. the +-2^63 / 2^64-1 edges)/float/bool/None/str/bytes/complex. reject/ cases plant one leaf of an '
        'unsupported class (tuple, U/S string arrays, aligned/packed structured dtypes, object arrays mixing bytes with '
        'str/int/None/float/tuple/dict, datetime64/timedelta64, set, >64-bit int, non-str dict key). sqlite/ cases '
        'write 1-7 clients (hostile ids, 0..6 rows, 1-5 features of all dtype/layout classes) in 1-3 add_many calls and read '
        'them back through every reader method; state/ cases pickle fed_avg.ServerState (sgd/momentum/adam optimizer state) '
        'and a harness pytree dataclass through save_state and a 1-4 checkpoint history. Non-trivial: the structure '
        'contains at least one leaf that takes a msgpack ext-type path (array, NumPy scalar, complex) or is a reject/'
        'sqlite/state case with at least one array; distinct by the digest of (nesting, leaf classes, dtypes, shapes, '
        'layouts, byte orders, value bytes).')
RULE += (' Wave-4 additions: SQLite read-back with overlapping reads on one dataset object; a save_checkpoint failing half-way through a multi-megabyte pickle must leave the previous checkpoint the latest loadable one.')
ASSUMPTIONS = [
    'dtype equality is judged modulo byte order (a swapped array may come back native as long as the values are equal); '
    'values are compared bitwise except that NaN matches NaN regardless of payload',
    'a jax.Array leaf may come back as a NumPy array (documented); the expected value is np.asarray(leaf)',
    'Python ints outside [-2^63, 2^64-1] are outside the msgpack domain and are treated as an unsupported class '
    '(error or exact round trip)',
    'an unsupported leaf that round-trips to an exactly equal structure without an error is not a refutation '
    '(the property forbids silent alteration)',
    'SQLite clients are added in ascending id order with unique ids and at least one feature; checkpoint round numbers '
    'are increasing and < 10^8',
    'little-endian host (swapped = big-endian storage); generalised through dtype.newbyteorder("S")',
]
SHARDS = {'quick': 4, 'thorough': 12}
SHARD_TIMEOUT = {'quick': 600, 'thorough': 2400}
EXHAUSTIVE = {'quick': False, 'thorough': False}
MIN_HITS = {
    'quick': {
        'mon:roundtrip': 600, 'mon:reject': 150, 'mon:sqlite': 150, 'mon:state': 60, 'mon:readonly': 600,
        'leaf:ndarray': 1500, 'leaf:jax': 100, 'leaf:bytes-array': 100, 'leaf:npscalar': 100, 'leaf:pyint': 50,
        'leaf:pycomplex': 30, 'layout:F': 50, 'layout:strided': 50, 'layout:negstride': 50, 'layout:broadcast': 30,
        'layout:transposed': 30, 'layout:field-view': 20, 'order:swapped': 50, 'shape:0d': 50, 'shape:empty': 50,
        'shape:rank>=4': 30, 'dtype:bfloat16': 20, 'dtype:float16': 20, 'dtype:complex64': 20, 'dtype:uint64': 20,
        'dtype:bool': 20, 'depth:0': 20, 'depth:4': 20, 'reject:raised-serialize': 50, 'reject:raised-deserialize': 20,
        'sqlite:clients': 150, 'state:checkpoints': 40, 'hit:failed-save': 25, 'hit:sqlite-overlapping-reads': 50, 'hit:sqlite-bulk': 6, 'hit:highly-compressible-client': 6, 'hit:huge-structure': 2, 'ckpt-dir:./relative': 2, 'ckpt-dir:inner /./': 2, 'ckpt-dir:doubled slash': 2,
    },
    'thorough': {
        'mon:roundtrip': 12000, 'mon:reject': 3000, 'mon:sqlite': 3000, 'mon:state': 1000, 'mon:readonly': 12000,
        'leaf:ndarray': 30000, 'leaf:jax': 2000, 'leaf:bytes-array': 2000, 'leaf:npscalar': 2000, 'leaf:pyint': 1000,
        'leaf:pycomplex': 500, 'layout:F': 1000, 'layout:strided': 1000, 'layout:negstride': 1000,
        'layout:broadcast': 500, 'layout:transposed': 500, 'layout:field-view': 300, 'order:swapped': 1000,
        'shape:0d': 1000, 'shape:empty': 1000, 'shape:rank>=4': 500, 'dtype:bfloat16': 300, 'dtype:float16': 300,
        'dtype:complex64': 300, 'dtype:uint64': 300, 'dtype:bool': 300, 'depth:0': 300, 'depth:4': 300,
        'reject:raised-serialize': 1000, 'reject:raised-deserialize': 300, 'sqlite:clients': 3000,
        'state:checkpoints': 700, 'hit:failed-save': 400, 'hit:sqlite-overlapping-reads': 900, 'hit:sqlite-bulk': 40, 'hit:huge-structure': 8, 'ckpt-dir:./relative': 40, 'ckpt-dir:inner /./': 40, 'ckpt-dir:doubled slash': 40,
    },
}
TECHNIQUE = ('runtime monitoring: structural bitwise round-trip oracle over generated nested structures, reject-or-equal '
             'oracle for unsupported leaves, file-level SQLite and checkpoint round trips')
LEVEL_TEXT = ('Every generated structure is pushed through the real msgpack_serialize/msgpack_deserialize, the real SQLite '
              'builder and reader (real files) and the real save_state/load_state/save_checkpoint/load_latest_checkpoint; '
              'each result is compared leaf by leaf (nesting, container and leaf types, dtype modulo byte order, shape, '
              'bit pattern) with the input by a harness comparator. Held-on-observed over the listed class coverage; '
              'not a proof for unseen dtype/layout combinations.')
LEVEL_NOTE = ('Trusts NumPy (tobytes/byteswap/view for the expected bit patterns), np.asarray(jax.Array) for the expected '
              'value of JAX leaves, sqlite3, pickle and msgpack as external collaborators; the comparator is harness code.')

# ------------------------------------------------------------------------------------------------ dtypes
_NUMERIC = ['int8', 'int16', 'int32', 'int64', 'uint8', 'uint16', 'uint32', 'uint64', 'float16', 'float32', 'float64',
            'bfloat16', 'complex64', 'complex128', 'bool']
_JAX_OK = ['int8', 'int16', 'int32', 'uint8', 'uint16', 'uint32', 'float16', 'float32', 'bfloat16', 'complex64', 'bool']


def _dt(name):
  if name == 'bfloat16':
    import ml_dtypes
    return np.dtype(ml_dtypes.bfloat16)
  return np.dtype(name)


def _is_floatlike(dt):
  return dt.kind in 'fc' or dt.name in ('bfloat16',)


def _random_values(rng, dt, shape):
  """Random *bit patterns* of dtype dt (bool: 0/1) as a fresh C-contiguous native array."""
  n = int(np.prod(shape, dtype=np.int64))
  if dt.kind == 'b':
    return (rng.randint(0, 2, size=n).astype(np.bool_)).reshape(shape)
  mode = rng.randint(4)
  if mode == 0 or not _is_floatlike(dt):
    raw = rng.randint(0, 256, size=n * dt.itemsize).astype(np.uint8)
    if not _is_floatlike(dt) and rng.rand() < 0.3 and n:
      # extremes of integer ranges
      info = np.iinfo(dt)
      arr = np.array([info.min, info.max, 0, 1][:max(1, min(4, n))], dtype=dt)
      out = np.frombuffer(raw.tobytes(), dtype=dt).copy()
      out[:arr.size] = arr
      return out.reshape(shape)
    return np.frombuffer(raw.tobytes(), dtype=dt).copy().reshape(shape)
  # ordinary magnitudes mixed with special values
  if dt.kind == 'c':
    vals = (rng.randn(n) + 1j * rng.randn(n))
  else:
    vals = rng.randn(n) * (10.0**rng.randint(-3, 4))
  out = vals.astype(dt)
  if n:
    specials = [np.nan, np.inf, -np.inf, -0.0, 0.0]
    k = rng.randint(0, min(n, 4) + 1)
    for idx in rng.randint(0, n, size=k):
      out[idx] = specials[rng.randint(len(specials))]
  return out.reshape(shape)


_SHAPES_SMALL = [(), (), (), (0,), (0, 3), (3, 0, 2), (1,), (1, 1), (2,), (5,), (2, 3), (3, 2), (4, 4), (2, 3, 4), (1, 5, 1),
                 (2, 2, 2, 2), (3, 1, 2, 2), (2, 1, 2, 1, 3), (2, 2, 2, 2, 2), (17,), (7, 3)]


def _random_shape(rng):
  r = rng.rand()
  if r < 0.7:
    return _SHAPES_SMALL[rng.randint(len(_SHAPES_SMALL))]
  rank = rng.randint(1, 6)
  return tuple(int(v) for v in rng.randint(0 if rng.rand() < 0.15 else 1, 5, size=rank))


def _relayout(rng, base, want=None):
  """Returns (view_or_copy with the same logical content as `base`, layout name)."""
  choices = ['C', 'F', 'strided', 'negstride', 'broadcast', 'transposed', 'field-view']
  kind = want or choices[rng.randint(len(choices))]
  if base.ndim == 0 and kind not in ('C', 'field-view'):
    kind = 'C'
  if kind == 'C':
    return base, 'C'
  if kind == 'F':
    if base.ndim < 2:
      return base, 'C'
    return np.asfortranarray(base), 'F'
  if kind == 'strided':
    # embed into a larger buffer with step 2 / 3 on a random axis
    ax = rng.randint(base.ndim)
    step = int(rng.randint(2, 4))
    big_shape = list(base.shape)
    big_shape[ax] = base.shape[ax] * step + 1
    big = np.zeros(big_shape, dtype=base.dtype)
    if base.dtype != object and base.dtype.kind != 'b':
      big.view(np.uint8)[...] = 0xAB
    sl = [slice(None)] * base.ndim
    sl[ax] = slice(1, 1 + base.shape[ax] * step, step)
    view = big[tuple(sl)]
    view[...] = base
    return view, 'strided'
  if kind == 'negstride':
    ax = rng.randint(base.ndim)
    sl = [slice(None)] * base.ndim
    sl[ax] = slice(None, None, -1)
    rev = np.ascontiguousarray(base[tuple(sl)])
    return rev[tuple(sl)], 'negstride'
  if kind == 'broadcast':
    # logical content must equal base: only possible when base is constant along an axis; build such a base.
    ax = rng.randint(base.ndim)
    sl = [slice(None)] * base.ndim
    sl[ax] = slice(0, 1)
    if base.shape[ax] == 0:
      return base, 'C'
    return np.broadcast_to(base[tuple(sl)], base.shape), 'broadcast'
  if kind == 'transposed':
    if base.ndim < 2:
      return base, 'C'
    perm = rng.permutation(base.ndim)
    inv = np.argsort(perm)
    stored = np.ascontiguousarray(base.transpose(perm))
    return stored.transpose(inv), 'transposed'
  if kind == 'field-view':
    if base.dtype == object or base.dtype.itemsize < 2 or base.dtype.names is not None or base.dtype.kind == 'V':
      return base, 'C'
    rec = np.zeros(base.shape, dtype=[('pad', 'u1'), ('v', base.dtype)])
    rec['v'] = base
    return rec['v'], 'field-view'
  raise AssertionError(kind)


# ------------------------------------------------------------------------------------------------ leaves
class Leaf:
  """A generated leaf: the value handed to fedjax + what the harness expects back."""

  def __init__(self, value, klass, expect=None, **info):
    self.value = value
    self.klass = klass
    self.expect = value if expect is None else expect
    self.info = info

  def describe(self):
    d = {'class': self.klass}
    d.update(self.info)
    return d


def make_ndarray_leaf(rng, dtype=None, shape=None, layout=None, swapped=None, leading=None):
  name = dtype or _NUMERIC[rng.randint(len(_NUMERIC))]
  dt = _dt(name)
  shp = _random_shape(rng) if shape is None else shape
  if leading is not None:
    shp = (leading,) + tuple(shp)
  base = _random_values(rng, dt, shp)  # native, C-contiguous: what must come back
  can_swap = dt.itemsize > 1 and dt.name != 'bfloat16'
  if swapped is None:
    swapped = rng.rand() < 0.12
  swapped = bool(swapped and can_swap)
  # same logical values, byte-swapped storage, byte-swapped dtype
  stored = base.byteswap().view(dt.newbyteorder('S')) if swapped else base
  arr, lay = _relayout(rng, stored, layout)
  if lay == 'broadcast':
    base = _to_native(arr)
  arr.flags.writeable = False
  return Leaf(arr, 'ndarray', expect=base, dtype=dt.name, shape=list(shp), layout=lay,
              order='swapped' if swapped else 'native')


def make_jax_leaf(rng):
  import jax.numpy as jnp
  name = _JAX_OK[rng.randint(len(_JAX_OK))]
  dt = _dt(name)
  shp = _random_shape(rng)
  base = _random_values(rng, dt, shp)
  x = jnp.asarray(base)
  return Leaf(x, 'jax', expect=np.asarray(x), dtype=name, shape=list(shp), layout='jax', order='native')


def _random_bytes(rng):
  r = rng.rand()
  if r < 0.2:
    return b''
  if r < 0.3:
    return bytes(rng.randint(0, 256, size=rng.randint(256, 400)).astype(np.uint8))  # bin16 format
  if r < 0.4:
    return b'\x00' * rng.randint(1, 4)
  return bytes(rng.randint(0, 256, size=rng.randint(1, 9)).astype(np.uint8))


_OBJ_SHAPES = [(0,), (0, 2), (2, 0), (1,), (3,), (5,), (2, 3), (3, 2), (2, 2, 2), (), (1, 1), (4, 1)]


def make_bytes_array_leaf(rng, shape=None, leading=None):
  shp = _OBJ_SHAPES[rng.randint(len(_OBJ_SHAPES))] if shape is None else shape
  if leading is not None:
    shp = (leading,) + tuple(shp)
  base = np.empty(shp, dtype=object)
  flat = base.reshape(-1) if base.ndim else None
  if base.ndim == 0:
    base[()] = _random_bytes(rng)
  else:
    all_empty = rng.rand() < 0.1
    for i in range(flat.shape[0]):
      flat[i] = b'' if all_empty else _random_bytes(rng)
  arr, lay = _relayout(rng, base, ['C', 'F', 'strided', 'negstride', 'transposed', 'C'][rng.randint(6)])
  return Leaf(arr, 'bytes-array', expect=base, dtype='object', shape=list(shp), layout=lay, order='native')


def make_npscalar_leaf(rng):
  name = _NUMERIC[rng.randint(len(_NUMERIC))]
  dt = _dt(name)
  v = _random_values(rng, dt, (1,))[0]
  assert isinstance(v, np.generic), type(v)
  return Leaf(v, 'npscalar', dtype=name)


_INT_EDGES = [-2**63, -2**63 + 1, -2**31 - 1, -2**31, -129, -128, -33, -32, -1, 0, 1, 127, 128, 255, 256, 65535, 65536,
              2**31 - 1, 2**31, 2**32 - 1, 2**32, 2**63 - 1, 2**63, 2**64 - 1]
_FLOAT_EDGES = [0.0, -0.0, float('nan'), float('inf'), float('-inf'), 5e-324, 1.7976931348623157e308, 1.5, -2.25, 1e-7,
                0.1]
_STRS = ['', 'a', 'key', 'héllo', '\x00', 'x' * 40, 'ключ', '日本', 'a b', 'x' * 300]


def make_py_leaf(rng, kind=None):
  kind = kind or ['pyint', 'pyfloat', 'pybool', 'none', 'pystr', 'pybytes', 'pycomplex'][rng.randint(7)]
  if kind == 'pyint':
    if rng.rand() < 0.6:
      v = _INT_EDGES[rng.randint(len(_INT_EDGES))]
    else:
      v = int(rng.randint(-2**31, 2**31)) * int(rng.randint(1, 2**31))
      v = max(-2**63, min(2**64 - 1, v))
    return Leaf(v, 'pyint')
  if kind == 'pyfloat':
    v = _FLOAT_EDGES[rng.randint(len(_FLOAT_EDGES))] if rng.rand() < 0.5 else float(rng.randn() * 10.0**rng.randint(-20, 20))
    return Leaf(v, 'pyfloat')
  if kind == 'pybool':
    return Leaf(bool(rng.rand() < 0.5), 'pybool')
  if kind == 'none':
    return Leaf(None, 'none')
  if kind == 'pystr':
    return Leaf(_STRS[rng.randint(len(_STRS))], 'pystr')
  if kind == 'pybytes':
    return Leaf(_random_bytes(rng), 'pybytes')
  re = _FLOAT_EDGES[rng.randint(len(_FLOAT_EDGES))]
  im = _FLOAT_EDGES[rng.randint(len(_FLOAT_EDGES))] if rng.rand() < 0.5 else float(rng.randn())
  return Leaf(complex(re, im), 'pycomplex')


def make_supported_leaf(rng):
  r = rng.rand()
  if r < 0.50:
    return make_ndarray_leaf(rng)
  if r < 0.58:
    return make_jax_leaf(rng)
  if r < 0.68:
    return make_bytes_array_leaf(rng)
  if r < 0.78:
    return make_npscalar_leaf(rng)
  return make_py_leaf(rng)


# ---------------------------------------------------------------------------------- unsupported classes
_UNSUPPORTED = ['tuple', 'tuple-empty', 'tuple-nested', 'U-array', 'S-array', 'struct-aligned', 'struct-packed',
                'mixed-bytes-str', 'mixed-bytes-int', 'mixed-bytes-none', 'mixed-bytes-float', 'mixed-bytes-tuple',
                'mixed-bytes-dict', 'mixed-str-first', 'mixed-int-only', 'datetime64', 'timedelta64', 'set', 'bigint',
                'dict-int-key', 'dict-tuple-key']


def make_unsupported_leaf(rng, kind):
  if kind == 'tuple':
    items = tuple(make_supported_leaf(rng) for _ in range(rng.randint(1, 4)))
    return Leaf(tuple(l.value for l in items), kind, expect=tuple(l.expect for l in items))
  if kind == 'tuple-empty':
    return Leaf((), kind)
  if kind == 'tuple-nested':
    inner = make_py_leaf(rng, 'pyint')
    return Leaf([{'t': (inner.value, 2)}], kind)
  if kind == 'U-array':
    shp = [(2,), (0,), (), (2, 2)][rng.randint(4)]
    return Leaf(np.full(shp, 'ab', dtype='U%d' % rng.randint(1, 5)), kind, shape=list(shp))
  if kind == 'S-array':
    shp = [(2,), (0,), (), (2, 2)][rng.randint(4)]
    return Leaf(np.full(shp, b'ab', dtype='S%d' % rng.randint(1, 5)), kind, shape=list(shp))
  if kind in ('struct-aligned', 'struct-packed'):
    fields = [[('a', 'i1'), ('b', 'f8')], [('x', 'f4')], [('a', 'u2'), ('b', 'i4'), ('c', 'u1')],
              [('a', 'f4'), ('b', 'f4')]][rng.randint(4)]
    dt = np.dtype(fields, align=(kind == 'struct-aligned'))
    shp = [(2,), (0,), (), (2, 2)][rng.randint(4)]
    arr = np.zeros(shp, dtype=dt)
    raw = rng.randint(0, 256, size=arr.nbytes).astype(np.uint8)
    arr = np.frombuffer(raw.tobytes(), dtype=dt).reshape(shp).copy()
    return Leaf(arr, kind, shape=list(shp), dtype=str(dt))
  if kind.startswith('mixed-'):
    others = {
        'mixed-bytes-str': lambda: ['s', 'é', ''][rng.randint(3)],
        'mixed-bytes-int': lambda: int(rng.randint(-5, 300)),
        'mixed-bytes-none': lambda: None,
        'mixed-bytes-float': lambda: float(rng.randn()),
        'mixed-bytes-tuple': lambda: (1, b'x'),
        'mixed-bytes-dict': lambda: {'k': 1},
        'mixed-str-first': lambda: 's',
        'mixed-int-only': lambda: int(rng.randint(0, 9)),
    }[kind]
    shp = [(2,), (3,), (2, 2), (4,)][rng.randint(4)]
    arr = np.empty(shp, dtype=object)
    flat = arr.reshape(-1)
    n = flat.shape[0]
    for i in range(n):
      flat[i] = _random_bytes(rng)
    if kind == 'mixed-str-first':
      flat[0] = others()
    elif kind == 'mixed-int-only':
      for i in range(n):
        flat[i] = others()
    else:
      # position of the foreign element: never index 0 (that one is validated), any later index
      for i in sorted(set(int(v) for v in rng.randint(1, n, size=rng.randint(1, 3)))):
        flat[i] = others()
    return Leaf(arr, kind, shape=list(shp), elements=[type(v).__name__ for v in flat.tolist()])
  if kind == 'datetime64':
    return Leaf(np.array(['2020-01-01', '1999-12-31'], dtype='datetime64[D]'), kind)
  if kind == 'timedelta64':
    return Leaf(np.array([1, -5, 7], dtype='timedelta64[s]'), kind)
  if kind == 'set':
    return Leaf({1, 2}, kind)
  if kind == 'bigint':
    # wider than msgpack's 64 bits: rejected today; if ever supported they must round-trip exactly -- including values whose
    # bit length is a multiple of 8 (top bit of the top byte set), both signs, and one past each boundary
    pool = [2**64, -2**63 - 1, 2**100, -2**64, 2**71, 2**72 - 1, 2**79, 2**127, 2**128 - 1, 2**255, -2**71, -2**127,
            2**72, 2**64 + 255, (1 << 96) - 1, int(rng.randint(1, 2**31)) << int(rng.randint(40, 200))]
    return Leaf(pool[rng.randint(len(pool))], kind)
  if kind == 'dict-int-key':
    return Leaf({1: 2}, kind)
  if kind == 'dict-tuple-key':
    return Leaf({(1, 2): 3}, kind)
  raise AssertionError(kind)


# ---------------------------------------------------------------------------------------------- structures
_KEYS = ['a', 'b', 'params', '', 'k0', 'ключ', 'x' * 33, 'layer/w', '0', 'é', 'y' * 260]


def make_structure(rng, depth, leaf_fn, leaves, plant=None):
  """Returns (value, expected, description). Exactly `depth` levels of containers above the deepest leaf."""
  if depth == 0:
    leaf = plant.pop() if plant else leaf_fn(rng)
    leaves.append(leaf)
    return leaf.value, leaf.expect, leaf.describe()
  n = rng.randint(0, 5)
  if n == 0 and (plant or rng.rand() < 0.8):
    n = 1
  deep = rng.randint(n) if n else -1  # child that carries the full remaining depth (and the planted leaf)
  is_dict = rng.rand() < 0.5
  vals, exps, descs = [], [], []
  for i in range(n):
    d = depth - 1 if i == deep else rng.randint(0, depth)
    v, e, ds = make_structure(rng, d, leaf_fn, leaves, plant if i == deep else None)
    vals.append(v)
    exps.append(e)
    descs.append(ds)
  if is_dict:
    keys = [str(k) for k in rng.choice(_KEYS, size=n, replace=False)]
    return dict(zip(keys, vals)), dict(zip(keys, exps)), {'dict': dict(zip(keys, descs))}
  return vals, exps, {'list': descs}


# ---------------------------------------------------------------------------------------------- comparator
def _float_bits_equal(a, b):
  return struct.pack('<d', a) == struct.pack('<d', b) or (a != a and b != b)


def _to_native(a):
  a = np.asarray(a)
  if a.dtype.isnative:
    return np.ascontiguousarray(a)
  return np.ascontiguousarray(a).byteswap().view(a.dtype.newbyteorder('='))


def _same_dtype_mod_order(d1, d2):
  if d1 == d2:
    return True
  try:
    n1 = d1 if d1.isnative else d1.newbyteorder('=')
    n2 = d2 if d2.isnative else d2.newbyteorder('=')
  except Exception:  # pylint: disable=broad-except
    return False
  return n1 == n2


def _numeric_values_equal(exp, got):
  """exp, got: same shape, same dtype modulo byte order. Bitwise, NaN payload-insensitive."""
  e, g = _to_native(exp), _to_native(got)
  if e.tobytes() == g.tobytes():
    return True
  if not _is_floatlike(e.dtype):
    return False
  wide = np.complex128 if e.dtype.kind == 'c' else np.float64
  ew, gw = e.astype(wide).reshape(-1), g.astype(wide).reshape(-1)
  parts = [(ew.real, gw.real), (ew.imag, gw.imag)] if wide is np.complex128 else [(ew, gw)]
  for x, y in parts:
    both_nan = np.isnan(x) & np.isnan(y)
    same = (x == y) & (np.signbit(x) == np.signbit(y))
    if not np.all(both_nan | same):
      return False
  return True


def _is_jax(x):
  j = sys.modules.get('jax')
  return j is not None and isinstance(x, j.Array)


def compare(exp, got, path, out):
  """Appends (path, kind, detail, exp, got) mismatches to `out`."""
  if isinstance(exp, dict):
    if type(got) is not dict:
      out.append((path, 'nesting', f'expected dict, got {type(got).__name__}', exp, got))
      return
    if set(exp.keys()) != set(got.keys()) or any(type(k) is not type(k2) for k, k2 in zip(sorted(exp, key=repr),
                                                                                          sorted(got, key=repr))):
      out.append((path, 'nesting', f'dict keys {sorted(map(repr, exp))} became {sorted(map(repr, got))}', None, None))
      return
    for k in exp:
      compare(exp[k], got[k], f'{path}/{k!r}', out)
    return
  if isinstance(exp, (list, tuple)):
    if type(got) is not type(exp):
      out.append((path, 'nesting', f'expected {type(exp).__name__}, got {type(got).__name__}', exp, got))
      return
    if len(exp) != len(got):
      out.append((path, 'nesting', f'length {len(exp)} became {len(got)}', exp, got))
      return
    for i, (a, b) in enumerate(zip(exp, got)):
      compare(a, b, f'{path}[{i}]', out)
    return
  if isinstance(exp, (set, frozenset)):
    if type(got) is not type(exp) or exp != got:
      out.append((path, 'value', 'set changed', exp, got))
    return
  if isinstance(exp, np.ndarray):
    is_arr = isinstance(got, np.ndarray) or _is_jax(got)
    if not is_arr:
      out.append((path, 'leaf-type', f'expected ndarray, got {type(got).__name__}', exp, got))
      return
    got = np.asarray(got)
    if exp.dtype == object or got.dtype == object:
      if got.dtype != exp.dtype:
        out.append((path, 'dtype', f'dtype {exp.dtype} became {got.dtype}', exp, got))
        return
      if got.shape != exp.shape:
        out.append((path, 'shape', f'shape {exp.shape} became {got.shape}', exp, got))
        return
      sub = []
      for i, (a, b) in enumerate(zip(exp.reshape(-1).tolist() if exp.ndim else [exp[()]],
                                     got.reshape(-1).tolist() if got.ndim else [got[()]])):
        compare(a, b, f'{path}<{i}>', sub)
      if sub:
        out.append((path, 'value', 'object array elements differ: ' + '; '.join(f'{p}: {d}' for p, _, d, _, _ in sub[:3]),
                    exp, got))
      return
    numeric = exp.dtype.kind in 'biufc' or exp.dtype.name == 'bfloat16'
    if numeric:
      if not _same_dtype_mod_order(exp.dtype, got.dtype):
        out.append((path, 'dtype', f'dtype {exp.dtype} became {got.dtype}', exp, got))
        return
    elif exp.dtype != got.dtype:
      out.append((path, 'dtype', f'dtype {exp.dtype} became {got.dtype}', exp, got))
      return
    if got.shape != exp.shape:
      out.append((path, 'shape', f'shape {exp.shape} became {got.shape}', exp, got))
      return
    if numeric:
      if not _numeric_values_equal(exp, got):
        out.append((path, 'value', 'array values differ', exp, got))
    elif np.ascontiguousarray(exp).tobytes() != np.ascontiguousarray(got).tobytes():
      out.append((path, 'value', 'array bytes differ', exp, got))
    return
  if isinstance(exp, np.generic):
    if type(got) is not type(exp):
      out.append((path, 'leaf-type', f'expected {type(exp).__name__}, got {type(got).__name__}', exp, got))
      return
    ea, ga = np.asarray(exp), np.asarray(got)
    if ea.dtype.kind in 'biufc' or ea.dtype.name == 'bfloat16':
      same = _numeric_values_equal(ea, ga)
    else:
      same = ea.tobytes() == ga.tobytes()
    if not same:
      out.append((path, 'value', 'NumPy scalar value differs', exp, got))
    return
  # python leaves
  if type(got) is not type(exp):
    out.append((path, 'leaf-type', f'expected {type(exp).__name__} {exp!r:.60}, got {type(got).__name__} {got!r:.60}',
                exp, got))
    return
  if isinstance(exp, float):
    ok = _float_bits_equal(exp, got)
  elif isinstance(exp, complex):
    ok = _float_bits_equal(exp.real, got.real) and _float_bits_equal(exp.imag, got.imag)
  else:
    ok = exp == got
  if not ok:
    out.append((path, 'value', f'{exp!r:.60} became {got!r:.60}', exp, got))


def content_digest(x):
  """Digest of a structure as fedjax sees it (used for input-mutation and distinctness)."""
  import hashlib
  m = hashlib.sha256()

  def walk(v):
    if isinstance(v, dict):
      m.update(b'{')
      for k in sorted(v, key=repr):
        m.update(repr(k).encode())
        walk(v[k])
      m.update(b'}')
    elif isinstance(v, (list, tuple)):
      m.update(b'[' if isinstance(v, list) else b'(')
      for e in v:
        walk(e)
      m.update(b']')
    elif isinstance(v, np.ndarray):
      m.update(str(v.dtype).encode() + str(v.shape).encode() + str(v.strides).encode())
      if v.dtype == object:
        m.update(repr(v.tolist()).encode())
      else:
        m.update(v.tobytes('C'))
    elif _is_jax(v):
      a = np.asarray(v)
      m.update(b'jax' + str(a.dtype).encode() + str(a.shape).encode() + a.tobytes())
    elif isinstance(v, np.generic):
      m.update(type(v).__name__.encode() + v.tobytes())
    elif isinstance(v, float):
      m.update(struct.pack('<d', v))
    elif isinstance(v, complex):
      m.update(struct.pack('<dd', v.real, v.imag))
    else:
      m.update(type(v).__name__.encode() + repr(v).encode())

  walk(x)
  return m.hexdigest()


def _count_leaf_classes(ctx, leaves):
  for l in leaves:
    ctx.klass('leaf:' + l.klass)
    info = l.info
    if l.klass in ('ndarray', 'jax', 'bytes-array'):
      if 'dtype' in info:
        ctx.klass('dtype:' + info['dtype'])
      ctx.klass('layout:' + info.get('layout', '?'))
      ctx.klass('order:' + info.get('order', 'native'))
      shp = info.get('shape', [])
      if len(shp) == 0:
        ctx.klass('shape:0d')
      elif 0 in shp:
        ctx.klass('shape:empty')
      if len(shp) >= 4:
        ctx.klass('shape:rank>=4')


_MISMATCH_KEY = {
    'nesting': 'roundtrip/nesting-differs',
    'leaf-type': 'roundtrip/leaf-type-differs',
    'dtype': 'roundtrip/dtype-differs',
    'shape': 'roundtrip/shape-differs',
    'value': 'roundtrip/value-differs',
}


def report_mismatches(ctx, mism, family, wit, lookup):
  """Records one violation per mismatch under its mechanism key. lookup(exp) -> generated Leaf or None."""
  for path, kind, detail, exp, got in mism[:4]:
    src = lookup(exp)
    key = _MISMATCH_KEY[kind].replace('roundtrip', family)
    if src is not None and kind == 'value' and src.klass == 'bytes-array':
      key = f'{family}/bytes-object-array-differs'
    if src is not None and kind == 'value' and src.klass == 'ndarray' and src.info.get('order') == 'swapped':
      # A11: swapped storage is written verbatim but labelled with the (order-less) dtype *name*.
      # One key for every entry point, it is one mechanism.
      key = 'roundtrip/byteswapped-values-differ'
    ctx.violation(key, f'{family} mismatch at {path or "<top>"}: {detail}', {
        **wit, 'path': path, 'leaf': src.describe() if src is not None else None, 'expected': exp, 'got': got,
        'input_repr': repr(src.value)[:400] if src is not None else None
    })


# ------------------------------------------------------------------------------------------------ workloads
def run_roundtrip(ctx, ser, rng, depth):
  leaves = []
  value, expect, desc = make_structure(rng, depth, make_supported_leaf, leaves)
  _count_leaf_classes(ctx, leaves)
  ctx.klass(f'depth:{depth}')
  wit = {'depth': depth, 'structure': desc}
  by_id = {id(l.expect): l for l in leaves}
  before = content_digest(value)
  r = ctx.call('msgpack_serialize', ser.msgpack_serialize, value, witness=wit)
  ok = True
  if r.ok:
    ctx.check(isinstance(r.value, bytes), 'serialized/not-bytes', f'serialize returned {type(r.value).__name__}',
              wit)
    r2 = ctx.call('msgpack_deserialize', ser.msgpack_deserialize, r.value, witness=wit)
    if r2.ok:
      mism = []
      compare(expect, r2.value, '', mism)
      ctx.count('mon:roundtrip')
      ctx.count('leaves-compared', len(leaves))
      if mism:
        ok = False
        report_mismatches(ctx, mism, 'roundtrip', wit, lambda e: by_id.get(id(e)))
  ctx.check(content_digest(value) == before, 'readonly/input-mutated', 'serialization changed its input', wit)
  ext = any(l.klass in ('ndarray', 'jax', 'bytes-array', 'npscalar', 'pycomplex') for l in leaves)
  sample = {'depth': depth, 'structure': desc, 'serialized_bytes': len(r.value) if r.ok else None, 'equal': ok}
  ctx.case_done(('rt', before) if ext else None, sample=sample, klass=['rt'])


def run_reject(ctx, ser, rng, depth, kind):
  bad = make_unsupported_leaf(rng, kind)
  leaves = []
  value, expect, desc = make_structure(rng, depth, make_supported_leaf, leaves, plant=[bad])
  ctx.klass(f'reject-class:{kind}')
  wit = {'depth': depth, 'unsupported': kind, 'unsupported_repr': repr(bad.value)[:300], 'structure': desc}
  before = content_digest(value)
  outcome = None
  r = ctx.call('msgpack_serialize', ser.msgpack_serialize, value, expect=(Exception,), witness=wit)
  if not r.ok:
    outcome = 'raised-serialize'
    wit_exc = f'{type(r.exc).__name__}: {str(r.exc)[:120]}'
  else:
    r2 = ctx.call('msgpack_deserialize', ser.msgpack_deserialize, r.value, expect=(Exception,), witness=wit)
    if not r2.ok:
      outcome = 'raised-deserialize'
      wit_exc = f'{type(r2.exc).__name__}: {str(r2.exc)[:120]}'
    else:
      mism = []
      compare(expect, r2.value, '', mism)
      outcome = 'returned-equal' if not mism else 'returned-altered'
      wit_exc = None
      if mism:
        by_id = {id(l.expect): l for l in leaves}
        for path, mk, detail, exp, got in mism[:3]:
          src = by_id.get(id(exp))
          if src is bad or src is None:
            key = ('reject/mixed-object-array-silently-altered'
                   if kind.startswith('mixed-') else f'reject/{kind}-silently-altered')
          elif src.klass == 'ndarray' and src.info.get('order') == 'swapped' and mk == 'value':
            key = 'roundtrip/byteswapped-values-differ'
          else:
            key = f'reject/supported-sibling-{mk}-differs'
          ctx.violation(key, f'unsupported leaf class {kind}: no error and the result differs at {path or "<top>"}: '
                        f'{detail}', {**wit, 'path': path, 'expected': exp, 'got': got,
                                      'leaf': src.describe() if src is not None else None})
  ctx.count('mon:reject')
  ctx.klass('reject:' + outcome)
  ctx.klass(f'reject-outcome:{kind}:{outcome}')
  ctx.check(content_digest(value) == before, 'readonly/input-mutated', 'serialization changed its input', wit)
  ctx.case_done(('reject', kind, before), sample={**wit, 'outcome': outcome, 'error': wit_exc}, klass=['reject'])


def make_client_examples(rng, n):
  """Feature dict with leading dimension n; returns (examples, expected, leaves)."""
  leaves = {}
  k = rng.randint(1, 6)
  names = [str(x) for x in rng.choice(['x', 'y', 'idx', 'pixels', 'label', 'tok', 'ключ', 'm' * 35, 'w'], size=k,
                                      replace=False)]
  for name in names:
    r = rng.rand()
    trail = [(), (), (3,), (2, 2), (1,), (0,), (2, 1, 2)][rng.randint(7)]
    if r < 0.2:
      leaf = make_bytes_array_leaf(rng, shape=[(), (), (2,)][rng.randint(3)], leading=n)
    else:
      leaf = make_ndarray_leaf(rng, shape=trail, leading=n, swapped=None if rng.rand() < 0.5 else False)
    leaves[name] = leaf
  return ({k: l.value for k, l in leaves.items()}, {k: l.expect for k, l in leaves.items()}, leaves)


def run_sqlite(ctx, sfd, rng, scratch):
  d = tempfile.mkdtemp(prefix='sq-', dir=scratch)
  try:
    path = os.path.join(d, 'data.sqlite')
    nclients = int(rng.randint(1, 8))
    ids = gen.hostile_client_ids(rng, nclients)
    clients, expected, leafmap, feats = [], {}, {}, {}
    for cid in ids:
      n = int([0, 1, 2, 3, 6][rng.randint(5)])
      ex, exp, leaves = make_client_examples(rng, n)
      clients.append((cid, ex))
      expected[cid] = (n, exp)
      feats[repr(cid)] = {k: l.describe() for k, l in leaves.items()}
      _count_leaf_classes(ctx, leaves.values())
      for l in leaves.values():
        leafmap[id(l.expect)] = l
    wit = {'client_ids': ids, 'sizes': [expected[c][0] for c in ids], 'features': feats}
    before = content_digest([c[1] for c in clients])
    ncalls = int(rng.randint(1, 4))
    cuts = sorted(set([0, len(clients)] + [int(v) for v in rng.randint(0, len(clients) + 1, size=ncalls - 1)]))

    def build():
      with sfd.SQLiteFederatedDataBuilder(path) as b:
        for lo, hi in zip(cuts[:-1], cuts[1:]):
          chunk = clients[lo:hi]
          b.add_many(iter(chunk) if rng.rand() < 0.5 else chunk)

    r = ctx.call('SQLiteFederatedDataBuilder', build, witness=wit)
    if not r.ok:
      ctx.case_done(None, sample=wit, klass=['sqlite-build-raised'])
      return
    ctx.check(content_digest([c[1] for c in clients]) == before, 'readonly/input-mutated',
              'the SQLite builder changed the examples it was given', wit)

    def read():
      fd = sfd.SQLiteFederatedData.new(path)
      try:
        out = {
            'num_clients': fd.num_clients(),
            'client_ids': list(fd.client_ids()),
            'client_sizes': list(fd.client_sizes()),
            'client_size': [fd.client_size(c) for c in ids],
            'clients': [(c, ds.all_examples()) for c, ds in fd.clients()],
            'get_client': [(c, fd.get_client(c).all_examples()) for c in ids],
            'get_clients': [(c, ds.all_examples()) for c, ds in fd.get_clients(list(reversed(ids)))],
            # overlapping reads on one dataset object: a table scan in progress while point look-ups / another scan run
            'scan_with_lookups': [(c, fd.client_size(c), ds.all_examples(), fd.get_client(c).all_examples())
                                  for c, ds in fd.clients()],
            'zip_ids_sizes': list(zip(fd.client_ids(), fd.client_sizes())),
        }
      finally:
        fd._connection.close()  # pylint: disable=protected-access
      return out

    r = ctx.call('SQLiteFederatedData', read, witness=wit)
    if not r.ok:
      ctx.case_done(None, sample=wit, klass=['sqlite-read-raised'])
      return
    got = r.value
    ctx.check(got['num_clients'] == len(ids), 'sqlite/num-clients', f"num_clients() = {got['num_clients']}, wrote "
              f'{len(ids)}', wit)
    ctx.check(got['client_ids'] == ids and all(type(c) is bytes for c in got['client_ids']), 'sqlite/client-ids',
              f"client_ids() = {got['client_ids']!r:.200}", wit)
    exp_sizes = [(c, expected[c][0]) for c in ids]
    ctx.check(got['client_sizes'] == exp_sizes, 'sqlite/client-sizes', f"client_sizes() = {got['client_sizes']!r:.200}, "
              f'expected {exp_sizes!r:.200}', wit)
    ctx.check(got['client_size'] == [n for _, n in exp_sizes], 'sqlite/client-size',
              f"client_size(id) = {got['client_size']}", wit)
    for method, order in (('clients', ids), ('get_client', ids), ('get_clients', list(reversed(ids)))):
      seq = got[method]
      if not ctx.check([c for c, _ in seq] == order, f'sqlite/{method}-ids', f'{method} yielded ids '
                       f'{[c for c, _ in seq]!r:.200}', wit):
        continue
      for c, ex in seq:
        mism = []
        compare(expected[c][1], ex, f'{method}[{c!r}]', mism)
        ctx.count('mon:sqlite')
        ctx.klass('sqlite:clients')
        if mism:
          report_mismatches(ctx, mism, 'sqlite', {**wit, 'method': method, 'client': c}, lambda e: leafmap.get(id(e)))
    scan = got['scan_with_lookups']
    ctx.count('hit:sqlite-overlapping-reads')
    ok_scan = [c for c, _, _, _ in scan] == ids and [n for _, n, _, _ in scan] == [n for _, n in exp_sizes]
    ctx.check(ok_scan, 'sqlite/overlapping-reads-ids', 'clients() interleaved with client_size()/get_client() on the same dataset '
              f'object visited {[c for c, _, _, _ in scan]!r:.200} with sizes {[n for _, n, _, _ in scan]}', wit)
    if ok_scan:
      for c, _, ex_a, ex_b in scan:
        for tag, ex in (('scan', ex_a), ('lookup-during-scan', ex_b)):
          mism = []
          compare(expected[c][1], ex, f'{tag}[{c!r}]', mism)
          if mism:
            report_mismatches(ctx, mism, 'sqlite', {**wit, 'method': 'overlapping-' + tag, 'client': c}, lambda e: leafmap.get(id(e)))
    ctx.check(got['zip_ids_sizes'] == [(c, (c, n)) for c, n in exp_sizes], 'sqlite/overlapping-reads-zip',
              f"zip(client_ids(), client_sizes()) on one dataset object = {got['zip_ids_sizes']!r:.200}", wit)
    nontrivial = any(expected[c][0] > 0 for c in ids)
    ctx.case_done(('sqlite', before) if nontrivial else None,
                  sample={'client_ids': ids, 'sizes': wit['sizes'], 'add_many_calls': len(cuts) - 1,
                          'features_of_first_client': wit['features'][repr(ids[0])]},
                  klass=['sqlite'])
  finally:
    shutil.rmtree(d, ignore_errors=True)


class _SaveFault(Exception):
  pass


class _Unpicklable:

  def __reduce__(self):
    raise _SaveFault('leaf cannot be pickled')


def run_sqlite_bulk(ctx, sfd, rng, scratch, case_no):
  """Thousands of clients written by one add_many call: ids, sizes and spot-checked examples must read back identical."""
  d = tempfile.mkdtemp(prefix='sqb-', dir=scratch)
  fd = None
  try:
    path = os.path.join(d, 'bulk.sqlite')
    n = int([1001, 1024, 1500, 2049, 3500, 4097][case_no % 6]) + int(rng.randint(0, 3))
    ids = sorted({b'u%06d' % int(v) for v in rng.choice(10**6, size=n, replace=False)})
    rows = [int(v) for v in rng.randint(0, 3, size=len(ids))]
    data = {c: {'x': (np.arange(r, dtype=np.int32) + 3 * j), 'tag': np.array([c] * r, dtype=object)} for j, (c, r) in enumerate(zip(ids, rows))}
    # three clients made of megabytes of constant data (blank images, all-padding token rows): their blobs compress at the
    # limit of what DEFLATE can do (about 1000:1)
    for c, mb, val in ((ids[1000 % len(ids)], 2, 0), (ids[1], 4, 1), (ids[len(ids) // 2], 8, 0)):
      r_ = rows[ids.index(c)]
      data[c] = {'x': np.full((r_,), val, np.int32), 'tag': np.array([c] * r_, dtype=object)}
      if r_:
        data[c] = {'x': np.full((r_, mb * (1 << 18) // max(r_, 1)), val, np.int32), 'tag': np.array([c] * r_, dtype=object)}
    compressible = [c for c in (ids[1000 % len(ids)], ids[1], ids[len(ids) // 2]) if rows[ids.index(c)]]
    as_gen = bool(rng.rand() < 0.5)
    wit = {'family': 'sqlite-bulk', 'clients': len(ids), 'add_many_input': 'generator' if as_gen else 'list'}

    def build():
      with sfd.SQLiteFederatedDataBuilder(path) as b:
        b.add_many(((c, data[c]) for c in ids) if as_gen else [(c, data[c]) for c in ids])

    if not ctx.call('SQLiteFederatedDataBuilder', build, witness=wit).ok:
      return ctx.case_done(None, sample=wit, klass=['sqlite-bulk-build-raised'])
    r = ctx.call('SQLiteFederatedData', sfd.SQLiteFederatedData.new, path, witness=wit)
    if not r.ok:
      return ctx.case_done(None, sample=wit, klass=['sqlite-bulk-read-raised'])
    fd = r.value
    ctx.count('hit:sqlite-bulk')
    r = ctx.call('SQLiteFederatedData', lambda: (fd.num_clients(), list(fd.client_ids()), list(fd.client_sizes())), witness=wit)
    if r.ok:
      nc, got_ids, got_sizes = r.value
      missing = sorted(set(ids) - set(got_ids))
      ctx.check(nc == len(ids), 'sqlite/num-clients', f'num_clients() = {nc}, wrote {len(ids)}', wit)
      ctx.check(got_ids == ids, 'sqlite/client-ids', f'client_ids() returns {len(got_ids)} of {len(ids)} written ids; first missing at '
                f'input positions {[ids.index(m) for m in missing[:5]]}', wit)
      ctx.check(got_sizes == list(zip(ids, rows)), 'sqlite/client-sizes', 'client_sizes() differs from the written row counts', wit)
    if compressible:
      ctx.count('hit:highly-compressible-client', len(compressible))
    for pos in sorted({0, len(ids) - 1} | {ids.index(c) for c in compressible} |
                      {q for q in (999, 1000, 1001, 1023, 1024, 2000, 2001, 2002, 2048, 3002, 3003, 4096) if q < len(ids)}):
      c = ids[pos]
      r = ctx.call('SQLiteFederatedData', lambda c=c: fd.get_client(c).all_examples(), witness={**wit, 'client': c, 'input_position': pos})
      if r.ok:
        mism = []
        compare(data[c], r.value, f'get_client[{c!r}]', mism)
        ctx.count('mon:sqlite')
        ctx.check(not mism, 'sqlite/bulk-client-differs', f'client at input position {pos} reads back different: ' +
                  '; '.join(f'{p_}: {dt}' for p_, _, dt, _, _ in mism[:3]), {**wit, 'client': c})
    ctx.case_done(('sqlite-bulk', len(ids), as_gen), sample=wit, klass=['sqlite-bulk'])
  finally:
    try:
      if fd is not None:
        fd._connection.close()  # pylint: disable=protected-access
    except Exception:  # pylint: disable=broad-except
      pass
    shutil.rmtree(d, ignore_errors=True)


def run_huge(ctx, ser, rng, case_no):
  """Structures whose serialized form exceeds 100 MiB / 128 MiB (any buffer limit of the codec): exact round trip."""
  mib = int([101, 129, 150, 257][case_no % 4])
  big = np.frombuffer(np.random.RandomState(case_no).bytes(1 << 20), np.uint8)
  big = np.tile(big, mib)[:mib * (1 << 20) - int(rng.randint(0, 64))].copy()
  big[::4099] = 7
  tree = {'big': big, 'small': np.arange(5, dtype=np.int32), 'n': int(mib)}
  wit = {'family': 'huge', 'leaf_MiB': mib}
  r = ctx.call('msgpack_serialize', ser.msgpack_serialize, tree, witness=wit)
  if r.ok:
    ctx.count('hit:huge-structure')
    wit['serialized_bytes'] = len(r.value)
    r2 = ctx.call('msgpack_deserialize', ser.msgpack_deserialize, r.value, witness=wit)
    if r2.ok:
      got = r2.value
      same = (isinstance(got, dict) and set(got) == set(tree) and isinstance(got['big'], np.ndarray) and got['big'].dtype == np.uint8
              and got['big'].shape == big.shape and bool(np.array_equal(got['big'], big))
              and np.array_equal(got['small'], tree['small']) and got['small'].dtype == np.int32 and got['n'] == mib)
      ctx.check(same, 'roundtrip/huge-structure-differs', f'a structure with a {mib} MiB leaf does not round-trip', wit)
  ctx.case_done(('huge', mib), sample=wit, klass=['huge'])


def _install_state_class(fedjax):
  mod = sys.modules[__name__]
  if hasattr(mod, 'C16State'):
    return mod.C16State

  class C16State:
    params: object
    opt_state: object
    aux: object
    tag: object

  C16State.__module__ = __name__
  C16State.__qualname__ = 'C16State'
  C16State = fedjax.dataclass(C16State)
  C16State.__module__ = __name__
  C16State.__qualname__ = 'C16State'
  mod.C16State = C16State
  return C16State


def make_state(ctx, fedjax, rng):
  import jax
  import jax.numpy as jnp
  from fedjax.algorithms import fed_avg
  kind = ['fed_avg-sgd', 'fed_avg-momentum', 'fed_avg-adam', 'harness-dataclass'][rng.randint(4)]

  def leaf(r):
    shape = [(), (1,), (3,), (2, 2), (4, 1), (5,), (1, 1, 2), (0,), (0, 3)][r.randint(9)]
    return jnp.asarray(_random_values(r, np.dtype('float32'), shape))

  params = gen.pytree(rng, leaf=leaf)
  if not isinstance(params, (dict, list, tuple)):
    params = {'w': params}
  if kind.startswith('fed_avg'):
    opt = {'sgd': lambda: fedjax.optimizers.sgd(0.1),
           'momentum': lambda: fedjax.optimizers.sgd(0.1, momentum=0.9),
           'adam': lambda: fedjax.optimizers.adam(0.01)}[kind.split('-')[1]]()
    state = fed_avg.ServerState(params=params, opt_state=opt.init(params))
  else:
    cls = _install_state_class(fedjax)
    aux = {
        'np': make_ndarray_leaf(rng).value,
        'bytes': make_bytes_array_leaf(rng).value,
        'tuple': (make_py_leaf(rng).value, make_npscalar_leaf(rng).value),
        'key': jax.random.PRNGKey(int(rng.randint(0, 2**31 - 1))),
        'list': [make_ndarray_leaf(rng).value for _ in range(rng.randint(0, 3))],
    }
    state = cls(params=params, opt_state=(jnp.zeros(()), [jnp.ones((2,), jnp.int32)]), aux=aux,
                tag=make_py_leaf(rng, ['pyint', 'pystr', 'pybytes', 'pyfloat'][rng.randint(4)]).value)
  return kind, state


def compare_state(exp, got, out):
  """Pytree-aware comparison: type, treedef, leaf class/dtype/shape/bits."""
  import jax
  if type(exp) is not type(got):
    out.append(('', 'leaf-type', f'state type {type(exp).__name__} became {type(got).__name__}', None, None))
    return
  is_leaf = lambda x: isinstance(x, np.ndarray)  # pylint: disable=unnecessary-lambda-assignment
  le, te = jax.tree_util.tree_flatten_with_path(exp, is_leaf=is_leaf)
  lg, tg = jax.tree_util.tree_flatten_with_path(got, is_leaf=is_leaf)
  if te != tg:
    out.append(('', 'nesting', f'tree structure {te} became {tg}', None, None))
    return
  for (pe, a), (_, b) in zip(le, lg):
    p = jax.tree_util.keystr(pe)
    a_jax = isinstance(a, jax.Array)
    b_jax = isinstance(b, jax.Array)
    if a_jax != b_jax:
      out.append((p, 'leaf-type', f'{type(a).__name__} became {type(b).__name__}', None, None))
      continue
    if a_jax:
      a, b = np.asarray(a), np.asarray(b)
    compare(a, b, p, out)


_SPELL = [0]


def run_state(ctx, fedjax, rng, scratch):
  from fedjax.core import serialization as ser
  from fedjax.training import checkpoint
  d = tempfile.mkdtemp(prefix='st-', dir=scratch)
  try:
    kind, state = make_state(ctx, fedjax, rng)
    wit = {'state_kind': kind, 'state': repr(state)[:600]}
    # ---- save_state / load_state
    path = os.path.join(d, 'one.pickle')
    r = ctx.call('save_state', ser.save_state, state, path, witness=wit)
    if r.ok:
      r2 = ctx.call('load_state', ser.load_state, path, witness=wit)
      if r2.ok:
        mism = []
        compare_state(state, r2.value, mism)
        ctx.check(not mism, 'state/load-state-differs', 'load_state(save_state(s)) != s: ' +
                  '; '.join(f'{p}: {dt}' for p, _, dt, _, _ in mism[:3]), wit)
    # ---- checkpoint history; the directory is named the way callers name directories: absolute, relative to the working
    #      directory, with a leading "./", an inner "/./", a doubled or a trailing slash (all the same directory)
    root = os.path.join(d, 'ckpt')
    os.makedirs(root)
    rel = os.path.relpath(root, os.getcwd())
    _SPELL[0] += 1
    spelling = _SPELL[0] % 7          # every spelling in turn (not drawn: each must be reached in every run)
    root = [root, root, rel, './' + rel, os.path.join(os.path.dirname(rel), '.', os.path.basename(rel)),
            os.path.dirname(rel) + '//' + os.path.basename(rel), root + '/'][spelling]
    wit['checkpoint_dir_spelling'] = ['absolute', 'absolute', 'relative', './relative', 'inner /./', 'doubled slash', 'trailing slash'][spelling]
    ctx.count('ckpt-dir:' + wit['checkpoint_dir_spelling'])
    r0 = ctx.call('load_latest_checkpoint', checkpoint.load_latest_checkpoint, root, witness=wit)
    if r0.ok:
      ctx.check(r0.value is None, 'state/empty-dir-not-none', f'load_latest_checkpoint(empty dir) = {r0.value!r:.100}', wit)
    nsave = int(rng.randint(1, 5))
    rounds = sorted(set(int(v) for v in rng.choice([0, 1, 2, 9, 10, 11, 99, 100, 12345, 99999998, 99999999, 7, 8, 1000],
                                                  size=nsave, replace=False)))
    keep = int(rng.randint(1, 4))
    states = []
    for i, rn in enumerate(rounds):
      _, st = (kind, state) if i == len(rounds) - 1 and rng.rand() < 0.5 else make_state(ctx, fedjax, rng)
      states.append(st)
      w2 = {**wit, 'rounds': rounds, 'keep': keep, 'saving_round': rn}
      rs = ctx.call('save_checkpoint', checkpoint.save_checkpoint, root, st, rn, keep, witness=w2)
      if not rs.ok:
        break
      rl = ctx.call('load_latest_checkpoint', checkpoint.load_latest_checkpoint, root, witness=w2)
      if not rl.ok:
        break
      ctx.klass('state:checkpoints')
      okt = isinstance(rl.value, tuple) and len(rl.value) == 2
      if not ctx.check(okt, 'state/latest-not-a-pair', f'load_latest_checkpoint returned {rl.value!r:.100}', w2):
        break
      got_state, got_round = rl.value
      ctx.check(got_round == rn and type(got_round) is int, 'state/latest-round-differs',
                f'latest round {got_round!r}, saved {rn}', w2)
      mism = []
      compare_state(st, got_state, mism)
      ctx.check(not mism, 'state/checkpoint-state-differs', 'load_latest_checkpoint state != saved state: ' +
                '; '.join(f'{p}: {dt}' for p, _, dt, _, _ in mism[:3]), w2)
    # ---- a save that fails half-way (a leaf that cannot be pickled, reached after megabytes were already written) must leave
    #      the last good checkpoint the latest loadable one
    if states and len(states) == len(rounds) and 'rl' in locals() and rl.ok:
      big = np.arange(300000, dtype=np.float64)
      doomed = {'head': big, 'state': states[-1], 'tail': _Unpicklable()}
      w3 = {**wit, 'rounds': rounds, 'keep': keep, 'failing_round': rounds[-1] + 1}
      rf = ctx.call('save_checkpoint', checkpoint.save_checkpoint, root, doomed, rounds[-1] + 1, keep, expect=(_SaveFault,), witness=w3)
      if not rf.ok and isinstance(rf.exc, _SaveFault):
        ctx.count('hit:failed-save')
        rl2 = ctx.call('load_latest_checkpoint[after-failed-save]', checkpoint.load_latest_checkpoint, root, witness=w3)
        if rl2.ok:
          okp = isinstance(rl2.value, tuple) and len(rl2.value) == 2 and rl2.value[1] == rounds[-1]
          mism = []
          if okp:
            compare_state(states[-1], rl2.value[0], mism)
          ctx.check(okp and not mism, 'state/failed-save-hides-last-checkpoint',
                    'after a save_checkpoint that raised half-way, load_latest_checkpoint no longer returns the last saved state',
                    {**w3, 'loaded_round': rl2.value[1] if isinstance(rl2.value, tuple) and len(rl2.value) == 2 else repr(rl2.value)[:80]})
    ctx.case_done(('state', kind, content_digest(repr(state)), tuple(rounds), keep),
                  sample={'state_kind': kind, 'rounds': rounds, 'keep': keep, 'state': repr(state)[:300]},
                  klass=['state', 'state:' + kind])
  finally:
    shutil.rmtree(d, ignore_errors=True)


def oracle_self_check():
  """The comparator must accept identical structures and reject each kind of alteration."""
  from vmon import core
  rng = np.random.RandomState(12345)
  for _ in range(40):
    leaves = []
    v, e, _ = make_structure(rng, rng.randint(0, 4), make_supported_leaf, leaves)
    m = []
    compare(e, v, '', m)
    if m:
      raise core.Inconclusive(f'comparator rejects a structure against itself: {m[0][:3]}')
  a = np.arange(6, dtype=np.float32).reshape(2, 3)
  alterations = [
      (a, a.T.copy(), 'shape'), (a, a.astype(np.float64), 'dtype'), (a, a + 1, 'value'), (a, a.reshape(6), 'shape'),
      (np.array(1.0), np.array([1.0]), 'shape'), (np.float32(1), np.array(1, np.float32), 'leaf-type'),
      ([1, 2], (1, 2), 'nesting'), ({'a': 1}, {'a': 1, 'b': 2}, 'nesting'), (1, True, 'leaf-type'), (1.0, 1, 'leaf-type'),
      (0.0, -0.0, 'value'), ('s', b's', 'leaf-type'), (np.array([b'a', 's'], dtype=object), np.array([b'a', b's'],
                                                                                                 dtype=object), 'value'),
      (np.arange(4, dtype='>f4'), np.arange(4, dtype='>f4').view('<f4'), 'value'),
      (np.array([[b'a', b'b'], [b'c', b'd']], dtype=object), np.array([[b'a', b'c'], [b'b', b'd']], dtype=object), 'value'),
  ]
  for exp, got, kind in alterations:
    m = []
    compare(exp, got, '', m)
    if not m or m[0][1] != kind:
      raise core.Inconclusive(f'comparator misses a {kind} alteration: {exp!r:.60} vs {got!r:.60} -> {m[:1]}')
  # accepted equivalences
  for exp, got in [(np.arange(4, dtype='>f4'), np.arange(4, dtype='<f4')), (float('nan'), float('nan')),
                   (np.array([np.nan], np.float32), np.frombuffer(b'\x01\x00\xc0\x7f', np.float32))]:
    m = []
    compare(exp, got, '', m)
    if m:
      raise core.Inconclusive(f'comparator rejects an allowed equivalence: {exp!r} vs {got!r}: {m[0][:3]}')


def run(ctx):
  import fedjax
  from fedjax.core import serialization as ser
  from fedjax.core import sqlite_federated_data as sfd
  oracle_self_check()
  scratch = tempfile.mkdtemp(prefix='c16-', dir=os.environ.get('VMON_WORK') or None)
  try:
    n_rt, n_rej, n_sq, n_st = (1000, 252, 80, 48) if ctx.quick else (20000, 5040, 1200, 700)
    for cid, rng in ctx.cases('rt', n_rt):
      idx = int(cid.split('/')[1])
      run_roundtrip(ctx, ser, rng, depth=idx % 5)
    for cid, rng in ctx.cases('reject', n_rej):
      idx = int(cid.split('/')[1])
      kind = _UNSUPPORTED[idx % len(_UNSUPPORTED)]
      run_reject(ctx, ser, rng, depth=(idx // len(_UNSUPPORTED)) % 5, kind=kind)
    for cid, rng in ctx.cases('sqlite', n_sq):
      run_sqlite(ctx, sfd, rng, scratch)
    for cid, rng in ctx.cases('huge', 2 if ctx.quick else 8):
      run_huge(ctx, ser, rng, int(cid.split('/')[1]))
    for cid, rng in ctx.cases('sqlite-bulk', 8 if ctx.quick else 48):
      run_sqlite_bulk(ctx, sfd, rng, scratch, int(cid.split('/')[1]))
    for cid, rng in ctx.cases('state', n_st):
      run_state(ctx, fedjax, rng, scratch)
  finally:
    shutil.rmtree(scratch, ignore_errors=True)
