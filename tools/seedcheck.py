"""Validates an adversary-written change and runs the owning checks against it.

Usage: /venv/bin/python tools/seedcheck.py --src /tmp/seed-C01-out --n 1 --prop C01 --checks C01[,C02] \
          --tests fedjax/algorithms/fed_avg_test.py,... [--store NAME] [--tier quick]

Steps (each in a fresh copy of /repo's working tree under a temp dir, removed afterwards):
  1. demo on the unchanged copy must exit 0;
  2. `git apply patch`; demo must exit non-zero;
  3. the listed repo test files give the same passed-set with and without the patch;
  4. every listed check runs with FEDJAX_REPO=<patched copy> (VMON_NO_EVIDENCE=1); exit 1 = caught.
With --store the patch, demo and a meta.json are written to /verif/seeded/<NAME>/.
"""
import argparse
import json
import os
import re
import shutil
import subprocess
import sys
import tempfile
import time

ROOT = os.path.dirname(os.path.dirname(os.path.abspath(__file__)))


def run(cmd, cwd, env=None, timeout=3600):
  e = dict(os.environ)
  e.update(env or {})
  return subprocess.run(cmd, cwd=cwd, env=e, capture_output=True, text=True, timeout=timeout)


def passed_set(dst, tests):
  r = run(['/venv/bin/python', '-m', 'pytest', '-q', '-p', 'no:cacheprovider', '--timeout=900', '-rA'] + tests, dst,
          {'PYTHONPATH': dst, 'JAX_PLATFORMS': 'cpu'})
  return sorted(set(re.findall(r'^PASSED (\S+)', r.stdout, flags=re.M))), r.stdout[-400:]


def main():
  ap = argparse.ArgumentParser()
  ap.add_argument('--src', required=True)
  ap.add_argument('--n', required=True)
  ap.add_argument('--prop', required=True)
  ap.add_argument('--checks', required=True)
  ap.add_argument('--tests', default='')
  ap.add_argument('--store')
  ap.add_argument('--tier', default='quick')
  ap.add_argument('--jobs', default='8')
  ap.add_argument('--needs', default='')
  ap.add_argument('--skip-validate', action='store_true')
  args = ap.parse_args()
  patch = os.path.join(args.src, f'patch{args.n}.diff')
  demo = os.path.join(args.src, f'demo{args.n}.py')
  tests = [t for t in args.tests.split(',') if t]
  tmp = tempfile.mkdtemp(prefix='vmon-seed-')
  meta = {'property': args.prop, 'patch': os.path.basename(patch), 'demo': os.path.basename(demo), 'needs': args.needs,
          'ran': [], 'date': time.strftime('%Y-%m-%d %H:%M')}
  try:
    dst = os.path.join(tmp, 'repo')
    shutil.copytree('/repo', dst, ignore=shutil.ignore_patterns('.git', '__pycache__', '*.pyc'))
    run(['git', 'init', '-q'], dst)
    env = {'PYTHONPATH': dst, 'JAX_PLATFORMS': 'cpu', 'XLA_FLAGS': '--xla_force_host_platform_device_count=8',
           'TF_CPP_MIN_LOG_LEVEL': '3'}
    if not args.skip_validate:
      r0 = run(['/venv/bin/python', demo], dst, env)
      meta['demo_unpatched_rc'] = r0.returncode
      print('demo unpatched rc', r0.returncode, r0.stdout[-200:], r0.stderr[-300:] if r0.returncode else '')
      base_pass = passed_set(dst, tests)[0] if tests else []
    a = run(['git', 'apply', patch], dst)
    if a.returncode:
      print('PATCH DOES NOT APPLY', a.stderr)
      return 2
    if not args.skip_validate:
      r1 = run(['/venv/bin/python', demo], dst, env)
      meta['demo_patched_rc'] = r1.returncode
      print('demo patched rc', r1.returncode, (r1.stdout + r1.stderr)[-400:])
      if tests:
        p, tail = passed_set(dst, tests)
        meta['tests'] = {'files': tests, 'passed_before': len(base_pass), 'passed_after': len(p), 'same_set': p == base_pass}
        print('tests', meta['tests'])
        if p != base_pass:
          print('  lost:', sorted(set(base_pass) - set(p))[:10])
    results = {}
    for chk in args.checks.split(','):
      t0 = time.time()
      r = run([os.path.join(ROOT, 'check'), chk, '--tier', args.tier], ROOT,
              {'FEDJAX_REPO': dst, 'VMON_NO_EVIDENCE': '1', 'VERIF_JOBS': args.jobs}, timeout=7200)
      keys = sorted({l.split('key=')[1].split(' ')[0] for l in r.stdout.splitlines() if l.strip().startswith('violation key=')})
      verdict = {0: 'MISSED', 1: 'CAUGHT', 2: 'INCONCLUSIVE'}.get(r.returncode, f'rc={r.returncode}')
      results[chk] = {'verdict': verdict, 'keys': keys, 'tier': args.tier, 'wall_s': round(time.time() - t0)}
      print(chk, results[chk])
      if verdict != 'CAUGHT':
        print(r.stdout[-1200:])
      meta['ran'].append(f'FEDJAX_REPO=<patched copy> ./check {chk} --tier {args.tier} -> {verdict} {keys[:6]}')
    meta['checks'] = results
    if args.store:
      out = os.path.join(ROOT, 'seeded', args.store)
      os.makedirs(out, exist_ok=True)
      shutil.copy(patch, os.path.join(out, 'patch.diff'))
      shutil.copy(demo, os.path.join(out, os.path.basename(demo).replace(args.n, '', 1) if False else 'demo.py'))
      notes = os.path.join(args.src, 'notes.md')
      if os.path.exists(notes):
        shutil.copy(notes, os.path.join(out, 'author_notes.md'))
      old = {}
      mp = os.path.join(out, 'meta.json')
      if os.path.exists(mp):
        old = json.load(open(mp))
        meta['ran'] = old.get('ran', []) + meta['ran']
        for k in ('demo_unpatched_rc', 'demo_patched_rc', 'tests', 'needs'):
          if k not in meta or not meta[k]:
            if k in old:
              meta[k] = old[k]
      json.dump(meta, open(mp, 'w'), indent=1)
  finally:
    shutil.rmtree(tmp, ignore_errors=True)
  return 0


if __name__ == '__main__':
  sys.exit(main())
