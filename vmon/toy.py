"""Tiny linear-regression world + float64/float32 NumPy oracles (no fedjax code).

Model: yhat = x . w + b, per-example loss 0.5 * (yhat - y)^2, batch loss = mean
over the rows of the batch. Parameters are a pytree of kind 'flat'
({'w': (d,), 'b': ()}) or 'nested' ({'lin': {'w': (d,)}, 'bias': [b]}).
"""
import numpy as np


# ------------------------------------------------------------------ parameters
def make_params(rng, dim, kind, scale=0.5):
  w = (rng.randn(dim) * scale).astype(np.float32)
  b = np.float32(rng.randn() * scale)
  return pack(w, b, kind)


def pack(w, b, kind):
  if kind == 'flat':
    return {'w': w, 'b': np.asarray(b, dtype=w.dtype)}
  return {'lin': {'w': w}, 'bias': [np.asarray(b, dtype=w.dtype)]}


def unpack(params):
  if 'w' in params:
    return params['w'], params['b']
  return params['lin']['w'], params['bias'][0]


def tmap(f, *trees):
  t0 = trees[0]
  if isinstance(t0, dict):
    return {k: tmap(f, *[t[k] for t in trees]) for k in t0}
  if isinstance(t0, (list, tuple)) and not hasattr(t0, 'shape'):
    return type(t0)(tmap(f, *[t[i] for t in trees]) for i in range(len(t0)))
  return f(*trees)


def leaves(tree):
  if isinstance(tree, dict):
    out = []
    for k in sorted(tree):
      out += leaves(tree[k])
    return out
  if isinstance(tree, (list, tuple)) and not hasattr(tree, 'shape'):
    out = []
    for v in tree:
      out += leaves(v)
    return out
  return [tree]


def cast(tree, dtype):
  return tmap(lambda a: np.asarray(a, dtype=dtype), tree)


def to_np(tree):
  """jax/np pytree (dict/list/tuple) -> numpy leaves."""
  return tmap(lambda a: np.asarray(a), tree)


def max_abs_diff(a, b):
  return max([0.0] + [float(np.max(np.abs(np.asarray(x, np.float64) - np.asarray(y, np.float64)))) if np.size(x) else 0.0
                      for x, y in zip(leaves(a), leaves(b))])


def max_abs(a):
  return max([0.0] + [float(np.max(np.abs(np.asarray(x, np.float64)))) if np.size(x) else 0.0 for x in leaves(a)])


def all_finite(a):
  return all(bool(np.all(np.isfinite(np.asarray(x, np.float64)))) for x in leaves(a))


def l2(tree):
  return float(np.sqrt(sum(float(np.sum(np.asarray(x, np.float64)**2)) for x in leaves(tree))))


# ------------------------------------------------------------------------ data
def make_client(rng, n, dim, w_true=None, idx_base=0):
  x = rng.uniform(-1, 1, size=(n, dim)).astype(np.float32)
  if w_true is None:
    w_true = np.ones(dim)
  y = (x.astype(np.float64) @ w_true + 0.3 * rng.randn(n) + rng.randn() * 0.5).astype(np.float32)
  return {'x': x, 'y': y, 'idx': np.arange(idx_base, idx_base + n, dtype=np.int64)}


# ------------------------------------------------------------ loss / gradients
def np_grad(params, batch, dtype, prox=None):
  """Closed-form gradient of mean_i 0.5*(x_i.w+b-y_i)^2 (+ optional 0.5*mu*|p-c|^2)."""
  w, b = unpack(params)
  kind = 'flat' if 'w' in params else 'nested'
  x = np.asarray(batch['x'], dtype=dtype)
  y = np.asarray(batch['y'], dtype=dtype)
  n = x.shape[0]
  r = x @ w.astype(dtype) + b.astype(dtype) - y
  gw = (x.T @ r) / dtype(n)
  gb = np.sum(r) / dtype(n)
  g = pack(np.asarray(gw, dtype=dtype), np.asarray(gb, dtype=dtype), kind)
  if prox is not None:
    mu, centre = prox
    g = tmap(lambda gi, p, c: gi + dtype(mu) * (p.astype(dtype) - c.astype(dtype)), g, params, centre)
  return g


def np_loss_sum(params, examples, dtype=np.float64):
  w, b = unpack(params)
  x = np.asarray(examples['x'], dtype=dtype)
  y = np.asarray(examples['y'], dtype=dtype)
  r = x @ w.astype(dtype) + b.astype(dtype) - y
  return 0.5 * r * r


def jax_per_example_loss(params, batch):
  import jax.numpy as jnp
  w, b = unpack(params)
  r = jnp.dot(batch['x'], w) + b - batch['y']
  return 0.5 * r * r


def jax_grad_fn(noise=0.0):
  """grad_fn(params, batch, rng) for fedjax algorithms; optional key-derived noise."""
  import jax
  import jax.numpy as jnp

  def loss(params, batch):
    return jnp.mean(jax_per_example_loss(params, batch))

  def grad_fn(params, batch, rng):
    g = jax.grad(loss)(params, batch)
    if noise:
      flat, tdef = jax.tree_util.tree_flatten(g)
      keys = jax.random.split(rng, len(flat))
      flat = [x + noise * jax.random.normal(k, x.shape, x.dtype) for x, k in zip(flat, keys)]
      g = jax.tree_util.tree_unflatten(tdef, flat)
    return g

  return grad_fn


# ------------------------------------------------------------------ optimizers
class NpOpt:
  """NumPy re-implementation of the optax rules fedjax wraps (dtype-generic)."""

  def __init__(self, spec, dtype):
    self.spec = spec
    self.dtype = dtype
    self.min_abs_g = np.inf   # smallest non-zero |g| fed to adam (conditioning guard)

  def init(self, params):
    k = self.spec[0]
    z = lambda: tmap(lambda p: np.zeros_like(np.asarray(p, dtype=self.dtype)), params)
    if k == 'sgd':
      return None
    if k in ('momentum', 'nesterov'):
      return {'t': z()}
    if k == 'adam':
      return {'m': z(), 'v': z(), 'c': 0}
    if k == 'adagrad':
      return {'s': tmap(lambda p: np.full_like(np.asarray(p, dtype=self.dtype), 0.1), params)}
    raise ValueError(k)

  def apply(self, grads, state, params):
    d = self.dtype
    k = self.spec[0]
    lr = d(self.spec[1])
    grads = cast(grads, d)
    params = cast(params, d)
    if k == 'sgd':
      return None, tmap(lambda p, g: p - lr * g, params, grads)
    if k == 'momentum':
      mom = d(self.spec[2])
      t = tmap(lambda g, t: g + mom * t, grads, state['t'])
      return {'t': t}, tmap(lambda p, t: p - lr * t, params, t)
    if k == 'nesterov':
      mom = d(self.spec[2])
      t = tmap(lambda g, t: g + mom * t, grads, state['t'])
      return {'t': t}, tmap(lambda p, g, t: p - lr * (g + mom * t), params, grads, t)
    if k == 'adam':
      b1, b2, eps = d(0.9), d(0.999), d(1e-8)
      for g in leaves(grads):
        a = np.abs(np.asarray(g, np.float64))
        if np.any(a > 0):
          self.min_abs_g = min(self.min_abs_g, float(a[a > 0].min()))
      c = state['c'] + 1
      m = tmap(lambda g, m: b1 * m + (d(1) - b1) * g, grads, state['m'])
      v = tmap(lambda g, v: b2 * v + (d(1) - b2) * g * g, grads, state['v'])
      bc1 = d(1) - b1**d(c)
      bc2 = d(1) - b2**d(c)
      new = tmap(lambda p, m, v: p - lr * ((m / bc1) / (np.sqrt(v / bc2) + eps)), params, m, v)
      return {'m': m, 'v': v, 'c': c}, new
    if k == 'adagrad':
      eps = d(1e-6)
      s = tmap(lambda g, s: s + g * g, grads, state['s'])
      new = tmap(lambda p, g, s: p - lr * np.where(s > 0, g / np.sqrt(s + eps), d(0)), params, grads, s)
      return {'s': s}, new
    raise ValueError(k)


def fedjax_optimizer(spec):
  import fedjax
  k = spec[0]
  if k == 'sgd':
    return fedjax.optimizers.sgd(learning_rate=spec[1])
  if k == 'momentum':
    return fedjax.optimizers.sgd(learning_rate=spec[1], momentum=spec[2])
  if k == 'nesterov':
    return fedjax.optimizers.sgd(learning_rate=spec[1], momentum=spec[2], nesterov=True)
  if k == 'adam':
    return fedjax.optimizers.adam(learning_rate=spec[1])
  if k == 'adagrad':
    return fedjax.optimizers.adagrad(learning_rate=spec[1])
  raise ValueError(k)


def selfcheck_optimizers(dim=3):
  """Oracle self-check: NpOpt vs the wrapped optax rule over 3 steps (float32)."""
  import jax.numpy as jnp
  rng = np.random.RandomState(1234)
  import optax
  for spec in [('sgd', 0.1), ('momentum', 0.1, 0.9), ('nesterov', 0.1, 0.9), ('adam', 0.05), ('adagrad', 0.1)]:
    p = make_params(rng, dim, 'flat')
    opt = fedjax_optimizer(spec)
    if spec[0] == 'nesterov':
      # the NumPy rule is checked against optax itself here (the fedjax wrapper is what the checks judge)
      import fedjax
      opt = fedjax.optimizers.create_optimizer_from_optax(optax.sgd(learning_rate=spec[1], momentum=spec[2], nesterov=True))
    jp = tmap(jnp.asarray, p)
    js = opt.init(jp)
    o = NpOpt(spec, np.float64)
    ns = o.init(p)
    np_p = cast(p, np.float64)
    for _ in range(3):
      g = tmap(lambda a: (rng.randn(*a.shape) if a.shape else rng.randn()) * np.ones(a.shape), p)
      g = cast(g, np.float32)
      js, jp = opt.apply(tmap(jnp.asarray, g), js, jp)
      ns, np_p = o.apply(g, ns, np_p)
    if max_abs_diff(to_np(jp), np_p) > 1e-5:
      return f'NpOpt{spec} deviates from optax by {max_abs_diff(to_np(jp), np_p)}'
  return None


# ---------------------------------------------------------------- FedAvg oracle
class FedAvgOracle:
  """One chain of server state in a given dtype; round() consumes real batch streams."""

  def __init__(self, params, client_spec, server_spec, dtype, prox_mu=None):
    self.dtype = dtype
    self.params = cast(params, dtype)
    self.copt = NpOpt(client_spec, dtype)
    self.sopt = NpOpt(server_spec, dtype)
    self.sstate = self.sopt.init(self.params)
    self.prox_mu = prox_mu

  def client_delta(self, batches):
    p = self.params
    st = self.copt.init(p)
    for b in batches:
      prox = (self.prox_mu, self.params) if self.prox_mu else None
      g = np_grad(p, b, self.dtype, prox=prox)
      st, p = self.copt.apply(g, st, p)
    return tmap(lambda s, c: s - c, self.params, p)

  def round(self, cohort):
    """cohort: list of (client_id, num_examples, batches). Returns per-client delta norms."""
    d = self.dtype
    tot = 0
    acc = tmap(lambda p: np.zeros_like(p), self.params)
    norms = {}
    for cid, n, batches in cohort:
      delta = self.client_delta(batches)
      norms[cid] = l2(delta)
      acc = tmap(lambda a, x: a + x * d(n), acc, delta)
      tot += n
    inv = d(1.0 / tot) if tot > 0 else d(0)
    mean = tmap(lambda a: a * inv, acc)
    self.sstate, self.params = self.sopt.apply(mean, self.sstate, self.params)
    return norms
