"""Shared machinery: case contexts, counters, violations, known findings, evidence.

A check module (vmon/checks/cXX.py) defines

  PROPERTY = 'C03'
  LEVEL = 'exploration' | 'fault_enumeration'
  RULE = '...'                 # how cases are generated; what is non-trivial
  ASSUMPTIONS = [...]
  SHARDS = {'quick': 4, 'thorough': 14}
  SHARD_TIMEOUT = {'quick': 600, 'thorough': 3000}      # seconds, watchdog
  MIN_HITS = {'quick': {'counter': n, ...}, 'thorough': {...}}
  EXHAUSTIVE = {'quick': False, 'thorough': False}       # optional
  ENV = {...}                   # optional extra environment for shard processes
  def run(ctx): ...             # executes this shard's cases

The parent process (vmon.run) never imports jax/fedjax; it spawns one
sub-process per shard (subprocess.run with a timeout, never multiprocessing),
merges their partial results, applies the MIN_HITS rule (a deciding monitor
that was never reached makes the run INCONCLUSIVE, exit 2), classifies
violations against /verif/known_findings.json and writes the evidence file.
"""
import hashlib
import json
import os
import sys
import time
import traceback

import numpy as np

from vmon import REPO_ROOT, VERIF_ROOT

MAX_SAMPLES = 6
MAX_VIOLATIONS_KEPT = 40


class HarnessError(Exception):
  """Raised when something went wrong purely inside the harness."""


class Inconclusive(Exception):
  pass


def _h(*parts) -> bytes:
  m = hashlib.sha256()
  for p in parts:
    m.update(repr(p).encode())
    m.update(b'\0')
  return m.digest()


def seed_from(*parts) -> int:
  return int.from_bytes(_h(*parts)[:4], 'little')


def jsonable(x, depth=0):
  """Best-effort conversion of witnesses to JSON (truncating big arrays)."""
  if depth > 8:
    return '<deep>'
  if x is None or isinstance(x, (bool, int, str)):
    return x
  if isinstance(x, float):
    if x != x:
      return 'nan'
    if x in (float('inf'), float('-inf')):
      return 'inf' if x > 0 else '-inf'
    return x
  if isinstance(x, bytes):
    return 'b:' + x.hex()
  if isinstance(x, (np.bool_,)):
    return bool(x)
  if isinstance(x, np.integer):
    return int(x)
  if isinstance(x, np.floating):
    return jsonable(float(x))
  if isinstance(x, dict):
    return {str(jsonable(k, depth + 1)): jsonable(v, depth + 1) for k, v in list(x.items())[:64]}
  if isinstance(x, (list, tuple, set, frozenset)):
    x = list(x)
    out = [jsonable(v, depth + 1) for v in x[:64]]
    if len(x) > 64:
      out.append(f'<{len(x) - 64} more>')
    return out
  if hasattr(x, 'shape') and hasattr(x, 'dtype'):
    try:
      a = np.asarray(x)
      if a.dtype == object:
        return {'dtype': 'object', 'shape': list(a.shape), 'head': [jsonable(v) for v in a.ravel()[:16].tolist()]}
      flat = a.ravel()
      head = flat[:32]
      if a.dtype.kind in 'fc':
        vals = [jsonable(v) for v in head.astype(np.complex128 if a.dtype.kind == 'c' else np.float64).tolist()] \
            if a.dtype.kind == 'f' else [str(v) for v in head.tolist()]
      else:
        vals = [jsonable(v) for v in head.tolist()]
      return {'dtype': str(a.dtype), 'shape': list(a.shape), 'head': vals}
    except Exception as e:  # pylint: disable=broad-except
      return f'<array {type(x).__name__}: {e}>'
  return repr(x)[:300]


def fedjax_frames(exc):
  """Frames of exc's traceback that lie under the repository root."""
  out = []
  tb = exc.__traceback__
  for fs in traceback.extract_tb(tb):
    fn = os.path.realpath(fs.filename)
    if fn.startswith(REPO_ROOT + os.sep):
      out.append((os.path.relpath(fn, REPO_ROOT), fs.lineno, fs.name))
  return out


class Raised:
  """Outcome of ctx.call when the callee raised."""

  def __init__(self, exc, frames):
    self.exc = exc
    self.frames = frames

  ok = False


class Ok:

  def __init__(self, value):
    self.value = value

  ok = True


class Ctx:
  """Per-shard context handed to a check's run()."""

  def __init__(self, prop, tier, seed, shard, nshards, replay_case=None, replay_dir=None):
    self.prop = prop
    self.tier = tier
    self.quick = tier == 'quick'
    self.seed = seed
    self.shard = shard
    self.nshards = nshards
    self.replay_case = replay_case
    self.replay_dir = replay_dir or os.path.join(VERIF_ROOT, 'replays')
    self.evaluations = 0
    self.nontrivial = set()
    self.samples = []
    self.counters = {}
    self.classes = {}
    self.violations = []   # dicts {key, what, case, witness}
    self.violation_keys = {}
    self.inconclusive = []
    self.cur_case = None
    self.t0 = time.time()
    self.notes = {}
    self.config = None         # name of the configuration shard this context runs in (vmon.run CONFIGS), or None
    self.xproc_child = False   # True inside a fresh-interpreter replay child (vmon.xproc)
    self.only_cases = None     # set of case ids: run exactly these, whatever the shard assignment (xproc children)

  # ---------------------------------------------------------------- randomness
  def rng(self, *names) -> np.random.RandomState:
    return np.random.RandomState(seed_from(self.seed, self.prop, *names))

  # -------------------------------------------------------------------- cases
  def want(self, case_id) -> bool:
    return self.replay_case is None or self.replay_case == case_id

  def cases(self, family, n):
    """Yields (case_id, rng) for indices of this shard in range(n)."""
    for i in range(n):
      cid = f'{family}/{i}'
      if self.only_cases is not None:
        if cid not in self.only_cases:
          continue
      elif self.replay_case is not None:
        if cid != self.replay_case:
          continue
      elif i % self.nshards != self.shard:
        continue
      self.cur_case = cid
      yield cid, self.rng(family, i)
    self.cur_case = None

  def enum(self, family, iterable):
    """Yields (case_id, item) for this shard's share of an enumerated space."""
    for i, item in enumerate(iterable):
      cid = f'{family}/{i}'
      if self.only_cases is not None:
        if cid not in self.only_cases:
          continue
      elif self.replay_case is not None:
        if cid != self.replay_case:
          continue
      elif i % self.nshards != self.shard:
        continue
      self.cur_case = cid
      yield cid, item
    self.cur_case = None

  def case_done(self, nontrivial_key=None, sample=None, klass=None):
    """Registers one evaluated case."""
    self.evaluations += 1
    if nontrivial_key is not None:
      self.nontrivial.add(_h(nontrivial_key)[:8].hex())
    if klass is not None:
      for k in (klass if isinstance(klass, (list, tuple, set)) else [klass]):
        self.classes[k] = self.classes.get(k, 0) + 1
    if sample is not None and len(self.samples) < MAX_SAMPLES:
      self.samples.append(jsonable({'case': self.cur_case, **sample}))

  def count(self, name, n=1):
    self.counters[name] = self.counters.get(name, 0) + n

  def klass(self, name, n=1):
    self.classes[name] = self.classes.get(name, 0) + n

  # --------------------------------------------------------------- violations
  def violation(self, key, what, witness=None):
    """Records a refutation. `key` is the mechanism key (never a random value)."""
    n = self.violation_keys.get(key, 0)
    self.violation_keys[key] = n + 1
    if n >= 3 or len(self.violations) >= MAX_VIOLATIONS_KEPT:
      return
    self.violations.append({
        'key': key,
        'what': what,
        'case': self.cur_case,
        'shard': self.shard,
        'nshards': self.nshards,
        'config': self.config,
        'witness': jsonable(witness),
    })

  def check(self, cond, key, what, witness=None):
    """Monitor assertion: counts an evaluation of monitor `key`'s family."""
    fam = key.split('/')[0]
    self.count('mon:' + fam)
    if not cond:
      self.violation(key, what, witness)
    return bool(cond)

  def inconclusive_because(self, reason):
    if len(self.inconclusive) < 20:
      self.inconclusive.append(f'{self.cur_case}: {reason}')

  # ------------------------------------------------------------ guarded calls
  def call(self, entry, fn, *args, expect=(), witness=None, **kwargs):
    """Calls into fedjax; classifies an escaping exception.

    expect: exception classes that are a documented outcome (returned as Raised
    without being reported). Any other exception whose traceback passes through
    a frame under the repo root is a violation with a mechanism key built from
    the entry point, exception type and innermost fedjax function. Exceptions
    with no fedjax frame are harness bugs.
    """
    try:
      return Ok(fn(*args, **kwargs))
    except Inconclusive:
      raise
    except HarnessError:
      raise
    except Exception as e:  # pylint: disable=broad-except
      frames = fedjax_frames(e)
      if expect and isinstance(e, expect):
        return Raised(e, frames)
      if not frames:
        raise HarnessError(f'{entry}: {type(e).__name__}: {e}') from e
      inner = frames[-1]
      key = f'{entry}:raises-{type(e).__name__}@{os.path.basename(inner[0])}:{inner[2]}'
      self.violation(
          key, f'{entry} raised {type(e).__name__}: {str(e)[:200]}', {
              'input': witness,
              'frames': [f'{f}:{l}:{n}' for f, l, n in frames[-6:]]
          })
      return Raised(e, frames)

  def absorb(self, res):
    """Merges the result() of a child context (a family run in a fresh interpreter, see vmon.xproc.run_family)."""
    self.evaluations += res['evaluations']
    self.nontrivial |= set(res['nontrivial'])
    for k, v in res['counters'].items():
      self.count(k, v)
    for k, v in res['classes'].items():
      self.klass(k, v)
    for smp in res['samples']:
      if len(self.samples) < MAX_SAMPLES:
        self.samples.append(smp)
    for v in res['violations']:
      if len(self.violations) < MAX_VIOLATIONS_KEPT:
        self.violations.append(v)
    for k, c in res['violation_keys'].items():
      self.violation_keys[k] = self.violation_keys.get(k, 0) + c
    self.inconclusive.extend(res['inconclusive'][:20 - len(self.inconclusive)])

  # ------------------------------------------------------------------ results
  def result(self):
    return {
        'shard': self.shard,
        'evaluations': self.evaluations,
        'nontrivial': sorted(self.nontrivial),
        'samples': self.samples,
        'counters': self.counters,
        'classes': self.classes,
        'violations': self.violations,
        'violation_keys': self.violation_keys,
        'inconclusive': self.inconclusive,
        'notes': self.notes,
        'wall_s': time.time() - self.t0,
    }


# ------------------------------------------------------------- known findings
def load_known_findings(prop):
  path = os.path.join(VERIF_ROOT, 'known_findings.json')
  known = {}
  if os.path.exists(path):
    with open(path) as f:
      data = json.load(f)
    for e in data.get('findings', []):
      if e.get('property') == prop and e.get('status') == 'known':
        known[e['key']] = e
  return known


# -------------------------------------------------------- comparison helpers
def close(a, b, rtol=1e-5, atol=1e-6, equal_nan=False):
  a = np.asarray(a, dtype=np.float64) if np.asarray(a).dtype.kind != 'c' else np.asarray(a)
  b = np.asarray(b, dtype=np.float64) if np.asarray(b).dtype.kind != 'c' else np.asarray(b)
  if a.shape != b.shape:
    return False
  with np.errstate(invalid='ignore'):
    ok = np.abs(a - b) <= atol + rtol * np.maximum(np.abs(a), np.abs(b))
  both_inf = np.isinf(a) & np.isinf(b) & (np.sign(a) == np.sign(b))
  ok = ok | both_inf
  if equal_nan:
    ok = ok | (np.isnan(a) & np.isnan(b))
  return bool(np.all(ok))


def bit_equal(a, b):
  a = np.asarray(a)
  b = np.asarray(b)
  if a.dtype.kind in 'SU' and a.dtype.kind == b.dtype.kind:
    # fixed-width strings: the width is storage, not value (np.concatenate widens to the widest piece it is given)
    return a.shape == b.shape and bool(np.array_equal(a, b))
  if a.dtype != b.dtype and a.dtype.kind in 'iufcb' and a.dtype.newbyteorder('=') == b.dtype.newbyteorder('='):
    # the same values stored in another byte order (np.concatenate and friends return native order): checks that care about the
    # byte order of what fedjax hands back compare dtypes explicitly
    a, b = a.astype(a.dtype.newbyteorder('=')), b.astype(b.dtype.newbyteorder('='))
  if a.dtype != b.dtype or a.shape != b.shape:
    return False
  if a.dtype == object:
    return a.tolist() == b.tolist()
  if a.dtype.kind in 'fc':
    return bool(np.array_equal(a, b, equal_nan=True))
  return bool(np.array_equal(a, b))


def tree_leaves_with_path(tree, prefix=''):
  """Deterministic flattening of dict/list/tuple pytrees (harness-side)."""
  if isinstance(tree, dict):
    for k in sorted(tree, key=repr):
      yield from tree_leaves_with_path(tree[k], f'{prefix}/{k}')
  elif isinstance(tree, (list, tuple)) and not hasattr(tree, 'shape'):
    for i, v in enumerate(tree):
      yield from tree_leaves_with_path(v, f'{prefix}[{i}]')
  elif tree is None:
    return
  else:
    yield prefix, tree
