"""Mutant self-test: apply deliberate breaks to a scratch copy of /repo and expect the owning check to fire.

Usage: /venv/bin/python tools/mutants.py [--prop C01] [--name substr] [--tier quick] [--jobs N] [--tests]

Mutants live in /verif/mutants/<PROP>.json: a list of
  {"name": ..., "file": "fedjax/...py", "old": "...", "new": "...", "checks": ["C01"], "note": "..."}
(`old` must occur exactly once in the file unless "count" is given). Each mutant is applied to a fresh copy of
/repo's working tree under a temp dir outside /repo and /verif, the listed checks are run with FEDJAX_REPO pointing
at the copy (evidence of /verif is not touched: VMON_NO_EVIDENCE=1), and the copy is removed. Expected: exit 1.
With --tests the repository's own stable test-suite subset named in "tests" is also run against the mutant.
Results are appended to mutants/RESULTS.md.
"""
import argparse
import glob
import json
import os
import shutil
import subprocess
import sys
import tempfile
import time

ROOT = os.path.dirname(os.path.dirname(os.path.abspath(__file__)))


def main():
  ap = argparse.ArgumentParser()
  ap.add_argument('--prop')
  ap.add_argument('--name')
  ap.add_argument('--tier', default='quick')
  ap.add_argument('--jobs', default='8')
  ap.add_argument('--tests', action='store_true')
  ap.add_argument('--patch', help='apply a unified diff file instead of a JSON mutant; needs --checks')
  ap.add_argument('--checks')
  args = ap.parse_args()
  muts = []
  if args.patch:
    muts = [{'name': os.path.basename(os.path.dirname(args.patch)) or args.patch, 'patch': os.path.abspath(args.patch),
             'checks': args.checks.split(',')}]
  else:
    for path in sorted(glob.glob(os.path.join(ROOT, 'mutants', '*.json'))):
      prop = os.path.basename(path)[:-5]
      if args.prop and prop != args.prop:
        continue
      for m in json.load(open(path)):
        m.setdefault('checks', [prop])
        if args.name and args.name not in m['name']:
          continue
        muts.append(m)
  rows = []
  for m in muts:
    tmp = tempfile.mkdtemp(prefix='vmon-mutant-')
    try:
      dst = os.path.join(tmp, 'repo')
      shutil.copytree('/repo', dst, ignore=shutil.ignore_patterns('.git', '__pycache__', '*.pyc'))
      if 'patch' in m:
        subprocess.run(['git', 'init', '-q'], cwd=dst, check=True)
        r = subprocess.run(['git', 'apply', m['patch']], cwd=dst, capture_output=True, text=True)
        if r.returncode:
          rows.append((m['name'], 'PATCH-FAILED', r.stderr[:200]))
          print(rows[-1])
          continue
      else:
        f = os.path.join(dst, m['file'])
        s = open(f).read()
        cnt = s.count(m['old'])
        if cnt != m.get('count', 1):
          rows.append((m['name'], 'STALE', f"'old' occurs {cnt}x in {m['file']}"))
          print(rows[-1])
          continue
        open(f, 'w').write(s.replace(m['old'], m['new']))
      r = subprocess.run([sys.executable, '-c', 'import fedjax'], cwd=dst, capture_output=True, text=True,
                         env={**os.environ, 'PYTHONPATH': dst, 'JAX_PLATFORMS': 'cpu'})
      if r.returncode:
        rows.append((m['name'], 'DOES-NOT-IMPORT', r.stderr[-200:]))
        print(rows[-1])
        continue
      for chk in m['checks']:
        t0 = time.time()
        env = {**os.environ, 'FEDJAX_REPO': dst, 'VMON_NO_EVIDENCE': '1', 'VERIF_JOBS': args.jobs}
        r = subprocess.run([os.path.join(ROOT, 'check'), chk, '--tier', args.tier], cwd=ROOT, env=env, capture_output=True,
                           text=True)
        keys = sorted({l.split('key=')[1].split(' ')[0] for l in r.stdout.splitlines() if l.strip().startswith('violation key=')})
        verdict = {0: 'MISSED', 1: 'CAUGHT', 2: 'INCONCLUSIVE'}.get(r.returncode, f'rc={r.returncode}')
        rows.append((m['name'], f'{chk}:{verdict}', f"{time.time() - t0:.0f}s keys={keys[:4]}"))
        print(rows[-1], flush=True)
        if verdict != 'CAUGHT':
          print(r.stdout[-1500:])
      if args.tests and m.get('tests'):
        r = subprocess.run(['/venv/bin/python', '-m', 'pytest', '-q', '-p', 'no:cacheprovider', '-x'] + m['tests'], cwd=dst,
                           capture_output=True, text=True, env={**os.environ, 'PYTHONPATH': dst})
        rows.append((m['name'], 'repo-tests:' + ('pass' if r.returncode == 0 else 'FAIL'), r.stdout.strip().splitlines()[-1][:120]))
        print(rows[-1], flush=True)
    finally:
      shutil.rmtree(tmp, ignore_errors=True)
  with open(os.path.join(ROOT, 'mutants', 'RESULTS.md'), 'a') as f:
    f.write(f'\n## run {time.strftime("%Y-%m-%d %H:%M")} tier={args.tier}\n')
    for row in rows:
      f.write('- ' + ' | '.join(row) + '\n')
  return 0


if __name__ == '__main__':
  sys.exit(main())
