"""C03 — Sequential batching is an exact, order-preserving partition."""
import itertools

import numpy as np

from vmon import gen
from vmon.core import bit_equal

PROPERTY = 'C03'
LEVEL = 'exploration'
RULE = ('Exhaustive box over (N, batch_size, buckets) [quick: N<=16,B<=18,k<=5; thorough: N<=40,B<=44,k<=7] plus seeded '
        'random larger points (N<=300,B<=130,k<=9; quick 400, thorough 20000 points); every point runs batch(), batch(drop_remainder) and padded_batch() '
        'with a random feature set and preprocessor chain. Non-trivial: N%B!=0 with buckets>=2, or N==0, or N a '
        'multiple of B; distinct by (N,B,buckets,feature names,chain).')
RULE += (' Wave-4 addition: the padded batches of every case are held while a second dataset of the same layout/row count but other values is batched, then re-compared bit for bit.')
ASSUMPTIONS = [
    'generated batch preprocessors are strictly per-example (commute with slicing), as the docs require',
    'icontract postconditions on _pick_final_batch_size / pad_examples attach through the module attribute',
]
SHARDS = {'quick': 4, 'thorough': 14}
SHARD_TIMEOUT = {'quick': 600, 'thorough': 2400}
EXHAUSTIVE = {'quick': True, 'thorough': True}
MIN_HITS = {
    'quick': {'mon:partition': 500, 'mon:bucket': 300, 'mon:mask': 300, 'contract:pick_final': 300, 'contract:pad': 100,
              'mon:readonly': 500, 'mon:reiterate': 500, 'hit:held-batches': 1000, 'big-dataset': 11, 'hit:wide-rows': 2},
    'thorough': {'mon:partition': 5000, 'mon:bucket': 3000, 'mon:mask': 3000, 'contract:pick_final': 3000,
                 'contract:pad': 1000, 'mon:readonly': 5000, 'mon:reiterate': 5000, 'hit:held-batches': 4000},
}


def ref_final_size(n, b, k):
  r = n % b
  if r == 0:
    return b
  cands = []
  cur = b
  for _ in range(k):
    cands.append(cur)
    cur //= 2
  return min(c for c in cands if c >= r)


def make_chain(rng, feature_names, log):
  """0-3 per-example preprocessors that also log their call order."""
  fns, descr = [], []
  names = list(feature_names)
  for j in range(rng.randint(0, 4)):
    kind = rng.randint(4)
    if kind == 3:
      # Updates and returns ITS INPUT dict (allowed: BatchPreprocessor hands each fn a private dict; arrays untouched).
      mult = int(rng.randint(2, 5))
      newname = f'inp{j}'

      def f(ex, j=j, mult=mult, newname=newname):
        log.append(j)
        ex[newname] = (ex['idx'] * mult - j).astype(np.int64)
        ex['idx'] = ex['idx'] + 0   # rebinding a key of the dict it was given
        return ex

      names.append(newname)
      descr.append(f'inplace-dict:{newname}=idx*{mult}-{j}')
    elif kind == 0:
      mult = int(rng.randint(2, 9))
      newname = f'd{j}'

      def f(ex, j=j, mult=mult, newname=newname):
        log.append(j)
        out = dict(ex)
        out[newname] = (ex['idx'] * mult + j + 1).astype(np.float32)
        return out

      names.append(newname)
      descr.append(f'derive:{newname}=idx*{mult}+{j + 1}')
    elif kind == 1:
      cand = [n for n in names if n != 'idx' and not n.startswith(('bytes', 's5', 'u3'))]
      if not cand:
        continue
      tgt = cand[rng.randint(len(cand))]

      def f(ex, j=j, tgt=tgt):
        log.append(j)
        out = dict(ex)
        out[tgt] = ex[tgt].astype(np.float64) * 2
        return out

      descr.append(f'cast:{tgt}->f64*2')
    else:
      cand = [n for n in names if n != 'idx']
      if not cand:
        continue
      tgt = cand[rng.randint(len(cand))]

      def f(ex, j=j, tgt=tgt):
        log.append(j)
        return {k: v for k, v in ex.items() if k != tgt}

      names.remove(tgt)
      descr.append(f'drop:{tgt}')
    fns.append((j, f))
  return fns, descr


def install_contracts(ctx, cd):
  import icontract

  class ContractBroken(Exception):
    pass

  def pick_post(data_size, batch_size, num_batch_size_buckets, result):
    ctx.count('contract:pick_final')
    return result == ref_final_size(data_size, batch_size, num_batch_size_buckets)

  def pad_post(examples, size, result):
    ctx.count('contract:pad')
    m = result[cd.EXAMPLE_MASK_KEY]
    n = len(next(iter(examples.values())))
    if m.shape != (size,) or m.dtype != np.bool_ or int(m.sum()) != n or not m[:n].all():
      return False
    for k, v in examples.items():
      p = result[k]
      if p.dtype != v.dtype or p.shape != (size,) + v.shape[1:]:
        return False
    return True

  orig_pick, orig_pad = cd._pick_final_batch_size, cd.pad_examples
  cd._pick_final_batch_size = icontract.ensure(pick_post, error=ContractBroken)(orig_pick)
  cd.pad_examples = icontract.ensure(pad_post, error=ContractBroken)(orig_pad)
  return ContractBroken


def is_zero(a):
  if a.dtype.kind in 'SU':
    return bool(np.all(a == a.dtype.type()))      # the all-NUL empty string np.zeros gives
  if a.dtype == object:
    return all(v == 0 or v == b'' or v is None for v in a.ravel().tolist())
  return not np.any(a)


def check_point(ctx, fedjax, cd, rng, n, b, k, ContractBroken):
  raw = gen.make_examples(rng, n)
  dig = gen.freeze(raw)
  log = []
  chain, descr = make_chain(rng, raw.keys(), log)
  pre = cd.BatchPreprocessor([f for _, f in chain])
  ds = cd.ClientDataset(raw, pre)
  # reference: chain on the whole dataset
  ref = dict(raw)
  for _, f in chain:
    ref = f(dict(ref))
  log.clear()
  raw_keys = list(raw)
  raw_ids = {k: id(v) for k, v in raw.items()}
  wit = {'N': n, 'batch_size': b, 'buckets': k, 'features': list(raw), 'chain': descr}
  expected_ids = [j for j, _ in chain]

  def concat(batches, mask_key=None):
    cols = {}
    for bt in batches:
      m = bt[mask_key] if mask_key else None
      for name, v in bt.items():
        if name == mask_key:
          continue
        cols.setdefault(name, []).append(v[m] if m is not None else v)
    return cols

  def same_as_ref(cols, upto):
    if not cols:
      return upto == 0
    if set(cols) != set(ref):
      return False
    for name, parts in cols.items():
      got = np.concatenate(parts, axis=0)
      exp = ref[name][:upto]
      if not bit_equal(got, exp):
        return False
    return True

  # ---- batch(), drop_remainder False / True, two iterations each
  for drop in (False, True):
    log.clear()
    r = ctx.call('ClientDataset.batch', lambda: [list(ds.batch(batch_size=b, drop_remainder=drop)) for _ in range(2)],
                 witness=wit)
    if not r.ok:
      continue
    it1, it2 = r.value
    nb_expected = n // b if drop else -(-n // b)
    upto = (n // b) * b if drop else n
    ctx.check(len(it1) == nb_expected, 'partition/batch-count', f'batch(drop={drop}) produced {len(it1)} batches, '
              f'expected {nb_expected}', wit)
    sizes = [len(bt['idx']) for bt in it1]
    ok_sizes = all(s == b for s in sizes[:-1]) and (not sizes or (sizes[-1] == b if drop else 0 < sizes[-1] <= b))
    ctx.check(ok_sizes, 'partition/batch-sizes', f'batch(drop={drop}) row counts {sizes}', wit)
    ctx.check(same_as_ref(concat(it1), upto), 'partition/batch-content',
              f'batch(drop={drop}) concatenation differs from the preprocessed dataset', wit)
    same = len(it1) == len(it2) and all(
        set(x) == set(y) and all(bit_equal(x[f], y[f]) for f in x) for x, y in zip(it1, it2))
    ctx.check(same, 'reiterate/batch', f'batch(drop={drop}) second iteration differs', wit)
    if chain and it1:
      per_batch = log[:len(expected_ids)]
      ctx.check(per_batch == expected_ids, 'partition/chain-order', f'preprocessors ran in order {per_batch}', wit)

  # ---- padded_batch
  log.clear()
  # three documented invocation forms: keyword arguments, an hparams object, an hparams object overridden by keywords
  style = int(rng.randint(3))
  wit['invocation'] = ['kwargs', 'hparams', 'hparams+override'][style]
  ctx.count('invocation:' + wit['invocation'])

  def padded_view():
    if style == 0:
      return ds.padded_batch(batch_size=b, num_batch_size_buckets=k)
    if style == 1:
      return ds.padded_batch(cd.PaddedBatchHParams(batch_size=b, num_batch_size_buckets=k))
    small = max(1, b // 4)
    if rng.rand() < 0.5:
      return ds.padded_batch(cd.PaddedBatchHParams(batch_size=small, num_batch_size_buckets=k), batch_size=b)
    return ds.padded_batch(cd.PaddedBatchHParams(batch_size=b + 5, num_batch_size_buckets=1), batch_size=b, num_batch_size_buckets=k)

  r = ctx.call('ClientDataset.padded_batch', lambda: [list(padded_view()) for _ in range(2)],
               expect=(ContractBroken,), witness=wit)
  if isinstance(getattr(r, 'exc', None), ContractBroken):
    ctx.violation('bucket/contract', f'icontract postcondition failed: {str(r.exc)[:300]}', wit)
  if r.ok:
    it1, it2 = r.value
    mk = cd.EXAMPLE_MASK_KEY
    nb_expected = -(-n // b)
    ctx.check(len(it1) == nb_expected, 'partition/padded-count', f'padded_batch produced {len(it1)} batches, expected '
              f'{nb_expected}', wit)
    ok = True
    why = ''
    for i, bt in enumerate(it1):
      m = bt.get(mk)
      if m is None or m.dtype != np.bool_ or m.ndim != 1:
        ok, why = False, f'batch {i}: mask missing or not 1-d bool'
        break
      last = i == len(it1) - 1
      real = min(b, n - i * b)
      exp_rows = b if not last else ref_final_size(n, b, k)
      if not ctx.check(len(m) == exp_rows, 'bucket/final-size' if last else 'partition/padded-nonfinal-size',
                       f'batch {i} has {len(m)} rows, expected {exp_rows}', {**wit, 'batch': i}):
        ok = False
      # mask is a True prefix of exactly the real rows
      if not ctx.check(
          int(m.sum()) == real and bool(m[:real].all()) and not bool(m[real:].any()), 'mask/prefix',
          f'batch {i} mask {m.tolist()} is not a True-prefix of {real} rows', {**wit, 'batch': i}):
        ok = False
      for name, v in bt.items():
        if name == mk:
          continue
        if name not in ref:
          ok, why = False, f'unexpected feature {name}'
          continue
        if not ctx.check(v.dtype == ref[name].dtype and v.shape[1:] == ref[name].shape[1:] and v.shape[0] == len(m),
                         'mask/pad-dtype-shape', f'batch {i} feature {name}: dtype {v.dtype} shape {v.shape}',
                         {**wit, 'batch': i}):
          ok = False
        elif not ctx.check(is_zero(v[real:]), 'mask/pad-zero', f'batch {i} feature {name}: padded rows not zero',
                           {**wit, 'batch': i}):
          ok = False
    if why:
      ctx.violation('mask/structure', why, wit)
    if ok:
      ctx.check(same_as_ref(concat(it1, mk), n), 'partition/padded-content',
                'padded_batch rows (mask removed) differ from the preprocessed dataset', wit)
    same = len(it1) == len(it2) and all(
        set(x) == set(y) and all(bit_equal(x[f], y[f]) for f in x) for x, y in zip(it1, it2))
    ctx.check(same, 'reiterate/padded', 'padded_batch second iteration differs', wit)

  # ---- batches already handed out stay what they were: a second dataset with the same column layout and row count (so the
  #      same padded shapes) but different values is batched while the first dataset's batches are still held by the consumer
  if r.ok and n > 0:
    held = r.value[0]
    snap = [{f: np.array(v, copy=True) for f, v in bt.items()} for bt in held]
    raw2 = {}
    for name, v in raw.items():
      if v.dtype.kind in 'iu':
        raw2[name] = (v + np.asarray(7, v.dtype)).astype(v.dtype)
      elif v.dtype.kind == 'f':
        raw2[name] = (v * np.asarray(-2, v.dtype) - np.asarray(1, v.dtype)).astype(v.dtype)
      elif v.dtype.kind == 'b':
        raw2[name] = ~v
      else:
        raw2[name] = np.roll(v, 1, axis=0) if n > 1 else v.copy()
    ds2 = cd.ClientDataset(raw2, pre)
    log_keep = list(log)
    r2 = ctx.call('ClientDataset.padded_batch', lambda: list(ds2.padded_batch(batch_size=b, num_batch_size_buckets=k)), witness=wit)
    del log[len(log_keep):]
    if r2.ok:
      ctx.count('hit:held-batches')
      same = len(held) == len(snap) and all(set(x) == set(y) and all(bit_equal(x[f], y[f]) for f in x) for x, y in zip(held, snap))
      bad = next(((i, f) for i, (x, y) in enumerate(zip(held, snap)) for f in y if f not in x or not bit_equal(x[f], y[f])), None)
      ctx.check(same, 'held/padded-batches-changed-by-later-batching',
                'padded batches still held by the consumer changed when another dataset of the same layout was batched',
                {**wit, 'first_changed': bad})

  # ---- histories on ONE view object: abandoned pass, then full pass; two live iterators in lock-step
  if n > 0:
    for kind_, mk_view in (('padded', lambda: ds.padded_batch(batch_size=b, num_batch_size_buckets=k)),
                           ('plain', lambda: ds.batch(batch_size=b))):
      mk = cd.EXAMPLE_MASK_KEY if kind_ == 'padded' else None

      def rows(batches):
        out = []
        for bt in batches:
          out.extend((bt['idx'][bt[mk]] if mk else bt['idx']).tolist())
        return out

      def hist():
        view = mk_view()
        it = iter(view)
        next(it)            # abandon the pass after one batch
        del it
        second = rows(list(view))
        a, c = iter(view), iter(view)   # two live iterators over the same view
        inter = [[], []]
        for x, y in zip(a, c):
          inter[0].append(x)
          inter[1].append(y)
        return second, rows(inter[0]), rows(inter[1])

      r = ctx.call(f'ClientDataset.{kind_}-view-history', hist, witness=wit)
      if r.ok:
        second, i0, i1 = r.value
        exp_rows = ref['idx'].tolist() if 'idx' in ref else None
        if exp_rows is not None:
          ctx.check(second == exp_rows, f'reiterate/{kind_}-after-abandoned-pass',
                    f'{kind_} view: a full pass after an abandoned pass yields rows {second[:12]}.. instead of the whole dataset', wit)
          ctx.check(i0 == exp_rows and i1 == exp_rows, f'reiterate/{kind_}-concurrent-iterators',
                    f'{kind_} view: two live iterators over the same view disturb each other', wit)

  # ---- dataset untouched
  ctx.check(list(ds.raw_examples) == raw_keys and all(id(ds.raw_examples[k_]) == raw_ids[k_] for k_ in raw_keys),
            'readonly/raw-dict-mutated', f'the dataset dict changed: keys {list(ds.raw_examples)} (expected {raw_keys})', wit)
  ctx.check(gen.digest(raw) == dig, 'readonly/raw-mutated', 'raw dataset arrays changed', wit)

  r_ = n % b
  nontrivial = (r_ != 0 and k >= 2) or n == 0 or r_ == 0
  klass = ['N=0'] if n == 0 else (['N%B=0'] if r_ == 0 else ['remainder'])
  if b > n > 0:
    klass.append('B>N')
  if b % 2 == 1 and k >= 2 and r_:
    klass.append('odd-batch-buckets')
  if chain:
    klass.append('chain')
  ctx.case_done((n, b, k, tuple(raw), tuple(descr)) if nontrivial else None, sample=wit, klass=klass)


def run(ctx):
  import fedjax
  from fedjax.core import client_datasets as cd
  ContractBroken = install_contracts(ctx, cd)
  if ctx.quick:
    box = itertools.product(range(0, 17), range(1, 19), range(1, 6))
    nrand = 400
  else:
    box = itertools.product(range(0, 41), range(1, 45), range(1, 8))
    nrand = 20000
  for cid, (n, b, k) in ctx.enum('box', box):
    check_point(ctx, fedjax, cd, ctx.rng('box', n, b, k), n, b, k, ContractBroken)
  for cid, rng in ctx.cases('rand', nrand):
    n = int(rng.randint(0, 301))
    b = int(rng.randint(1, 131))
    if rng.rand() < 0.3 and n:
      b = max(1, n // rng.randint(1, 5))  # dividing / near-dividing sizes
    k = int(rng.randint(1, 10))
    check_point(ctx, fedjax, cd, rng, n, b, k, ContractBroken)
  # big datasets: row counts around powers of two (any internal chunk / block / index-width boundary) with batch sizes that
  # do not divide them; every N class is hit in both tiers
  BIG_N = [1023, 1025, 4095, 4096, 4097, 5000, 8193, 12289, 16385, 32769, 65537]
  for cid, rng in ctx.cases('big', len(BIG_N) * (1 if ctx.quick else 4)):
    i = int(cid.split('/')[1])
    n = BIG_N[i % len(BIG_N)]
    b = int([3, 7, 100, 1000, 4096, 4097, n - 1, 333][rng.randint(8)])
    ctx.count('big-dataset')
    check_point(ctx, fedjax, cd, rng, n, max(1, b), int(rng.randint(1, 6)), ContractBroken)

  # wide rows: a feature whose padded final batch holds tens of megabytes (any byte-size threshold in the padding code)
  for cid, rng in ctx.cases('wide', 2 if ctx.quick else 8):
    i = int(cid.split('/')[1])
    n, b = [(3000, 4096), (2600, 2048), (5000, 4096), (2100, 8192)][i % 4]
    raw = {'idx': np.arange(n, dtype=np.int64), 'img': rng.rand(n, 32, 32).astype(np.float32) + 1.0,
           'wide64': rng.rand(n, 400) + 1.0}
    gen.freeze(raw)
    wit = {'family': 'wide', 'N': n, 'batch_size': b, 'bytes_per_row': {'img': 4096, 'wide64': 3200}}
    r = ctx.call('ClientDataset.padded_batch', lambda: list(cd.ClientDataset(raw).padded_batch(batch_size=b, num_batch_size_buckets=1)), witness=wit)
    if r.ok:
      ctx.count('hit:wide-rows')
      rows = 0
      for j, bt in enumerate(r.value):
        m = bt[cd.EXAMPLE_MASK_KEY]
        real = int(m.sum())
        okm = bool(m[:real].all()) and not bool(m[real:].any())
        ctx.check(okm and len(m) == b, 'mask/prefix', f'wide rows: batch {j} mask is not a True-prefix / wrong size', {**wit, 'batch': j})
        for name in raw:
          v = bt[name]
          ctx.check(v.dtype == raw[name].dtype and v.shape == (b,) + raw[name].shape[1:] and bit_equal(v[:real], raw[name][rows:rows + real]),
                    'partition/padded-content', f'wide rows: batch {j} feature {name} real rows differ from the dataset', {**wit, 'batch': j})
          ctx.check(not np.any(v[real:]), 'mask/pad-zero', f'wide rows: batch {j} feature {name}: padded rows are not zero '
                    f'({real} real rows of {v[0].nbytes} bytes each)', {**wit, 'batch': j, 'feature': name})
        rows += real
      ctx.check(rows == n, 'partition/padded-count', f'wide rows: {rows} real rows emitted for {n} examples', wit)
    ctx.case_done(('wide', n, b), sample=wit, klass=['wide-rows'])

TECHNIQUE = 'runtime monitoring: reference-partition oracle + icontract postconditions over an exhaustive small box and random points'
LEVEL_TEXT = ('Every (N, batch_size, buckets) point of a small box is executed on the real batching code (exhaustive within the '
              'box) plus random larger points; each execution is judged by an independent partition/bucket/mask oracle and by '
              'icontract postconditions on the two helpers. Held-on-observed, not a proof beyond the box.')
LEVEL_NOTE = ('Trusts NumPy slicing and the harness reference (bucket rule re-implemented from the docstring); batch preprocessors '
              'are per-example by construction.')
