"""C02 — All for-each-client backends equal the sequential per-client fold."""
import collections
import threading
import time

import numpy as np

from vmon import core

PROPERTY = 'C02'
LEVEL = 'exploration'
RULE = ('Seeded client programs from a combinator family (state pytree mixing float32 vectors, int32 counters, bool flags and '
        'a nested tuple; steps that accumulate sums/products/counts; a forced class whose value on an all-zero padding batch is '
        'Inf/NaN; with and without per-step results) over client collections of 0..9 clients with 0..4 batches each; every '
        'program runs on the jit and debug backends and on the pmap backend with explicit device lists of length 1..8 and is '
        'compared with a plain eager Python fold of the same three functions. Second family: multi-threaded schedules of backend '
        'selection operations checked against a per-thread shadow stack. Non-trivial program case: >=2 distinct batch counts and, '
        'for pmap, at least one padding client or padding batch; distinct by (program, collection shape, backend/device count).')
# Configuration shards (vmon.run): the cases of the plain shard with the given index are run once more in a process started
# under an environment the library is supposed to be indifferent to.
CONFIGS = {'quick': [], 'thorough': [{'name': 'rbg-prng', 'env': {'JAX_DEFAULT_PRNG_IMPL': 'rbg'}, 'shard': 3}]}
ASSUMPTIONS = [
    'the reference is the definition itself: final(shared, fold(step, init(shared, cin), batches)) evaluated eagerly under '
    'jax.disable_jit() by a harness loop (no backend code involved)',
    'pmap runs on 8 forced host CPU devices; all clients of one run share batch/client-input shapes (a documented pmap requirement)',
    'thread interleavings are sampled (switch interval 1e-6 + sleep(0) yields), not enumerated; the evidence reports the number '
    'of thread alternations observed in the merged event log',
]
SHARDS = {'quick': 8, 'thorough': 14}
SHARD_TIMEOUT = {'quick': 900, 'thorough': 3400}
ENV = {'XLA_FLAGS': '--xla_force_host_platform_device_count=8'}
MIN_HITS = {
    'quick': {'mon:fold': 400, 'mon:ids': 200, 'mon:steps': 200, 'mon:sanitize': 200, 'backend:jit': 40, 'backend:debug': 40,
              'backend:pmap': 100, 'pmap-padding-client': 30, 'pmap-padding-batch': 30, 'nan-on-padding-program': 20,
              'mon:thread': 5000, 'thread-alternations': 50, 'zero-batches-client': 20, 'mon:restore': 500, 'client-id-None': 5, 'reuse:jit': 30, 'reuse:pmap': 30, 'hit:many-clients-call': 12, 'hit:x64-scoped-call': 40, 'thread-decorated-calls': 500},
    'thorough': {'mon:fold': 8000, 'mon:ids': 4000, 'mon:steps': 4000, 'mon:sanitize': 4000, 'backend:jit': 400,
                 'backend:debug': 400, 'backend:pmap': 3000, 'pmap-padding-client': 800, 'pmap-padding-batch': 800,
                 'nan-on-padding-program': 200, 'mon:thread': 100000, 'thread-alternations': 500, 'zero-batches-client': 300,
                 'mon:restore': 10000, 'client-id-None': 100, 'reuse:jit': 400, 'reuse:pmap': 400, 'hit:many-clients-call': 70, 'hit:x64-scoped-call': 400},
}
TECHNIQUE = 'runtime monitoring: eager sequential-fold oracle vs jit/debug/pmap(1..8 devices) + donation sanitizer; shadow-stack monitor over multi-threaded backend-selection schedules'
LEVEL_TEXT = ('Each generated client program is executed by all three real backends (pmap on every device count 1..8 in thorough) and '
              'every yielded (id, output, step results) tuple is compared with the eager fold; caller-owned arrays are checked for '
              'deletion/mutation after every call; backend selection is stress-tested from 8-16 threads against a sequential shadow '
              'model. Held on the programs/schedules listed; schedules are sampled.')
LEVEL_NOTE = 'Trusts eager JAX evaluation of the user functions as the definition; CPU host devices stand in for accelerators.'

B = 3  # rows per batch


def make_program(rng):
  p = {
      'nan_on_pad': bool(rng.rand() < 0.6),
      'use_prod': bool(rng.rand() < 0.5),
      'thr': int(rng.randint(1, 9)),
      'c': float(np.round(rng.uniform(0.1, 0.5), 2)),
      'with_step_result': bool(rng.rand() < 0.6),
      'final_kind': int(rng.randint(3)),
      'passthrough': bool(rng.rand() < 0.5),
  }
  return p


def build_fns(p, jnp):

  def client_init(shared, cin):
    return {
        'v': shared['s'] * cin['a'],
        'cnt': jnp.zeros((), jnp.int32) + cin['start'],
        'flag': jnp.zeros((), jnp.bool_),
        # passthrough: the state aliases a shared-input leaf (as FedAvg's 'params': server_params does)
        'nest': (cin['b'] + shared['t'][0], shared['t'] if p['passthrough'] else shared['t'] * 1.0),
        # same shape/dtype as a batch leaf: if a backend ever donated the caller's batch, XLA could reuse its buffer here
        'lastx': jnp.zeros((B, 3), jnp.float32),
        # leaves with size-1 axes (a (1,) bias, a (2,1) column, a keepdims-style (1,1) loss): shapes are part of the result
        'unit': (jnp.zeros((1,), jnp.float32) + cin['b'], jnp.ones((2, 1), jnp.float32) * cin['a'], jnp.zeros((1, 1), jnp.float32)),
    }

  def step_core(state, batch):
    x = batch['x']
    s = jnp.sum(x)
    v = state['v'] + jnp.sum(x, axis=0)
    n0 = state['nest'][0]
    if p['nan_on_pad']:
      v = v + 1.0 / s          # Inf on an all-zero padding batch
      n0 = n0 + jnp.log(s)     # -Inf on an all-zero padding batch
    n1 = state['nest'][1]
    if p['use_prod']:
      n1 = n1 * (1.0 + p['c'] * jnp.mean(x, axis=0)[:2])
    # a guarded division whose unguarded branch is NaN / Inf on REAL batches in which no k exceeds the threshold (a masked
    # intermediate: the fold's value is finite)
    big = jnp.sum((batch['k'] > p['thr']).astype(jnp.float32))
    guarded = jnp.where(big > 0, s / big, 0.0) + jnp.where(big > 0, (s - s) / big, 1.0)
    u0, u1, u2 = state['unit']
    unit = (u0 + guarded, u1 * 0.5 + jnp.mean(x), u2 + jnp.sum(x, keepdims=True)[:, :1].reshape(1, 1) * 0.0 + guarded)
    cnt = state['cnt'] + jnp.sum(batch['k'])
    flag = jnp.logical_or(state['flag'], jnp.any(batch['k'] > p['thr']))
    new = {'v': v, 'cnt': cnt, 'flag': flag, 'nest': (n0, n1), 'lastx': x * 0.5, 'unit': unit}
    res = {'s': s, 'inv': 1.0 / s if p['nan_on_pad'] else s * 2.0, 'c': cnt, 'f': flag,
           'xs': x * 2.0, 'ks': batch['k'] + 1,   # per-example results shaped like the batch leaves
           'unit': (unit[0], jnp.sum(x, axis=0, keepdims=True)[:, :1])}   # (1,) and (1,1) step results
    return new, res

  if p['with_step_result']:
    client_step = step_core
  else:

    def client_step(state, batch):
      return step_core(state, batch)[0]

  def client_final(shared, state):
    if p['final_kind'] == 0:
      return state
    if p['final_kind'] == 1:
      return {'out': state['v'] * shared['t'][0] + state['nest'][0], 'cnt': state['cnt'], 'flag': state['flag'],
              'lastx': state['lastx'], 'unit': state['unit']}
    return (state['nest'][1] + shared['s'][:2], [state['cnt'] * 2, state['flag'], state['unit'][2]])

  return client_init, client_step, client_final


def make_collection(rng, forced=None):
  n = int(rng.randint(0, 10))
  if forced == 'zero-batches' and n == 0:
    n = 3
  clients = []
  for i in range(n):
    nb = 0 if forced == 'zero-batches' else int(rng.randint(0, 5))
    batches = [{
        'x': rng.uniform(0.5, 1.5, size=(B, 3)).astype(np.float32),
        'k': rng.randint(0, 10, size=(B,)).astype(np.int32)
    } for _ in range(nb)]
    cin = {'a': np.float32(rng.uniform(0.5, 2)), 'b': np.float32(rng.randn()), 'start': np.int32(rng.randint(0, 5))}
    clients.append((b'id%02d' % i, batches, cin))
  # "any hashable type can be used as a client id": bytes, str, int, tuple and -- for one client -- None
  style = rng.randint(4)
  if style == 1:
    clients = [((c.decode(), i) if i % 2 else i, b_, ci) for i, (c, b_, ci) in enumerate(clients)]
  elif style == 2 and n:
    j = int(rng.randint(n))
    clients[j] = (None, clients[j][1], clients[j][2])
  elif style == 3:
    clients = [(c.decode(), b_, ci) for c, b_, ci in clients]
  order = rng.permutation(n)
  clients = [clients[i] for i in order]
  shared = {'s': rng.uniform(0.5, 1.5, size=(3,)).astype(np.float32), 't': rng.uniform(0.5, 1.5, size=(2,)).astype(np.float32)}
  return shared, clients


def to_np_tree(jax, t):
  return jax.tree_util.tree_map(lambda a: np.asarray(a), t)


def trees_match(jax, got, exp, rtol=2e-5, atol=1e-5):
  gl, gd = jax.tree_util.tree_flatten(got)
  el, ed = jax.tree_util.tree_flatten(exp)
  if gd != ed:
    return False, f'tree structure {gd} vs {ed}'
  for g, e in zip(gl, el):
    g, e = np.asarray(g), np.asarray(e)
    if g.shape != e.shape:
      return False, f'shape {g.shape} vs {e.shape}'
    if e.dtype.kind in 'iub':
      if g.dtype.kind != e.dtype.kind or not np.array_equal(g, e):
        return False, f'exact leaf {g} vs {e}'
    elif not core.close(g, e, rtol=rtol, atol=atol):
      return False, f'float leaf {g} vs {e}'
  return True, ''


def run_program(ctx, jax, jnp, fedjax, fec, rng, nds):
  p = make_program(rng)
  forced = 'zero-batches' if rng.rand() < 0.12 else None
  shared_np, clients_np = make_collection(rng, forced)
  init, step, final = build_fns(p, jnp)
  wsr = p['with_step_result']
  wit = {'program': p, 'batch_counts': [len(b) for _, b, _ in clients_np], 'ids': [c for c, _, _ in clients_np]}
  if p['nan_on_pad']:
    ctx.count('nan-on-padding-program')
  if any(len(b) == 0 for _, b, _ in clients_np):
    ctx.count('zero-batches-client')
  if any(c is None for c, _, _ in clients_np):
    ctx.count('client-id-None')

  # ----- oracle: the definition, evaluated eagerly
  def oracle(shared_values):
    exp = {}
    with jax.disable_jit():
      sh = jax.tree_util.tree_map(jnp.asarray, shared_values)
      for cid, batches, cin in clients_np:
        st = init(sh, jax.tree_util.tree_map(jnp.asarray, cin))
        results = []
        for b in batches:
          out = step(st, jax.tree_util.tree_map(jnp.asarray, b))
          if wsr:
            st, r = out
            results.append(to_np_tree(jax, r))
          else:
            st = out
        exp[cid] = (to_np_tree(jax, final(sh, st)), results)
    return exp

  expected = oracle(shared_np)
  for cid, (o, rs) in expected.items():
    for leaf in jax.tree_util.tree_leaves((o, rs)):
      if leaf.dtype.kind == 'f' and not np.all(np.isfinite(leaf)):
        raise core.HarnessError('oracle produced a non-finite value on real batches')

  backends = [('jit', fec.ForEachClientJitBackend()), ('debug', fec.ForEachClientDebugBackend())]
  devs = jax.local_devices()
  for nd in nds:
    backends.append((f'pmap{nd}', fec.ForEachClientPmapBackend(devs[:nd])))
  counts = [len(b) for _, b, _ in clients_np]
  for name, backend in backends:
    fam = name.rstrip('0123456789')
    ctx.count('backend:' + fam)
    # fresh caller-owned arrays for this call (jax arrays for shared/cin, numpy batches as the data pipeline yields)
    shared = jax.tree_util.tree_map(jnp.asarray, shared_np)
    as_jax_batches = rng.rand() < 0.5
    clients = []
    for cid, batches, cin in clients_np:
      bs = [jax.tree_util.tree_map(jnp.asarray, b) if as_jax_batches else {k: v.copy() for k, v in b.items()} for b in batches]
      if not as_jax_batches:
        for b in bs:
          for v in b.values():
            v.flags.writeable = False
      clients.append((cid, bs, jax.tree_util.tree_map(jnp.asarray, cin)))
    owned = jax.tree_util.tree_leaves((shared, [(b, c) for _, b, c in clients]))
    snap = [np.array(l) for l in owned]
    w = {**wit, 'backend': name}

    form = int(rng.randint(3))   # clients / batches are Iterables: list, tuple-of-lists, or one-shot generators

    def call():
      with fedjax.for_each_client_backend(backend):
        f = fedjax.for_each_client(init, step, final, with_step_result=wsr)
      if form == 0:
        arg = clients
      elif form == 1:
        arg = tuple((c, tuple(b), ci) for c, b, ci in clients)
      else:
        arg = ((c, (x for x in b), ci) for c, b, ci in clients)
      return list(f(shared, arg))

    r = ctx.call(f'for_each_client[{fam}]', call, witness=w)
    if not r.ok:
      continue
    out = r.value
    got_ids = [t[0] for t in out]
    ctx.check(collections.Counter(map(repr, got_ids)) == collections.Counter(repr(c) for c, _, _ in clients_np),
              f'ids/multiset-{fam}', f'[{name}] yielded ids {got_ids} != input ids', w)
    for t in out:
      cid = t[0]
      if cid not in expected:
        continue
      eo, ers = expected[cid]
      ok, why = trees_match(jax, to_np_tree(jax, t[1]), eo)
      ctx.check(ok, f'fold/output-{fam}', f'[{name}] client {cid!r} output differs from the sequential fold: {why}',
                {**w, 'client': cid, 'got': to_np_tree(jax, t[1]), 'expected': eo})
      if wsr:
        if ctx.check(
            len(t) == 3 and len(t[2]) == len(ers), f'steps/count-{fam}',
            f'[{name}] client {cid!r}: {len(t[2]) if len(t) == 3 else None} step results for {len(ers)} batches', {**w, 'client': cid}):
          for j, (g, e) in enumerate(zip(t[2], ers)):
            ok, why = trees_match(jax, to_np_tree(jax, g), e)
            ctx.check(ok, f'fold/step-result-{fam}', f'[{name}] client {cid!r} step {j} result differs: {why}',
                      {**w, 'client': cid, 'step': j})
      else:
        ctx.check(len(t) == 2, f'steps/unexpected-{fam}', f'[{name}] tuple of length {len(t)} without step results', w)
    bad = None
    for leaf, val in zip(owned, snap):
      if hasattr(leaf, 'is_deleted') and leaf.is_deleted():
        bad = 'deleted'
        break
      if not core.bit_equal(np.asarray(leaf), val):
        bad = 'changed'
        break
    ctx.check(bad is None, f'sanitize/caller-array-{bad}-{fam}', f'[{name}] a caller-owned array was {bad} by the call', w)
    nontrivial = len(set(counts)) >= 2
    klass = [fam]
    if fam == 'pmap':
      nd = int(name[4:])
      pad_client = len(counts) % nd != 0
      # padding batch: within some block, two clients with different batch counts
      sc = sorted(counts, reverse=True)
      pad_batch = any(len(set(sc[i:i + nd])) > 1 or (len(sc[i:i + nd]) < nd and sc[i] > 0) for i in range(0, len(sc), nd))
      if pad_client:
        ctx.count('pmap-padding-client')
      if pad_batch:
        ctx.count('pmap-padding-batch')
      nontrivial = nontrivial and (pad_client or pad_batch)
      klass.append(f'nd={nd}')
    ctx.case_done((tuple(sorted(p.items())), tuple(counts), name) if nontrivial else None,
                  sample=w if fam == 'pmap' else None, klass=klass)

    # ----- ONE for_each_client function used for two calls; between them the caller updates its own (NumPy) shared input
    #       in place, as a training loop does with `params -= lr * delta`. The second call must see the new values.
    if clients_np and (fam != 'pmap' or name == backends[2][0]):
      sh2 = {k: v.copy() for k, v in shared_np.items()}

      def reuse():
        with fedjax.for_each_client_backend(backend):
          f = fedjax.for_each_client(init, step, final, with_step_result=wsr)
        cl = lambda: [(cid, [dict(b) for b in bs], jax.tree_util.tree_map(jnp.asarray, cin)) for cid, bs, cin in clients_np]
        # value copies: with a pass-through program the debug backend legitimately returns the caller's own array
        first = [(t[0],) + tuple(jax.tree_util.tree_map(lambda a: np.array(a), t[1:])) for t in f(sh2, cl())]
        sh2['s'] += np.float32(1.5)      # in-place update of a caller-owned array
        sh2['t'] *= np.float32(0.5)
        return first, list(f(sh2, cl()))

      r = ctx.call(f'for_each_client[{fam}-reused]', reuse, witness=w)
      if r.ok:
        exp2 = oracle({'s': shared_np['s'] + np.float32(1.5), 't': shared_np['t'] * np.float32(0.5)})
        for which, out_, exp_ in (('first', r.value[0], expected), ('second', r.value[1], exp2)):
          ok_all = True
          for t in out_:
            if t[0] in exp_:
              ok, why = trees_match(jax, to_np_tree(jax, t[1]), exp_[t[0]][0])
              ok_all = ok_all and ok
          ctx.check(ok_all and len(out_) == len(clients_np), f'fold/reused-function-{which}-call-{fam}',
                    f'[{name}] {which} call of a re-used for_each_client function differs from the fold over the CURRENT '
                    f'shared input (the caller updated its NumPy arrays in place between the calls)', w)
        ctx.count('reuse:' + fam)


# ------------------------------------------------------------------ schedules
class Boom(Exception):
  pass


def run_schedule(ctx, fedjax, fec, rng, n_threads, n_ops):
  import sys
  old_interval = sys.getswitchinterval()
  sys.setswitchinterval(1e-6)
  log_lock = threading.Lock()
  log = []
  problems = []
  counters = {'reads': 0, 'restores': 0, 'ops': 0, 'builds': 0}

  class Probe(fec.ForEachClientBackend):

    def __init__(self, tag):
      self.tag = tag
      self.calls = []

    def __call__(self, client_init, client_step, client_final):
      self.calls.append(threading.get_ident())
      return fec.ForEachClientJitBackend()(client_init, client_step, client_final)

  default = fec.BackendChoice.DEFAULT_BACKEND if hasattr(fec, 'BackendChoice') else None
  main_choice = Probe('main')
  fedjax.set_for_each_client_backend(main_choice)

  def observe(tid, shadow, where):
    got = fedjax.get_for_each_client_backend()
    exp = shadow[0]
    if exp is None:
      ok = default is None or got is default
    elif isinstance(exp, str):
      ok = type(got).__name__ == {'debug': 'ForEachClientDebugBackend', 'jit': 'ForEachClientJitBackend',
                                  'pmap': 'ForEachClientPmapBackend'}[exp]
    else:
      ok = got is exp
    with log_lock:
      counters['reads'] += 1
      log.append(tid)
      if not ok and len(problems) < 5:
        problems.append((where, tid, repr(exp), repr(got)))
    return ok

  # functions DECORATED with a backend context, created once and shared by all threads: each call is its own activation of the
  # context (they nest, re-enter themselves through other contexts and run concurrently in several threads)
  shared_backends = ['debug', 'jit', Probe('shared')]

  def _body(tid, shadow, b, inner):
    shadow[0] = b
    observe(tid, shadow, 'decorated-enter')
    inner()

  decorated = [(b, fedjax.for_each_client_backend(b)(_body)) for b in shared_backends]

  def worker(tid, seed):
    r = np.random.RandomState(seed)
    shadow = [None]  # what this thread should observe; None = never set in this thread -> default
    mine = [Probe(f't{tid}-{j}') for j in range(3)]
    observe(tid, shadow, 'thread-start')

    def pick():
      k = r.randint(6)
      return [None, 'debug', 'jit', mine[0], mine[1], mine[2]][k]

    def prog(depth, budget):
      while budget[0] > 0:
        budget[0] -= 1
        op = r.randint(7)
        if r.rand() < 0.3:
          time.sleep(0)
        if op == 0:
          b = pick()
          fedjax.set_for_each_client_backend(b)
          shadow[0] = b
        elif op in (1, 2) and depth < 5:
          b = pick()
          saved = shadow[0]
          raised = r.rand() < 0.35
          try:
            with fedjax.for_each_client_backend(b):
              shadow[0] = b
              observe(tid, shadow, 'ctx-enter')
              prog(depth + 1, budget)
              if raised:
                raise Boom()
          except Boom:
            pass
          shadow[0] = saved
          with log_lock:
            counters['restores'] += 1
          observe(tid, shadow, 'ctx-exit-exception' if raised else 'ctx-exit')
        elif op == 5 and depth < 5:
          b, fn = decorated[r.randint(len(decorated))]
          saved = shadow[0]
          fn(tid, shadow, b, lambda: prog(depth + 1, budget))
          shadow[0] = saved
          with log_lock:
            counters['restores'] += 1
            counters['decorated'] = counters.get('decorated', 0) + 1
          observe(tid, shadow, 'decorated-exit')
        elif op == 3 and depth > 0 and r.rand() < 0.3:
          return
        elif op == 4 and isinstance(shadow[0], Probe):
          me = threading.get_ident()
          before = shadow[0].calls.count(me)       # (a probe shared through a decorated function is used by several threads)
          fedjax.for_each_client(lambda s, c: s, lambda s, b: s)
          calls = shadow[0].calls
          ok = calls.count(me) == before + 1
          with log_lock:
            counters['builds'] += 1
            if not ok and len(problems) < 5:
              problems.append(('for_each_client-used-other-backend', tid, shadow[0].tag, calls.count(me) - before))
        else:
          observe(tid, shadow, 'read')
        with log_lock:
          counters['ops'] += 1

    prog(0, [n_ops])

  threads = [threading.Thread(target=worker, args=(i, int(rng.randint(2**31 - 1)))) for i in range(n_threads)]
  for t in threads:
    t.start()
  for t in threads:
    t.join(timeout=600)
  sys.setswitchinterval(old_interval)
  alive = [t for t in threads if t.is_alive()]
  if alive:
    raise core.Inconclusive('schedule threads did not finish (watchdog)')
  main_ok = fedjax.get_for_each_client_backend() is main_choice and not main_choice.calls
  fedjax.set_for_each_client_backend(None)
  alternations = sum(1 for a, b in zip(log, log[1:]) if a != b)
  ctx.count('mon:thread', counters['reads'])
  ctx.count('mon:restore', counters['restores'])
  ctx.count('thread-alternations', alternations)
  ctx.count('thread-ops', counters['ops'])
  ctx.count('thread-builds', counters['builds'])
  ctx.count('thread-decorated-calls', counters.get('decorated', 0))
  wit = {'threads': n_threads, 'ops_per_thread': n_ops, 'reads': counters['reads'], 'alternations': alternations,
         'problems': problems}
  for where, *_ in problems:
    ctx.violation(f'thread/{where}', f'a thread observed a backend it did not select ({where})', wit)
  ctx.check(main_ok, 'thread/main-choice-changed', "the main thread's backend choice changed while other threads selected backends", wit)
  ctx.case_done(('schedule', n_threads, n_ops, ctx.cur_case), sample=wit, klass='schedule')


def run_many(ctx, jax, jnp, fedjax, fec, rng, case_no):
  """Thousands of clients in ONE call (any internal grouping of the client stream): one result per id, each the fold of its own
  batches. Cheap program; oracle in NumPy."""
  K = int([1023, 1024, 1025, 1026, 2049, 2500, 4100][case_no % 7])
  nb = rng.randint(0, 3, size=K)
  xs = [rng.randint(0, 100, size=(int(nb[i]), 2)).astype(np.float32) for i in range(K)]
  a = rng.randint(0, 50, size=K).astype(np.float32)
  ids = [b'm%05d' % i for i in range(K)]
  exp = {ids[i]: float(a[i] + xs[i].sum()) for i in range(K)}

  def init(shared, cin):
    return cin['a'] + shared['z']

  def step(state, batch):
    return state + jnp.sum(batch['x'])

  def final(shared, state):
    return state

  wsr = bool(case_no % 2)
  if wsr:
    step_r = lambda state, batch: (step(state, batch), jnp.sum(batch['x']))
  which = [('jit', lambda: fec.ForEachClientJitBackend()), ('pmap', lambda: fec.ForEachClientPmapBackend(jax.local_devices()[:int(rng.randint(1, 9))])),
           ('debug', lambda: fec.ForEachClientDebugBackend())]
  for name, mk in which[:2] if K > 2100 else which:
    wit = {'family': 'manyclients', 'clients': K, 'backend': name, 'with_step_result': wsr}
    clients = [(ids[i], [{'x': xs[i][j]} for j in range(int(nb[i]))], {'a': a[i]}) for i in range(K)]

    def call():
      with fedjax.for_each_client_backend(mk()):
        f = fedjax.for_each_client(init, step_r if wsr else step, final, with_step_result=wsr)
      return list(f({'z': np.float32(0)}, clients if case_no % 3 else iter(clients)))

    r = ctx.call(f'for_each_client[{name}]', call, witness=wit)
    if not r.ok:
      continue
    ctx.count('hit:many-clients-call')
    got_ids = [t[0] for t in r.value]
    missing = sorted(set(ids) - set(got_ids))
    ctx.check(len(got_ids) == K and not missing and len(set(got_ids)) == K, f'ids/multiset-{name}',
              f'{len(got_ids)} results for {K} clients; missing input positions {[ids.index(m) for m in missing[:6]]}', wit)
    bad = [c for c, out, *rest in r.value if c in exp and abs(float(np.asarray(out)) - exp[c]) > 1e-3 * (1 + abs(exp[c]))]
    ctx.check(not bad, f'fold/output-{name}', f'{len(bad)} of {K} client outputs differ from the fold of their own batches '
              f'(first: {bad[:3]})', wit)
    if wsr:
      short = [c for c, out, res in r.value if c in exp and len(res) != int(nb[ids.index(c)])]
      ctx.check(not short, f'steps/count-{name}', f'{len(short)} clients have a wrong number of step results', wit)
  ctx.case_done(('manyclients', K, wsr), sample={'family': 'manyclients', 'clients': K}, klass=['manyclients'])


def run_x64_scoped(ctx, jax, jnp, fedjax, fec, rng, case_no):
  """64-bit mode switched on the scoped way (`with jax.enable_x64(True)`) around the whole computation, with data that does
  not survive narrowing (int64 ids above 2**33, float64 timestamps): every backend equals the NumPy int64/float64 fold."""
  if not hasattr(jax, 'enable_x64'):
    from jax.experimental import enable_x64 as _enable
  else:
    _enable = jax.enable_x64
  K = int(rng.randint(1, 10))
  clients_np = []
  for i in range(K):
    nb = int(rng.randint(0, 4))
    batches = [{'ids': rng.randint(2**33, 2**40, size=[5], dtype=np.int64), 't': 1.7e9 + rng.uniform(0, 50, size=[5])} for _ in range(nb)]
    clients_np.append((b'x%02d' % i, batches, {'start': np.int64(2**35 + i), 'scale': np.float64(1 + 0.25 * i)}))
  shared_np = {'offset': np.int64(2**34 + 7), 't0': np.float64(1.7e9 + 0.125)}

  def init(shared, cin):
    return {'id_sum': cin['start'] + shared['offset'], 't_last': shared['t0'] * jnp.ones_like(cin['scale']), 'scale': cin['scale']}

  def step(state, batch):
    return {'id_sum': state['id_sum'] + jnp.sum(batch['ids']), 't_last': jnp.maximum(state['t_last'], jnp.max(batch['t'])),
            'scale': state['scale']}

  def final(shared, state):
    return {'id_sum': state['id_sum'], 'elapsed': (state['t_last'] - shared['t0']) * state['scale']}

  exp = {}
  for cid, batches, cin in clients_np:
    s, t = int(cin['start']) + int(shared_np['offset']), float(shared_np['t0'])
    for b in batches:
      s += int(b['ids'].sum())
      t = max(t, float(b['t'].max()))
    exp[cid] = (s, (t - float(shared_np['t0'])) * float(cin['scale']))
  backends = [('jit', fec.ForEachClientJitBackend), ('debug', fec.ForEachClientDebugBackend)]
  for nd in sorted(set(rng.choice([1, 2, 3, 4, 8], size=2, replace=False).tolist())):
    backends.append((f'pmap{nd}', lambda nd=nd: fec.ForEachClientPmapBackend(jax.local_devices()[:nd])))
  for name, mk in backends:
    fam = name.rstrip('0123456789')
    wit = {'family': 'x64-scoped', 'backend': name, 'clients': K, 'batch_counts': [len(b) for _, b, _ in clients_np]}

    def call():
      with _enable(True):
        with fedjax.for_each_client_backend(mk()):
          f = fedjax.for_each_client(init, step, final)
        return [(c, jax.tree_util.tree_map(np.asarray, o)) for c, o in f(shared_np, clients_np)]

    r = ctx.call(f'for_each_client[{fam}]', call, witness=wit)
    if not r.ok:
      continue
    ctx.count('hit:x64-scoped-call')
    got = dict(r.value)
    ctx.check(sorted(got) == sorted(exp), f'ids/multiset-{fam}', 'results do not cover every client exactly once', wit)
    for cid, (s, e) in exp.items():
      if cid in got:
        o = got[cid]
        ok = int(o['id_sum']) == s and o['id_sum'].dtype == np.int64 and abs(float(o['elapsed']) - e) <= 1e-9 * (1 + abs(e))
        ctx.check(ok, f'fold/output-{fam}', f"client {cid!r} under `with jax.enable_x64(True)`: id_sum {int(o['id_sum'])} "
                  f"({o['id_sum'].dtype}) elapsed {float(o['elapsed'])!r}; the int64/float64 fold gives {s} / {e!r}", {**wit, 'client': cid})
  ctx.case_done(('x64-scoped', K, case_no), sample={'family': 'x64-scoped', 'clients': K}, klass=['x64-scoped'])


def run(ctx):
  import jax
  import jax.numpy as jnp
  import fedjax
  from fedjax.core import for_each_client as fec
  if len(jax.local_devices()) < 8:
    raise core.Inconclusive(f'only {len(jax.local_devices())} host devices (need 8 forced CPU devices)')
  n = 64 if ctx.quick else 1100
  for cid, rng in ctx.cases('prog', n):
    if ctx.quick:
      nds = sorted(set(rng.choice([1, 2, 3, 4, 5, 6, 7, 8], size=3, replace=False).tolist()))
    else:
      nds = [1, 2, 3, 4, 5, 6, 7, 8]
    run_program(ctx, jax, jnp, fedjax, fec, rng, nds)
  for cid, rng in ctx.cases('many', 8 if ctx.quick else 42):
    run_many(ctx, jax, jnp, fedjax, fec, rng, int(cid.split('/')[1]))
  for cid, rng in ctx.cases('x64scoped', 16 if ctx.quick else 160):
    run_x64_scoped(ctx, jax, jnp, fedjax, fec, rng, int(cid.split('/')[1]))
  for cid, rng in ctx.cases('sched', 8 if ctx.quick else 28):
    run_schedule(ctx, fedjax, fec, rng, 8 if ctx.quick else 16, 2000 if ctx.quick else 20000)

TECHNIQUE += '; calls of 1e3-4e3 clients; scoped jax.enable_x64; shared decorated-context activations across threads'
