"""Prints a markdown table of /verif/seeded/*/meta.json (used for DESIGN.md §7.4)."""
import glob, json, os
ROOT = os.path.dirname(os.path.dirname(os.path.abspath(__file__)))
print('| seeded change | property | needs, in order to manifest | first run | after strengthening | deciding keys |')
print('|---|---|---|---|---|---|')
for d in sorted(glob.glob(os.path.join(ROOT, 'seeded', '*'))):
  m = json.load(open(os.path.join(d, 'meta.json')))
  runs = m.get('ran', [])
  first = 'CAUGHT' if 'CAUGHT' in runs[0] else 'MISSED'
  last = 'CAUGHT' if any('CAUGHT' in r for r in runs[-2:]) else ('not pursued: out of domain' if m.get('note') else 'MISSED')
  keys = []
  for c, v in m.get('checks', {}).items():
    keys += [f'{k}' for k in v.get('keys', [])[:2]]
  print(f"| {os.path.basename(d)} | {m['property']} | {m.get('needs','')} | {first} | {last if first == 'MISSED' else '—'} | {', '.join('`'+k+'`' for k in keys[:3])} |")
