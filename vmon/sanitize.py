"""State sanitizers (DESIGN §2.4): caller-owned arrays must survive a call into fedjax.

  snap = snapshot_tree(inputs)            # before the call
  out = fedjax_function(inputs)
  verify_tree(ctx, snap, 'donation/tree_sum', outputs=out, check_alias=True)

For every caller-owned ``jax.Array`` leaf the snapshot keeps the Python object, a host copy of its
value and ``unsafe_buffer_pointer()``; for every ``numpy.ndarray`` leaf the object, a copy, and the
writeable flag is cleared (an in-place write then raises inside fedjax and is reported by
``ctx.call`` with its stack).  ``verify_tree`` then demands

  * ``not leaf.is_deleted()``         (donated away:  key ``<prefix>:input-deleted``)
  * value bit-identical to the copy   (written to:    key ``<prefix>:input-changed``)
  * with ``check_alias``: no output leaf is the same object as / shares a device buffer or host
    memory with an input leaf          (aliased:       key ``<prefix>:output-aliases-input``)

The module uses only JAX/NumPy public API and shares no code with fedjax.  Containers are walked
with ``jax.tree_util.tree_flatten_with_path`` so any registered pytree node (fedjax dataclasses,
haiku/optax states) is handled.  Python scalars are immutable and are ignored.
"""
import numpy as np


def _host(leaf):
  """Host copy of a leaf; typed PRNG keys (jax.random.key) are read through their key data."""
  import jax
  try:
    if isinstance(leaf, jax.Array) and jax.dtypes.issubdtype(leaf.dtype, jax.dtypes.prng_key):
      return np.array(jax.random.key_data(leaf), copy=True)
  except Exception:  # pylint: disable=broad-except
    pass
  return np.array(leaf, copy=True)


def _is_jax_array(x):
  import jax
  return isinstance(x, jax.Array) and not isinstance(x, jax.core.Tracer)


def _leaves_with_path(tree):
  import jax
  leaves, _ = jax.tree_util.tree_flatten_with_path(tree)
  return [(jax.tree_util.keystr(p), l) for p, l in leaves]


def _pointer(leaf):
  """Device buffer address of a live single-device jax.Array, or None when it has none."""
  try:
    if leaf.size == 0:
      return None
    return int(leaf.unsafe_buffer_pointer())
  except Exception:  # pylint: disable=broad-except
    return None


class Snapshot:
  """What the caller owned before the call."""

  def __init__(self):
    self.entries = []   # dicts: path, kind ('jax'|'np'), obj, value, ptr, was_writeable
    self.n_jax = 0
    self.n_np = 0

  def pointers(self):
    return {e['ptr']: e['path'] for e in self.entries if e['kind'] == 'jax' and e['ptr'] is not None}


def snapshot_tree(tree, freeze_numpy=True):
  """Records every jax.Array / numpy leaf of `tree` (any pytree, incl. lists of trees)."""
  snap = Snapshot()
  seen = set()
  for path, leaf in _leaves_with_path(tree):
    if id(leaf) in seen:
      continue
    if _is_jax_array(leaf):
      seen.add(id(leaf))
      if leaf.is_deleted():
        raise ValueError(f'snapshot_tree: input leaf {path} is already deleted (harness bug)')
      snap.entries.append({
          'path': path,
          'kind': 'jax',
          'obj': leaf,
          'value': _host(leaf),
          'ptr': _pointer(leaf),
      })
      snap.n_jax += 1
    elif isinstance(leaf, np.ndarray):
      seen.add(id(leaf))
      was = bool(leaf.flags.writeable)
      if freeze_numpy:
        leaf.flags.writeable = False
      snap.entries.append({
          'path': path,
          'kind': 'np',
          'obj': leaf,
          'value': leaf.copy(),
          'ptr': None,
          'was_writeable': was,
      })
      snap.n_np += 1
  return snap


def _same_bits(a, b):
  if a.dtype != b.dtype or a.shape != b.shape:
    return False
  if a.dtype == object:
    return a.tolist() == b.tolist()
  return a.tobytes() == b.tobytes()


def verify_tree(ctx, snap, key_prefix, outputs=None, check_alias=False, witness=None):
  """Judges the snapshot after the call. Returns True when every monitor held.

  key_prefix is '<monitor family>/<call site>' (e.g. 'donation/tree_sum'); violation keys are
  '<key_prefix>:input-deleted' | ':input-changed' | ':output-aliases-input', and every leaf judged
  counts one hit of 'mon:<monitor family>'.
  """
  ok = True
  wit = dict(witness or {})
  for e in snap.entries:
    w = {**wit, 'leaf': e['path'], 'kind': e['kind']}
    if e['kind'] == 'jax':
      deleted = bool(e['obj'].is_deleted())
      if not ctx.check(not deleted, f'{key_prefix}:input-deleted',
                       f"caller-owned jax.Array {e['path']} is deleted (its buffer was donated) after the call", w):
        ok = False
        continue
      now = _host(e['obj'])
      if not ctx.check(_same_bits(now, e['value']), f'{key_prefix}:input-changed',
                       f"caller-owned jax.Array {e['path']} changed value during the call",
                       {**w, 'before': e['value'], 'after': now}):
        ok = False
    else:
      now = e['obj']
      if not ctx.check(_same_bits(np.asarray(now), e['value']), f'{key_prefix}:input-changed',
                       f"caller-owned numpy array {e['path']} changed value during the call",
                       {**w, 'before': e['value'], 'after': np.array(now)}):
        ok = False
  if check_alias and outputs is not None:
    ptrs = snap.pointers()
    in_ids = {id(e['obj']): e['path'] for e in snap.entries}
    np_inputs = [e for e in snap.entries if e['kind'] == 'np']
    for path, leaf in _leaves_with_path(outputs):
      shared = None
      if id(leaf) in in_ids:
        shared = f'is the same object as input {in_ids[id(leaf)]}'
      elif _is_jax_array(leaf):
        if not leaf.is_deleted():
          p = _pointer(leaf)
          if p is not None and p in ptrs:
            shared = f'shares device buffer 0x{p:x} with input {ptrs[p]}'
      elif isinstance(leaf, np.ndarray):
        for e in np_inputs:
          if leaf.size and np.shares_memory(leaf, e['obj']):
            shared = f"shares host memory with input {e['path']}"
            break
      else:
        continue
      if not ctx.check(shared is None, f'{key_prefix}:output-aliases-input', f'output leaf {path} {shared}',
                       {**wit, 'output_leaf': path}):
        ok = False
  return ok


def release(snap):
  """Restores the writeable flag of NumPy leaves frozen by snapshot_tree."""
  for e in snap.entries:
    if e['kind'] == 'np' and e.get('was_writeable'):
      try:
        e['obj'].flags.writeable = True
      except ValueError:
        pass
