"""C05 — Evaluation is invariant to batching and padding (metric monoid)."""
import collections

import numpy as np

from vmon import core
from vmon import metricgen as mg

PROPERTY = 'C05'
LEVEL = 'exploration'
RULE = ('Worlds: (metric group, C in 2..9, L in 1..7, 1..4 domains, feature keys, one instance of EVERY Metric subclass of the '
        'group found by introspection of fedjax.metrics with random constructor settings [k from {-5,-1,0,1,2,C-1,C,C+3}, '
        'masked values, logits_mask, both per_position settings, PerDomain over every base, ConfusionMatrix]) bundled into one '
        'pass-through fedjax.Model. Case: 0..12 examples (ties, fully masked sequences, all domains), 3 batchings of the SAME '
        'examples - (a) no mask feature, random order/partition, (b) the real ClientDataset.padded_batch with 1-4 buckets, '
        '(c) hand-padded to sizes {1,2,4,8} with real rows at arbitrary positions, padded rows filled with random in-domain '
        'non-zero garbage, extra all-padding batches - each evaluated by evaluate_model, ModelEvaluator.evaluate_global_params '
        'and evaluate_per_client_params (jit backend; debug backend on a subset), evaluate_batch on single batches; oracle = '
        'left fold zero.merge(s1).merge(s2)... of metric.evaluate_example. Monoid laws (associativity, commutativity, identity, '
        'merge(f(A),f(B))=f(A u B)) on statistics of disjoint random subsets. Non-trivial: >=2 batches with at least one padded '
        'row of non-zero garbage; distinct by (world parameters, digest of examples, batching layout).')
ASSUMPTIONS = [
    'padded rows hold in-domain values (valid class / domain ids, finite logits), as the statement requires',
    'scores are finite float32 without NaN or -0.0; results are compared with rtol 1e-5*sqrt(n+1), atol 1e-6',
    'the pass-through model multiplies the pred feature by a power-of-two parameter (exact), so per-client parameters are observable',
    'PerDomainMetric over a per-position base is exercised in its own family (pdpp) because its zero() has a different rank',
]
SHARDS = {'quick': 4, 'thorough': 14}
SHARD_TIMEOUT = {'quick': 900, 'thorough': 3000}
EXHAUSTIVE = {'quick': False, 'thorough': False}

SIZES = [1, 2, 4, 8]                # closed under the bucket rule b, b//2, b//4, b//8 (one jit compile per size and path)
DEBUG_SIZES = [2]                   # the debug backend runs eagerly: few shapes
BATCH_SIZES = [4]                   # direct evaluate_batch calls (one jit per metric x size)
DEBUG_METRICS = 3                   # the debug backend evaluates a random sub-bundle (eager dispatch is slow)
LAW_METRICS = 5                     # metrics per case on which the (eager) monoid laws are checked
PRED = 'pred'

_MON = ['evalmodel', 'evaluator-global', 'evaluator-perclient', 'debug-global', 'debug-perclient', 'evalbatch', 'assoc',
        'commut', 'identity', 'homomorphism', 'merge', 'zero', 'empty', 'allpad']
MIN_HITS = {
    'quick': dict({f'mon:{m}': 100 for m in _MON}, **{f'cls:{n}': 30 for n in mg.GROUP},
                  **{'mon:pdpp': 4, 'contract:meanstat_new': 1000, 'kind:no-mask': 100, 'kind:padded_batch': 100,
                     'kind:hand-padded': 100, 'garbage-rows': 500, 'all-padding-batches': 50, 'per-position-metrics': 100,
                     'fully-masked-sequences': 20}),
    'thorough': dict({f'mon:{m}': 1500 for m in _MON}, **{f'cls:{n}': 400 for n in mg.GROUP},
                     **{'mon:pdpp': 40, 'contract:meanstat_new': 15000, 'kind:no-mask': 1500, 'kind:padded_batch': 1500,
                        'kind:hand-padded': 1500, 'garbage-rows': 8000, 'all-padding-batches': 800,
                        'per-position-metrics': 1500, 'fully-masked-sequences': 300}),
}
MIN_HITS['quick']['mon:empty'] = 40
MIN_HITS['quick'].update({'mon:rawmerge': 500, 'batches-as:iterator': 100, 'batches-as:generator': 100, 'batches-as:recycled-mapping': 100, 'hit:stat-from-host-buffer': 60})
MIN_HITS['thorough'].update({'mon:rawmerge': 8000, 'batches-as:iterator': 1500, 'batches-as:generator': 1500, 'batches-as:recycled-mapping': 1500, 'hit:stat-from-host-buffer': 900})
MIN_HITS['quick']['mon:allpad'] = 40
MIN_HITS['quick'].update({'hit:half-precision-evaluation': 20, 'hit:haiku-model-evaluation': 40, 'hit:big-cell-merge': 12})
MIN_HITS['thorough'].update({'hit:half-precision-evaluation': 200, 'hit:haiku-model-evaluation': 500})
MIN_HITS['quick']['mon:debug-global'] = 40
MIN_HITS['quick']['mon:debug-perclient'] = 40
MIN_HITS['thorough']['mon:empty'] = 600
MIN_HITS['thorough']['mon:allpad'] = 600
MIN_HITS['thorough']['mon:debug-global'] = 600
MIN_HITS['thorough']['mon:debug-perclient'] = 600


# ------------------------------------------------------------------ helpers
def fields(stat):
  out = collections.OrderedDict(accum=np.asarray(stat.accum).astype(np.float64))
  if hasattr(stat, 'weight'):
    out['weight'] = np.asarray(stat.weight).astype(np.float64)
  return out


def close(got, ref, n):
  got, ref = np.asarray(got, np.float64), np.asarray(ref, np.float64)
  if got.shape != ref.shape or np.any(np.isnan(got)):
    return False
  return core.close(got, ref, rtol=1e-5 * np.sqrt(n + 1.0), atol=1e-6)


def _aligned_copy(x):
  """A writable 64-byte aligned NumPy copy of x (the alignment at which JAX on CPU may adopt a host buffer without copying)."""
  x = np.asarray(x)
  raw = np.empty(x.nbytes + 64, np.uint8)
  off = (-raw.ctypes.data) % 64
  out = raw[off:off + x.nbytes].view(x.dtype).reshape(x.shape)
  out[...] = x
  return out


def same_fields(fx, fy):
  return set(fx) == set(fy) and all(fx[f].shape == fy[f].shape and np.array_equal(fx[f], fy[f]) for f in fx)


def fits(small, big):
  """True when shape `small` broadcasts into shape `big` without enlarging it."""
  try:
    return np.broadcast_shapes(tuple(small), tuple(big)) == tuple(big)
  except ValueError:
    return False


def digest(*arrays):
  import hashlib
  m = hashlib.sha256()
  for x in arrays:
    x = np.ascontiguousarray(x)
    m.update(str(x.dtype).encode() + str(x.shape).encode() + x.tobytes())
  return m.hexdigest()[:16]


class World:
  """One metric bundle + model + evaluators + jitted one-by-one oracle; shapes are fixed inside a world."""

  def __init__(self, ctx, fedjax, jax, jnp, w, group):
    M = fedjax.metrics
    rng = ctx.rng('world', w)
    self.w, self.group = w, group
    self.C, self.L, self.D = int(rng.randint(2, 10)), int(rng.randint(1, 8)), int(rng.randint(1, 5))
    self.tkey = 'y' if rng.rand() < 0.6 else 'label'
    self.pkey = None if rng.rand() < 0.5 else 'logits'
    self.dkey = 'domain_id' if rng.rand() < 0.6 else 'dom'
    self.masked_hint = (0, int(rng.randint(1, self.C)))
    C, L, D = self.C, self.L, self.D
    bundle = collections.OrderedDict()

    def add(name, **kw):
      m, a = mg.make_metric(M, name, rng, C, L, self.tkey, self.pkey, **kw)
      key = f'{name}#{len(bundle)}'
      bundle[key] = (m, a)
      if not a.get('per_position'):
        pm, pa = mg.make_metric(M, 'PerDomainMetric', rng, C, L, self.tkey, self.pkey, self.dkey, D, base=(m, a))
        bundle[f'PerDomainMetric[{key}]'] = (pm, pa)

    for name in sorted(n for n, g in mg.GROUP.items() if g == group):
      if name in ('TopKAccuracy', 'SequenceTokenTopKAccuracy'):
        grid = mg.K_GRID(C)
        for k in sorted(set(int(grid[j]) for j in rng.choice(8, size=2, replace=False))):
          add(name, k=k, **({'pp': bool(rng.rand() < 0.5)} if group == mg.SEQ else {}))
      elif name in ('SequenceTokenCrossEntropyLoss', 'SequenceTokenAccuracy', 'SequenceTokenOOVRate'):
        add(name, pp=False)
        add(name, pp=True)
      else:
        add(name)
    if group == mg.SEQ and C >= 2:
      # twins that differ ONLY in logits_mask (None / all-zero / one class excluded), as the packaged Stack Overflow model
      # declares them: every configuration must keep its own result although all are evaluated in one process on
      # same-shaped inputs (metrics are static arguments of jitted code: equality/hash must distinguish them)
      excl = [0.0] * C
      excl[int(rng.randint(C))] = float('-inf')
      for cls_name in ('SequenceTokenAccuracy', 'SequenceTokenTopKAccuracy'):
        for tag, lm in (('none', None), ('zeros', tuple([0.0] * C)), ('excl', tuple(excl))):
          kw = dict(target_key=self.tkey, pred_key=self.pkey, masked_target_values=(0,), logits_mask=lm, per_position=False)
          if cls_name == 'SequenceTokenTopKAccuracy':
            kw['k'] = 1
          a = {'class': cls_name, **{k_: (list(v_) if isinstance(v_, tuple) else v_) for k_, v_ in kw.items()}}
          bundle[f'{cls_name}#twin-{tag}'] = (getattr(M, cls_name)(**kw), a)
      ctx.count('logits-mask-twins')
    self.bundle = bundle
    self.metrics = collections.OrderedDict((k, v[0]) for k, v in bundle.items())
    self.args = {k: v[1] for k, v in bundle.items()}
    pkey = self.pkey

    def apply_for_eval(params, batch):
      p = batch[PRED] * params['scale']
      return p if pkey is None else {pkey: p}

    self.model = fedjax.Model(init=lambda rng_: None, apply_for_train=lambda p, b, r: None, apply_for_eval=apply_for_eval,
                              train_loss=lambda b, o: None, eval_metrics=dict(self.metrics))
    from fedjax.core import for_each_client as fec
    with fec.for_each_client_backend('jit'):
      self.ev_jit = fedjax.ModelEvaluator(self.model)
    self.fedjax, self.apply_for_eval = fedjax, apply_for_eval
    metrics = self.metrics

    def single(ex, pred):
      return {k: m.evaluate_example(ex, pred) for k, m in metrics.items()}

    def step(stat, ex, pred):
      return {k: stat[k].merge(m.evaluate_example(ex, pred)) for k, m in metrics.items()}

    self.single = jax.jit(single)
    self.step = jax.jit(step)
    self.jnp = jnp
    self.describe = {'world': w, 'group': group, 'C': C, 'L': L, 'domains': D, 'target_key': self.tkey,
                     'pred_key': self.pkey, 'domain_key': self.dkey, 'metrics': {k: a for k, a in self.args.items()}}

  # -- examples ---------------------------------------------------------------
  def make_examples(self, rng, n):
    C, L, D = self.C, self.L, self.D
    kinds = ('random', 'ties', 'const', 'ints', 'random')
    if self.group == mg.CLS:
      y = rng.randint(0, C, size=n).astype(np.int32)
      p = np.stack([mg.make_scores(rng, 1, C, kinds[rng.randint(5)])[0] for _ in range(n)]) if n else np.zeros(
          (0, C), np.float32)
    else:
      y = np.stack([mg.make_seq_target(rng, C, L, self.masked_hint, mg.SEQ_PATTERNS[rng.randint(5)]) for _ in range(n)
                   ]) if n else np.zeros((0, L), np.int32)
      p = np.stack([mg.make_scores(rng, L, C, kinds[rng.randint(5)]) for _ in range(n)]) if n else np.zeros(
          (0, L, C), np.float32)
    d = rng.randint(0, D, size=n).astype(np.int32)
    return y, p.astype(np.float32), d

  def garbage(self, rng, b):
    """In-domain, non-zero content for padded rows."""
    C, L, D = self.C, self.L, self.D
    shape_y = (b,) if self.group == mg.CLS else (b, L)
    y = rng.randint(0, C, size=shape_y).astype(np.int32)
    p = (rng.randn(*(shape_y + (C,))) * 3 + rng.choice([-7.0, 7.0])).astype(np.float32)
    if rng.rand() < 0.3:
      # finite but extreme logits (still finite after the model's x2 scale): the per-example loss of such a padded row
      # overflows to inf inside the metric, which a correct mask (a select, not an arithmetic blend) must discard.
      p = rng.choice(np.array([-1.6e38, 1.6e38], np.float32), size=shape_y + (C,)).astype(np.float32)
      self.extreme_garbage = getattr(self, 'extreme_garbage', 0) + 1
    d = rng.randint(0, D, size=b).astype(np.int32)
    return y, p, d

  # -- oracle -----------------------------------------------------------------
  def zero(self):
    return {k: m.zero() for k, m in self.metrics.items()}

  def debug_evaluator(self, names):
    """ModelEvaluator on the debug backend over a sub-bundle of the world's metrics."""
    from fedjax.core import for_each_client as fec
    fedjax = self.fedjax
    model = fedjax.Model(init=lambda rng_: None, apply_for_train=lambda p, b, r: None, apply_for_eval=self.apply_for_eval,
                         train_loss=lambda b, o: None, eval_metrics={k: self.metrics[k] for k in names})
    with fec.for_each_client_backend('debug'):
      return fedjax.ModelEvaluator(model)

  def ex_pred(self, Y, P, Dm, i, scale):
    jnp = self.jnp
    ex = {self.tkey: jnp.asarray(Y[i]), self.dkey: jnp.asarray(Dm[i])}
    p = jnp.asarray(P[i] * np.float32(scale))
    return ex, (p if self.pkey is None else {self.pkey: p})

  def fold(self, Y, P, Dm, idx, scale):
    """zero.merge(s_i1).merge(s_i2)... with the real evaluate_example / merge code."""
    st = self.zero()
    for i in idx:
      st = self.step(st, *self.ex_pred(Y, P, Dm, i, scale))
    return st


def install_contract(ctx, jax, M):
  """icontract postcondition on MeanStat.new: the result lies in {(0,0)} u {weight > 0}; skipped under tracing."""
  import icontract
  orig = M.MeanStat.new.__func__

  def in_domain(result):
    a, w = result.accum, result.weight
    if isinstance(a, jax.core.Tracer) or isinstance(w, jax.core.Tracer):
      ctx.count('contract:meanstat_new_traced')
      return True
    ctx.count('contract:meanstat_new')
    a, w = np.asarray(a, np.float64), np.asarray(w, np.float64)
    a, w = np.broadcast_arrays(a, w)
    ok = bool(np.all(w >= 0) and np.all((w > 0) | (a == 0)) and not np.any(np.isnan(a)) and not np.any(np.isnan(w)))
    if not ok:
      ctx.violation('contract/meanstat-new-outside-domain', 'MeanStat.new returned a statistic outside {(0,0)} u {weight>0}',
                    {'accum': a, 'weight': w})
    return True

  M.MeanStat.new = classmethod(icontract.ensure(in_domain)(orig))


# ------------------------------------------------------------------ batchings
def chunks(rng, n, sizes, exact):
  """Splits range(n) (already permuted by the caller) into consecutive chunk lengths."""
  out, rem = [], n
  while rem > 0:
    if exact:
      s = int(rng.choice([x for x in sizes if x <= rem]))
    else:
      s = int(rng.randint(1, min(rem, max(sizes)) + 1))
    out.append(s)
    rem -= s
  return out


def build_no_mask(world, rng, Y, P, Dm, sizes=SIZES):
  n = len(Y)
  perm = rng.permutation(n)
  batches, layout, pos = [], [], 0
  for s in chunks(rng, n, sizes, exact=True):
    rows = perm[pos:pos + s]
    pos += s
    batches.append({world.tkey: Y[rows], PRED: P[rows], world.dkey: Dm[rows]})
    layout.append({'size': s, 'rows': rows.tolist()})
  return batches, layout, {'garbage_rows': 0, 'all_padding': 0}


def build_padded_batch(world, cd, rng, Y, P, Dm):
  n = len(Y)
  perm = rng.permutation(n)
  b, k = int(rng.choice([4, 8])), int(rng.randint(1, 5))
  ds = cd.ClientDataset({world.tkey: Y[perm], PRED: P[perm], world.dkey: Dm[perm]})
  batches = list(ds.padded_batch(batch_size=b, num_batch_size_buckets=k))
  order = rng.permutation(len(batches))
  batches = [batches[i] for i in order]
  layout = [{'size': int(len(bt[cd.EXAMPLE_MASK_KEY])), 'real': int(bt[cd.EXAMPLE_MASK_KEY].sum())} for bt in batches]
  return batches, {'batch_size': b, 'buckets': k, 'perm': perm.tolist(), 'order': order.tolist(), 'batches': layout}, {
      'garbage_rows': 0, 'all_padding': 0}


def build_hand(world, cd, rng, Y, P, Dm, sizes=SIZES, force_all_padding=False):
  n = len(Y)
  perm = rng.permutation(n)
  plan, pos = [], 0
  for s in chunks(rng, n, sizes, exact=False):
    plan.append(perm[pos:pos + s])
    pos += s
  n_allpad = int(rng.randint(0, 3))
  if force_all_padding or n == 0:
    n_allpad = max(1, n_allpad)
  plan += [np.zeros(0, np.int64)] * n_allpad
  order = rng.permutation(len(plan))
  batches, layout, garbage_rows = [], [], 0
  for j in order:
    rows = plan[j]
    size = int(rng.choice([x for x in sizes if x >= max(1, len(rows))]))
    y, p, d = world.garbage(rng, size)
    mask = np.zeros(size, np.bool_)
    where = rng.permutation(size)[:len(rows)]       # arbitrary positions, arbitrary order
    y[where], p[where], d[where] = Y[rows], P[rows], Dm[rows]
    mask[where] = True
    garbage_rows += size - len(rows)
    batches.append({world.tkey: y, PRED: p, world.dkey: d, cd.EXAMPLE_MASK_KEY: mask})
    layout.append({'size': size, 'rows': rows.tolist(), 'positions': where.tolist()})
  return batches, layout, {'garbage_rows': garbage_rows, 'all_padding': n_allpad}


# --------------------------------------------------------------------- judging
def judge(ctx, fam, kind, world, got, ref_results, n, wit, empty_kind=None):
  """Compares a result dict of a real evaluation path with the one-by-one merge, metric by metric."""
  if not isinstance(got, dict) or set(got) != set(ref_results):
    ctx.check(False, f'{fam}/result-keys', f'result keys {sorted(got) if isinstance(got, dict) else type(got)}', wit)
    return
  for name, ref in ref_results.items():
    g = np.asarray(got[name]).astype(np.float64)
    cls = world.args[name]['class']
    ctx.count('cls:' + cls)
    base_cls = mg.base_args(world.args[name])['class']
    if base_cls != cls:
      ctx.count('cls:' + base_cls)
    w = None
    if n == 0 and g.shape != ref.shape and fits(ref.shape, g.shape):
      ref = np.broadcast_to(ref, g.shape)     # zero() of a per-position metric is a scalar: "the zero result (0)"
    if g.shape != ref.shape:
      key = f'{fam}/{kind}-result-shape'
    elif np.any(np.isnan(g)):
      key = f'{fam}/{kind}-nan'
    elif not close(g, ref, n):
      key = f'{fam}/{kind}-differs-from-one-by-one-merge'
    else:
      key = None
    if key is not None:
      w = dict(wit, metric=name, metric_args=world.args[name], got=g, one_by_one=ref)
    ctx.check(key is None, key or f'{fam}/ok', f'{name}: {fam} over a {kind} batching differs from merging the '
              'single-example statistics one by one', w)
    if empty_kind is not None:
      ctx.check(not np.any(np.isnan(g)) and not np.any(g), f'{empty_kind}/{"nan" if np.any(np.isnan(g)) else "non-zero"}',
                f'{name}: {empty_kind} input does not give the zero result 0',
                dict(wit, metric=name, metric_args=world.args[name], got=g))


class OracleRaised(Exception):
  pass


def run_case(ctx, fedjax, jax, jnp, cd, world, rng, debug_case):
  """One example set; an exception escaping the one-by-one oracle (real evaluate_example / merge) is itself a finding."""
  try:
    _run_case(ctx, fedjax, jax, jnp, cd, world, rng, debug_case)
  except (core.Inconclusive, core.HarnessError):
    raise
  except Exception as e:  # pylint: disable=broad-except
    frames = core.fedjax_frames(e)
    if not frames:
      raise
    inner = frames[-1]
    ctx.violation(f'oracle/one-by-one-merge-raises-{type(e).__name__}@{inner[0].split("/")[-1]}:{inner[2]}',
                  f'evaluate_example / merge raised {type(e).__name__}: {str(e)[:200]}',
                  {'world': world.describe, 'frames': [f'{f}:{l}:{n}' for f, l, n in frames[-6:]]})
    ctx.case_done(None, klass=['oracle-raised'])


def _run_case(ctx, fedjax, jax, jnp, cd, world, rng, debug_case):
  M = fedjax.metrics
  n = 0 if rng.rand() < 0.07 else int(rng.randint(1, 13))
  Y, P, Dm = world.make_examples(rng, n)
  scales = [1.0, 2.0, 0.5]
  gscale = float(scales[rng.randint(3)])
  wit0 = {'world': world.describe if ctx.replay_case else {k: v for k, v in world.describe.items() if k != 'metrics'},
          'n': n, 'targets': Y, 'scores': P, 'domains': Dm, 'scale': gscale}
  folds = {}

  def oracle(scale):
    if scale not in folds:
      st = world.fold(Y, P, Dm, range(n), scale)
      folds[scale] = (st, {k: np.asarray(v.result()).astype(np.float64) for k, v in st.items()})
    return folds[scale]

  ref_stat, ref_res = oracle(gscale)
  if world.group == mg.SEQ and n:
    w_ = np.ones(Y.shape, bool)
    for mv in (0,):
      w_ &= Y != mv
    ctx.count('fully-masked-sequences', int(np.sum(~w_.any(axis=1))))
  ctx.count('per-position-metrics', sum(1 for a in world.args.values() if a.get('per_position')))

  # ---- oracle self-consistency: fold fields == float64 sums of the single-example fields
  if n:
    sums = None
    for i in range(n):
      s = world.single(*world.ex_pred(Y, P, Dm, i, gscale))
      f = {k: fields(v) for k, v in s.items()}
      if sums is None:
        sums = f
      else:
        sums = {k: {fn: sums[k][fn] + f[k][fn] for fn in f[k]} for k in f}
    for name, st in ref_stat.items():
      ff = fields(st)
      ok = all(fits(sums[name][fn].shape, ff[fn].shape) and close(
          ff[fn], np.broadcast_to(sums[name][fn], ff[fn].shape), n) for fn in ff)
      ctx.check(ok, 'merge/fold-differs-from-field-sums', f'{name}: merged accum/weight are not the sums of the '
                'single-example accum/weight', None if ok else dict(wit0, metric=name, merged=ff, sums=sums[name]))

  # ---- batchings of the same examples
  batchings = []
  for kind in ('no-mask', 'padded_batch', 'hand-padded'):
    if kind == 'no-mask':
      b, layout, info = build_no_mask(world, rng, Y, P, Dm)
    elif kind == 'padded_batch':
      b, layout, info = build_padded_batch(world, cd, rng, Y, P, Dm)
    else:
      b, layout, info = build_hand(world, cd, rng, Y, P, Dm, force_all_padding=rng.rand() < 0.15)
    batchings.append((kind, b, layout, info))
    ctx.count('kind:' + kind)
    ctx.count('garbage-rows', info['garbage_rows'])
    ctx.count('all-padding-batches', info['all_padding'])
  params = {'scale': jnp.float32(gscale)}

  def as_iterable(b):
    """Batches reach the evaluators as a list, a one-shot iterator or a generator (all are 'iterables of batches')."""
    k = int(rng.randint(3))
    ctx.count('batches-as:' + ['list', 'iterator', 'generator'][k])
    if k == 0:
      return list(b)
    if k == 1:
      return iter(list(b))
    return (x for x in list(b))

  for kind, b, layout, info in batchings:
    wit = dict(wit0, batching=kind, layout=layout)
    empty_kind = None
    if n == 0:
      empty_kind = 'allpad' if b else 'empty'
    recycle = b and rng.rand() < 0.25
    if recycle:
      # a loader that hands out ONE mapping object and refills it for every batch (each batch is complete when it is handed
      # out; only a consumer that hoards the stream before evaluating it sees anything else)
      def recycling(bs=list(b)):
        box = {}
        for x in bs:
          box.clear()
          box.update(x)
          yield box
        box.clear()
      ctx.count('batches-as:recycled-mapping')
      wit = dict(wit, batches_as='generator yielding one refilled mapping object')
    r = ctx.call('evaluate_model', fedjax.evaluate_model, world.model, params, recycling() if recycle else as_iterable(b), witness=wit)
    if r.ok:
      judge(ctx, 'evalmodel', kind, world, r.value, ref_res, n, wit, empty_kind)

  # ---- ModelEvaluator, jit backend: every batching is one client; all must give the one-by-one result
  cids = [f'client-{i}'.encode() for i in range(len(batchings))]
  wit = dict(wit0, batching='3 clients = 3 batchings', layout=[l for _, _, l, _ in batchings])
  r = ctx.call('ModelEvaluator.evaluate_global_params',
               lambda: list(world.ev_jit.evaluate_global_params(params, [(c, as_iterable(b)) for c, (_, b, _, _) in zip(cids, batchings)])),
               witness=wit)
  if r.ok:
    out = r.value
    ctx.check([c for c, _ in out] == cids, 'evaluator-global/client-ids', f'client ids {[c for c, _ in out]}', wit)
    for (c, res), (kind, b, _, _) in zip(out, batchings):
      judge(ctx, 'evaluator-global', kind, world, res, ref_res, n, wit, None if n else ('allpad' if b else 'empty'))
  cscales = [float(scales[rng.randint(3)]) for _ in batchings]
  wit = dict(wit, client_scales=cscales)
  r = ctx.call('ModelEvaluator.evaluate_per_client_params', lambda: list(world.ev_jit.evaluate_per_client_params(
      [(c, as_iterable(b), {'scale': jnp.float32(s)}) for c, (_, b, _, _), s in zip(cids, batchings, cscales)])), witness=wit)
  if r.ok:
    for (c, res), (kind, b, _, _), s in zip(r.value, batchings, cscales):
      judge(ctx, 'evaluator-perclient', kind, world, res, oracle(s)[1], n, wit)

  # ---- debug backend (eager): batch shapes restricted to DEBUG_SIZES
  if debug_case:
    nb, lb, ib = build_no_mask(world, rng, Y, P, Dm, sizes=[1] + DEBUG_SIZES)
    hb, lh, ih = build_hand(world, cd, rng, Y, P, Dm, sizes=DEBUG_SIZES)
    dbg = [('no-mask', nb, lb), ('hand-padded', hb, lh)]
    ctx.count('garbage-rows', ih['garbage_rows'])
    all_names = list(world.metrics)
    dbg_names = [all_names[t] for t in rng.choice(len(all_names), size=min(DEBUG_METRICS, len(all_names)), replace=False)]
    ev_debug = world.debug_evaluator(dbg_names)
    sub_ref = lambda res: {k: res[k] for k in dbg_names}
    wit = dict(wit0, batching='debug backend: no-mask + hand-padded', layout=[lb, lh], metrics=dbg_names)
    r = ctx.call('ModelEvaluator(debug).evaluate_global_params', lambda: list(ev_debug.evaluate_global_params(
        params, [(c, b) for c, (_, b, _) in zip(cids, dbg)])), witness=wit)
    if r.ok:
      for (c, res), (kind, b, _) in zip(r.value, dbg):
        judge(ctx, 'debug-global', kind, world, res, sub_ref(ref_res), n, wit, None if n else ('allpad' if b else 'empty'))
    ds = [float(scales[rng.randint(3)]) for _ in dbg]
    r = ctx.call('ModelEvaluator(debug).evaluate_per_client_params', lambda: list(
        ev_debug.evaluate_per_client_params([(c, b, {'scale': jnp.float32(s)}) for c, (_, b, _), s in zip(
            cids, dbg, ds)])), witness=dict(wit, client_scales=ds))
    if r.ok:
      for (c, res), (kind, b, _), s in zip(r.value, dbg, ds):
        judge(ctx, 'debug-perclient', kind, world, res, sub_ref(oracle(s)[1]), n, dict(wit, client_scales=ds))

  # ---- evaluate_batch on single batches (statistic fields and result)
  names = list(world.metrics)
  for kind, b, layout, info in batchings:
    if kind == 'padded_batch':
      continue
    cand = [j for j, bt in enumerate(b) if len(bt[world.tkey]) in BATCH_SIZES]
    if not cand:
      continue
    j = cand[rng.randint(len(cand))]
    bt = b[j]
    mask = bt.get(cd.EXAMPLE_MASK_KEY)
    pred = world.model.apply_for_eval(params, {k: jnp.asarray(v) for k, v in bt.items()})
    rows = layout[j]['rows'] if mask is None else [layout[j]['rows'][t] for t in np.argsort(layout[j]['positions'])]
    sub = world.fold(Y, P, Dm, rows, gscale)
    for name in [names[t] for t in rng.choice(len(names), size=2, replace=False)]:
      wit = dict(wit0, batching=kind, batch=layout[j], metric=name, metric_args=world.args[name])
      r = ctx.call('evaluate_batch', M.evaluate_batch, world.metrics[name], bt, pred, mask, witness=wit)
      if not r.ok:
        continue
      fg, fr = fields(r.value), fields(sub[name])
      ok = all(fits(fr[f].shape, fg[f].shape) and close(
          fg[f], np.broadcast_to(fr[f], fg[f].shape), len(rows)) for f in fr) and type(r.value) is type(sub[name])
      ctx.check(ok, f'evalbatch/{kind}-statistic-differs-from-one-by-one-merge', f'{name}: evaluate_batch statistic '
                'differs from the merge of its real rows', None if ok else dict(wit, got=fg, one_by_one=fr))
      res = np.asarray(r.value.result()).astype(np.float64)
      rr = np.asarray(sub[name].result()).astype(np.float64)
      ok = not np.any(np.isnan(res)) and fits(rr.shape, res.shape) and close(res, np.broadcast_to(rr, res.shape), len(rows))
      ctx.check(ok, f'evalbatch/{kind}-' + ('nan' if np.any(np.isnan(res)) else 'result-differs'),
                f'{name}: evaluate_batch(...).result() differs', None if ok else dict(wit, got=res, one_by_one=rr))

  # ---- raw single-example statistics merged DIRECTLY with each other (tree-shaped reduction, no zero() seed)
  if n >= 3:
    tri = [int(t) for t in rng.choice(n, size=3, replace=False)]
    raw = [world.single(*world.ex_pred(Y, P, Dm, i, gscale)) for i in tri]
    seeded = world.fold(Y, P, Dm, tri, gscale)
    with jax.disable_jit():
      for name in list(world.metrics):
        s0, s1, s2 = (r_[name] for r_ in raw)
        wit = dict(wit0, metric=name, metric_args=world.args[name], examples=tri)
        r = ctx.call('Stat.merge[raw]', lambda: (s0.merge(s1).merge(s2), s0.merge(s1.merge(s2)), s2.merge(s0).merge(s1)), witness=wit)
        if r.ok:
          want = np.asarray(seeded[name].result()).astype(np.float64)
          for tag, st_ in zip(('(a.b).c', 'a.(b.c)', '(c.a).b'), r.value):
            got = np.asarray(st_.result()).astype(np.float64)
            try:
              shp = np.broadcast_shapes(got.shape, want.shape)
              ok = close(np.broadcast_to(got, shp), np.broadcast_to(want, shp), 3)
            except ValueError:
              ok = False
            ctx.check(ok, 'rawmerge/raw-example-stats-merge-differs-from-zero-seeded-fold',
                      f'{name}: {tag} over raw evaluate_example statistics differs from zero().merge(a).merge(b).merge(c)',
                      dict(wit, grouping=tag, got=got, expected=want))

  # ---- monoid laws on statistics of disjoint subsets (eager merges: the MeanStat.new contract observes them)
  part = rng.randint(0, 4, size=n)
  A, B, Cs = ([int(i) for i in np.flatnonzero(part == t)] for t in range(3))
  sa, sb, sc = (world.fold(Y, P, Dm, idx, gscale) for idx in (A, B, Cs))
  sab = world.fold(Y, P, Dm, A + B, gscale)
  law_names = [names[t] for t in rng.choice(len(names), size=min(LAW_METRICS, len(names)), replace=False)]
  with jax.disable_jit():
    for name in law_names:
      metric = world.metrics[name]
      a, b_, c = sa[name], sb[name], sc[name]
      fa = fields(a)
      wit = dict(wit0, metric=name, metric_args=world.args[name], subsets=[A, B, Cs])

      def same(x, y, exact):
        fx, fy = fields(x), fields(y)
        if type(x) is not type(y):
          return False
        for f in fx:
          if exact:
            if fx[f].shape != fy[f].shape or not np.array_equal(fx[f], fy[f]):
              return False
          else:
            try:
              shp = np.broadcast_shapes(fx[f].shape, fy[f].shape)
            except ValueError:
              return False
            if not close(np.broadcast_to(fx[f], shp), np.broadcast_to(fy[f], shp), n):
              return False
        return True

      r = ctx.call('Stat.merge', lambda: (a.merge(b_).merge(c), a.merge(b_.merge(c)), a.merge(b_), b_.merge(a)), witness=wit)
      if r.ok:
        l, rr, ab, ba = r.value
        ctx.check(same(l, rr, False), 'assoc/not-associative', f'{name}: (a.b).c != a.(b.c)', dict(wit, left=fields(l),
                                                                                                  right=fields(rr)))
        ctx.check(same(ab, ba, True), 'commut/not-commutative', f'{name}: a.b != b.a', dict(wit, ab=fields(ab), ba=fields(ba)))
        ctx.check(same(ab, sab[name], False), 'homomorphism/merge-of-parts-differs-from-whole',
                  f'{name}: merge(f(A), f(B)) != f(A u B)', dict(wit, merged=fields(ab), whole=fields(sab[name])))
      z = metric.zero()
      r = ctx.call('Stat.merge', lambda: (z.merge(a), a.merge(z)), witness=wit)
      if r.ok:
        za, az = r.value
        ctx.check(same(za, a, True) and same(az, a, True), 'identity/zero-not-identity',
                  f'{name}: zero.merge(a) or a.merge(zero) differs from a (values or shape)',
                  dict(wit, a=fa, zero_a=fields(za), a_zero=fields(az), zero=fields(z)))

  # ---- statistics re-created on the host (SumStat.new / MeanStat.new over NumPy buffers, as host-side aggregation of pulled
  #      statistics does), the buffers then being reused by the caller: a statistic is a value, it keeps what it was given
  with jax.disable_jit():
    for name in law_names:
      a, b_ = sa[name], sb[name]
      if type(a) not in (M.SumStat, M.MeanStat):
        continue
      bufs = [_aligned_copy(np.asarray(getattr(a, f))) for f in (('accum',) if type(a) is M.SumStat else ('accum', 'weight'))]
      wit = dict(wit0, metric=name, metric_args=world.args[name], stat_type=type(a).__name__)
      r = ctx.call('Stat.new[host buffers]', lambda: type(a).new(*bufs), witness=wit)
      if not r.ok:
        continue
      mine = r.value
      before = fields(mine)
      for bf in bufs:
        bf[...] = np.asarray(13, bf.dtype) if bf.dtype != np.bool_ else True
      r = ctx.call('Stat.merge', lambda: mine.merge(b_), witness=wit)
      ctx.count('hit:stat-from-host-buffer')
      after = fields(mine)
      ok = all(np.array_equal(before[f], after[f]) for f in before) and same_fields(before, fields(a))
      ctx.check(ok, 'value/stat-follows-the-host-buffer-it-was-made-from',
                f'{name}: a statistic made by {type(a).__name__}.new from host arrays changed when the caller reused those arrays',
                dict(wit, made=before, now=after, source=fields(a)))
      if r.ok and ok:
        ref_m = a.merge(b_)
        ctx.check(same_fields(fields(r.value), fields(ref_m)), 'value/merge-of-host-made-stat-differs',
                  f'{name}: merge of a host-made statistic differs from the merge of the original',
                  dict(wit, got=fields(r.value), expected=fields(ref_m)))

  # ---- classification of the case
  hand = batchings[2]
  n_batches = len(hand[1])
  nontrivial = n_batches >= 2 and hand[3]['garbage_rows'] >= 1
  klass = [world.group, 'n=0' if n == 0 else ('n=1' if n == 1 else 'n>=2')]
  if hand[3]['all_padding']:
    klass.append('has-all-padding-batch')
  if debug_case:
    klass.append('debug-backend')
  key = (world.w, world.C, world.L, world.D, digest(Y, P, Dm), repr([l for _, _, l, _ in batchings]))
  ctx.case_done(key if nontrivial else None,
                sample=dict(wit0, layouts={k: l for k, _, l, _ in batchings}, metrics=list(world.metrics)), klass=klass)


def check_zero(ctx, world):
  """Per world: every zero() is all-zero, gives result 0 (never NaN), has the documented shape and the type of the
  single-example statistic."""
  rng = np.random.RandomState(0)
  Y, P, Dm = world.make_examples(rng, 1)
  v = world.single(*world.ex_pred(Y, P, Dm, 0, 1.0))
  for name, metric in world.metrics.items():
    a = world.args[name]
    wit = {'world': world.w, 'metric': name, 'metric_args': a}
    r = ctx.call(f'{a["class"]}.zero', metric.zero, witness=wit)
    if not r.ok:
      continue
    z = r.value
    fz = fields(z)
    ctx.check(all(not np.any(x) for x in fz.values()), 'zero/not-zero', f'{name}: zero() has a non-zero component',
              dict(wit, zero=fz))
    res = np.asarray(z.result()).astype(np.float64)
    ctx.check(not np.any(np.isnan(res)) and not np.any(res), 'zero/result-nan' if np.any(np.isnan(res)) else
              'zero/result-not-zero', f'{name}: zero().result() is not 0', dict(wit, result=res))
    ctx.check(type(z) is type(v[name]), 'zero/type', f'{name}: zero() is a {type(z).__name__}, evaluate_example returns '
              f'{type(v[name]).__name__}', wit)
    fv = fields(v[name])
    ctx.check(all(fits(fz[f].shape, fv[f].shape) for f in fz if f in fv),
              'zero/shape-not-broadcastable-into-statistic', f'{name}: zero() components do not broadcast into the '
              'single-example statistic', dict(wit, zero=fz, example_stat=fv))
    if a['class'] == 'ConfusionMatrix':
      ctx.check(fz['accum'].shape == (a['num_classes'],) * 2, 'zero/confusion-shape',
                f'ConfusionMatrix.zero() has shape {fz["accum"].shape}, documented [num_classes, num_classes]', wit)
    if a['class'] == 'PerDomainMetric':
      fb = fields(metric.base.zero())
      ctx.check(all(fz[f].shape == (a['num_domains'],) + fb[f].shape for f in fb), 'zero/perdomain-shape',
                'PerDomainMetric.zero() is not (num_domains,) + base zero shape', dict(wit, zero=fz, base_zero=fb))
      rb = np.asarray(metric.base.zero().result())
      ctx.check(res.shape == (a['num_domains'],) + rb.shape, 'zero/perdomain-result-shape',
                f'PerDomainMetric zero result has shape {res.shape}, documented (num_domains,) + {rb.shape}', wit)


def run_pdpp(ctx, fedjax, jax, jnp, rng):
  """PerDomainMetric over a per-position base: evaluate_model must equal the one-by-one merge as for any other metric."""
  M = fedjax.metrics
  C, L, D = int(rng.randint(2, 6)), int(rng.randint(1, 5)), int(rng.randint(1, 4))
  bname = ['SequenceTokenCrossEntropyLoss', 'SequenceTokenAccuracy', 'SequenceTokenTopKAccuracy', 'SequenceTokenOOVRate'][
      rng.randint(4)]
  base = mg.make_metric(M, bname, rng, C, L, pp=True)
  pd, a = mg.make_metric(M, 'PerDomainMetric', rng, C, L, D=D, base=base)
  n = int(rng.randint(1, 5))
  Y = np.stack([mg.make_seq_target(rng, C, L, (0,), mg.SEQ_PATTERNS[rng.randint(5)]) for _ in range(n)])
  P = np.stack([mg.make_scores(rng, L, C, 'random') for _ in range(n)])
  Dm = rng.randint(0, D, size=n).astype(np.int32)
  wit = {'metric': a, 'C': C, 'L': L, 'targets': Y, 'scores': P, 'domains': Dm}
  model = fedjax.Model(init=lambda r: None, apply_for_train=lambda p, b, r: None, apply_for_eval=lambda p, b: b[PRED],
                       train_loss=lambda b, o: None, eval_metrics={'m': pd})
  key = 'pdpp/perdomain-per-position-base-unmergeable-zero'
  with jax.disable_jit():
    try:
      st = None
      for i in range(n):
        s = pd.evaluate_example({'y': jnp.asarray(Y[i]), 'domain_id': jnp.asarray(Dm[i])}, jnp.asarray(P[i]))
        st = s if st is None else st.merge(s)
      ref = np.asarray(st.result()).astype(np.float64)
    except Exception as e:  # pylint: disable=broad-except
      if not core.fedjax_frames(e):
        raise
      ctx.check(False, 'pdpp/statistics-not-mergeable', f'{type(e).__name__}: {str(e)[:200]}', wit)
      ctx.case_done((repr(a), C, L, digest(Y, P, Dm)), sample=wit, klass=['pdpp'])
      return
  try:
    got = fedjax.evaluate_model(model, None, [{'y': Y, PRED: P, 'domain_id': Dm}])
    g = np.asarray(got['m']).astype(np.float64)
    ctx.check(g.shape == ref.shape and close(g, ref, n), key, 'evaluate_model differs from the merge of the '
              f'single-example statistics (result shape {g.shape}, expected {ref.shape})', dict(wit, got=g, one_by_one=ref))
  except Exception as e:  # pylint: disable=broad-except
    frames = core.fedjax_frames(e)
    if not frames:
      raise
    ctx.check(False, key, f'evaluate_model raised {type(e).__name__}: {str(e)[:200]}',
              dict(wit, frames=[f'{f}:{l}:{fn}' for f, l, fn in frames[-6:]]))
  ctx.case_done((repr(a), C, L, digest(Y, P, Dm)), sample=wit, klass=['pdpp'])


def run_half(ctx, fedjax, jax, jnp, rng, case_no):
  """Half-precision predictions, thousands of examples: the evaluation result must not depend on the batch size (sums kept in
  the predictions' dtype saturate: 2^11 in float16, 2^8 in bfloat16) and must equal the mean of the per-example losses."""
  M = fedjax.metrics
  dt, eps, dname = [(jnp.float16, 2.0**-10, 'float16'), (jnp.bfloat16, 2.0**-7, 'bfloat16')][case_no % 2]
  n = int([4096, 6000, 8192, 9000][case_no % 4]) + int(rng.randint(0, 5))
  C, D = int(rng.randint(2, 6)), 2
  y = rng.randint(0, C, size=n).astype(np.int32)
  sc = rng.randn(n, C)
  sc[np.arange(n), (y + 1) % C] += rng.uniform(8.0, 12.0, size=n)          # loss ~ 10 per example
  P = np.asarray(jnp.asarray(sc).astype(dt))                               # half-precision NumPy array (ml_dtypes for bfloat16)
  Pr = np.asarray(jnp.asarray(P).astype(jnp.float32), np.float64)
  per = np.log(np.sum(np.exp(Pr - Pr.max(1, keepdims=True)), axis=1)) - (Pr - Pr.max(1, keepdims=True))[np.arange(n), y]
  Dm = (np.arange(n) % D).astype(np.int32)
  want = {'loss': float(per.mean()), 'acc': float(np.mean(np.argmax(Pr, axis=1) == y)),
          'pd': np.array([per[Dm == d].mean() for d in range(D)])}
  tol = 16 * eps * (np.abs(per).max() + np.abs(Pr).max() + 1.0)
  model = fedjax.Model(init=lambda r: None, apply_for_train=lambda p, b, r: None, apply_for_eval=lambda p, b: b[PRED],
                       train_loss=lambda b, o: None,
                       eval_metrics={'loss': M.CrossEntropyLoss(), 'acc': M.Accuracy(),
                                     'pd': M.PerDomainMetric(M.CrossEntropyLoss(), num_domains=D, domain_id_key='domain_id')})
  wit = {'family': 'half', 'predictions_dtype': dname, 'examples': n, 'classes': C, 'reference': {k: np.asarray(v) for k, v in want.items()}}
  seen = {}
  for bs in (64, 1024, n, 4096):
    pad = int(rng.randint(0, 9))
    batches = []
    for lo in range(0, n, bs):
      hi = min(n, lo + bs)
      m = np.ones(hi - lo + pad, bool)
      m[hi - lo:] = False
      batches.append({'y': np.concatenate([y[lo:hi], np.zeros(pad, np.int32)]), PRED: np.concatenate([P[lo:hi], P[:pad]]),
                      'domain_id': np.concatenate([Dm[lo:hi], np.zeros(pad, np.int32)]), '__mask__': m})
    w = {**wit, 'batch_size': bs, 'padding_rows': pad}
    r = ctx.call('evaluate_model', fedjax.evaluate_model, model, None, batches, witness=w)
    if not r.ok:
      continue
    ctx.count('hit:half-precision-evaluation')
    for name in ('loss', 'acc', 'pd'):
      g = np.asarray(r.value[name]).astype(np.float64)
      t = tol if name != 'acc' else 1e-6
      ok = g.shape == np.shape(want[name]) and not np.any(np.isnan(g)) and bool(np.all(np.abs(g - want[name]) <= t))
      ctx.check(ok, 'half/evaluation-differs-from-mean-of-examples',
                f'{name} of {n} {dname} examples in batches of {bs}: {g}, mean of the per-example values {want[name]}', dict(w, metric=name, got=g))
      seen.setdefault(name, []).append(g)
  for name, vals in seen.items():
    if len(vals) >= 2:
      spread = float(np.max(np.abs(np.stack(vals) - vals[0])))
      ctx.check(spread <= (2 * tol if name != 'acc' else 1e-6), 'half/result-depends-on-batch-size',
                f'{name} over the same {dname} examples differs by {spread:.3g} between batch sizes', dict(wit, metric=name, values=vals))
  ctx.case_done(('half', dname, n, C), sample=wit, klass=['half', 'half:' + dname])


def run_bigcell(ctx, fedjax, jax, jnp, rng, case_no):
  """Hundreds of examples falling into ONE cell of a counting statistic (confusion-matrix cell, token / sequence counts): the raw
  single-example statistics merged with each other in any association order (left fold without zero, right fold, balanced tree)
  equal the left fold from zero() -- counts kept in a narrow integer dtype wrap at 256 / 65536."""
  M = fedjax.metrics
  n = int([300, 700, 70000][case_no % 3]) if case_no % 6 != 5 else 257
  n = min(n, 900)            # eager merges: keep it cheap; 70000 is replaced by 900 (> 255 is what matters for uint8)
  C = 3
  y, p = np.int32(1), np.array([0.0, 5.0, 1.0], np.float32)
  seq_y = np.array([1, 2, 0], np.int32)
  metrics_ = {'ConfusionMatrix': (M.ConfusionMatrix(num_classes=C), {'y': jnp.asarray(y)}, jnp.asarray(p)),
              'SequenceTokenCount': (M.SequenceTokenCount(masked_target_values=(0,)), {'y': jnp.asarray(seq_y)}, jnp.zeros((3, C))),
              'SequenceCount': (M.SequenceCount(masked_target_values=(0,)), {'y': jnp.asarray(seq_y)}, jnp.zeros((3, C))),
              'Accuracy': (M.Accuracy(), {'y': jnp.asarray(y)}, jnp.asarray(p))}
  with jax.disable_jit():
    for name, (m, ex, pr) in metrics_.items():
      wit = {'family': 'bigcell', 'metric': name, 'identical_examples': n}
      r = ctx.call(f'{name}.evaluate_example', m.evaluate_example, ex, pr, witness=wit)
      if not r.ok:
        continue
      one = r.value
      try:
        left0 = m.zero()
        for _ in range(n):
          left0 = left0.merge(one)
        right = one
        for _ in range(n - 1):
          right = one.merge(right)
        level = [one] * n
        while len(level) > 1:
          level = [level[i].merge(level[i + 1]) if i + 1 < len(level) else level[i] for i in range(0, len(level), 2)]
        tree = level[0]
      except Exception as e:  # pylint: disable=broad-except
        if not core.fedjax_frames(e):
          raise
        ctx.check(False, 'assoc/merge-raised', f'{name}: merging {n} single-example statistics raised {type(e).__name__}', wit)
        continue
      ctx.count('hit:big-cell-merge')
      ref = np.asarray(left0.result(), np.float64)
      for how, st in (('right fold without zero', right), ('balanced tree', tree)):
        got = np.asarray(st.result(), np.float64)
        ctx.check(got.shape == ref.shape and bool(np.allclose(got, ref, rtol=1e-6, atol=1e-6)), 'assoc/many-identical-examples',
                  f'{name}: {n} identical single-example statistics merged as a {how} give {got.ravel()[:6]}, the left fold from zero() '
                  f'gives {ref.ravel()[:6]}', dict(wit, association=how))
  ctx.case_done(('bigcell', n), sample={'family': 'bigcell', 'identical_examples': n}, klass=['bigcell'])


def run_haiku(ctx, fedjax, jax, jnp, rng, case_no):
  """A model built by create_model_from_haiku whose forward pass behaves differently (batch-dependently) in training mode: the
  evaluation pass must use exactly the eval_kwargs (none given => the forward pass' own defaults), so its results are invariant
  to batching, order and padding garbage and equal the per-example definition."""
  import haiku as hk
  M = fedjax.metrics
  F, C = int(rng.randint(2, 6)), int(rng.randint(2, 5))
  n = int(rng.randint(5, 40))

  def forward(batch, is_train=False, scale=1.0):
    x = batch['x']
    if is_train:
      x = (x - jnp.mean(x, axis=0, keepdims=True)) / (jnp.std(x, axis=0, keepdims=True) + 1e-3)   # batch statistics
    return hk.Linear(C)(x) * scale

  variant = case_no % 4
  train_kwargs = [{'is_train': True}, {'is_train': True, 'scale': 1.0}, {'is_train': True}, {'is_train': True, 'scale': 3.0}][variant]
  eval_kwargs = [None, None, {}, {'scale': 2.0}][variant]
  eval_scale = 2.0 if variant == 3 else 1.0
  wit = {'family': 'haiku', 'train_kwargs': train_kwargs, 'eval_kwargs': eval_kwargs, 'examples': n, 'features': F, 'classes': C}
  metrics_ = {'acc': M.Accuracy(), 'loss': M.CrossEntropyLoss()}

  def build():
    return fedjax.create_model_from_haiku(
        transformed_forward_pass=hk.transform(forward), sample_batch={'x': jnp.zeros((1, F))},
        train_loss=lambda b, p: M.unreduced_cross_entropy_loss(b['y'], p), eval_metrics=metrics_,
        **({'train_kwargs': train_kwargs} if True else {}), **({'eval_kwargs': eval_kwargs} if eval_kwargs is not None else {}))

  r = ctx.call('create_model_from_haiku', build, witness=wit)
  if not r.ok:
    return ctx.case_done(None, sample=wit, klass=['haiku:raised'])
  model = r.value
  params = jax.tree_util.tree_map(lambda l: jnp.asarray(rng.normal(size=l.shape), dtype=l.dtype), model.init(jax.random.PRNGKey(0)))
  x = (rng.normal(size=(n, F)) * 2.0 + 3.0).astype(np.float32)
  y = rng.randint(0, C, n).astype(np.int32)
  w_, b_ = np.asarray(params['linear']['w'], np.float64), np.asarray(params['linear']['b'], np.float64)
  logits = (x.astype(np.float64) @ w_ + b_) * eval_scale
  per = np.log(np.sum(np.exp(logits - logits.max(1, keepdims=True)), axis=1)) - (logits - logits.max(1, keepdims=True))[np.arange(n), y]
  srt = np.sort(logits, axis=1)
  margin_ok = bool(np.all(srt[:, -1] - srt[:, -2] > 1e-3))
  want = {'loss': float(per.mean()), 'acc': float(np.mean(np.argmax(logits, 1) == y))}
  for bs in (1, 4, n, 7):
    order = rng.permutation(n)
    pad_to = bs + int(rng.randint(0, 4))
    batches = []
    for lo in range(0, n, bs):
      idx = order[lo:lo + bs]
      k = pad_to - len(idx)
      m = np.concatenate([np.ones(len(idx), bool), np.zeros(k, bool)])
      batches.append({'x': np.concatenate([x[idx], rng.uniform(-50, 50, (k, F)).astype(np.float32)]),
                      'y': np.concatenate([y[idx], rng.randint(0, C, k).astype(np.int32)]), '__mask__': m})
    w = {**wit, 'batch_size': bs, 'padded_to': pad_to}
    r = ctx.call('evaluate_model', fedjax.evaluate_model, model, params, batches, witness=w)
    if r.ok:
      ctx.count('hit:haiku-model-evaluation')
      g_loss, g_acc = float(np.asarray(r.value['loss'])), float(np.asarray(r.value['acc']))
      ok = abs(g_loss - want['loss']) <= 1e-4 * (1 + abs(want['loss'])) and (not margin_ok or abs(g_acc - want['acc']) <= 1e-6)
      ctx.check(ok, 'haiku/evaluation-differs-from-per-example-definition',
                f'evaluate_model on a create_model_from_haiku model (train_kwargs={train_kwargs}, eval_kwargs={eval_kwargs}): loss {g_loss} '
                f'accuracy {g_acc}; per-example evaluation-mode forward pass gives {want["loss"]} / {want["acc"]}', dict(w, got=[g_loss, g_acc]))
  ctx.case_done(('haiku', variant, n, F, C), sample=wit, klass=['haiku'])


def run(ctx):
  import warnings
  warnings.filterwarnings('ignore', message='Some donated buffers were not usable')
  import jax
  import jax.numpy as jnp
  import fedjax
  from fedjax.core import client_datasets as cd
  found = mg.discover(fedjax)
  mg.require_generators(found)
  ctx.notes['metric_classes'] = sorted(found)
  install_contract(ctx, jax, fedjax.metrics)
  nshards = ctx.nshards
  per_shard = 1 if ctx.quick else 4          # worlds per shard (each world costs ~25 s of jit compiles)
  W = nshards * per_shard
  n_cases = W * (90 if ctx.quick else 120)
  worlds = {}
  for cid, rng in ctx.cases('world', n_cases):
    i = int(cid.split('/')[1])
    w = i % W
    if w not in worlds:
      group = mg.CLS if (w // nshards + w % nshards) % 2 == 0 else mg.SEQ   # both groups in every pair of shards
      worlds[w] = World(ctx, fedjax, jax, jnp, w, group)
      check_zero(ctx, worlds[w])
    run_case(ctx, fedjax, jax, jnp, cd, worlds[w], rng, debug_case=(i // W) % 7 == 0)
  for cid, rng in ctx.cases('pdpp', 24 if ctx.quick else 280):
    run_pdpp(ctx, fedjax, jax, jnp, rng)
  for cid, rng in ctx.cases('half', 8 if ctx.quick else 64):
    run_half(ctx, fedjax, jax, jnp, rng, int(cid.split('/')[1]))
  for cid, rng in ctx.cases('bigcell', 4 if ctx.quick else 24):
    run_bigcell(ctx, fedjax, jax, jnp, rng, int(cid.split('/')[1]))
  for cid, rng in ctx.cases('haiku', 16 if ctx.quick else 160):
    run_haiku(ctx, fedjax, jax, jnp, rng, int(cid.split('/')[1]))


TECHNIQUE = ('runtime monitoring: every built-in metric (introspected) is evaluated through evaluate_model / ModelEvaluator '
             '(jit and debug backends) / evaluate_batch over random partitions, orders, bucketed and hand-made paddings with '
             'in-domain garbage, and judged against the left fold of single-example statistics; monoid laws and an icontract '
             'postcondition on MeanStat.new are checked on the observed statistics')
LEVEL_TEXT = ('For every built-in metric class and several constructor settings, hundreds of example sets are evaluated under '
              'three different batchings each (unmasked, real padded_batch, hand-padded with garbage rows and all-padding '
              'batches) through all public evaluation entry points and compared with the one-by-one merge; associativity, '
              'commutativity, identity and the union homomorphism are checked on real statistics. Held-on-observed over sampled '
              'example sets and batchings; not a proof for all inputs.')
LEVEL_NOTE = ('The oracle is fedjax\'s own evaluate_example/merge (as the statement defines it), cross-checked against float64 '
              'sums of the single-example fields; definitions of the metrics themselves are C14\'s subject. Trusts NumPy and the '
              'harness batch builders.')
TECHNIQUE += '; a loader that refills one mapping object per batch; statistics re-created from reused host buffers'
RULE += ' Wave-8 addition: a quarter of the evaluate_model calls receive a generator that yields ONE mapping object refilled for every batch; SumStat/MeanStat re-created by .new from 64-byte aligned NumPy buffers must keep their value when the caller overwrites the buffers.'
