"""C14 — Every built-in metric equals its definition on its whole domain."""
import itertools

import numpy as np

from vmon import core
from vmon import metricgen as mg

PROPERTY = 'C14'
LEVEL = 'exploration'
RULE = ('Per case: one Metric subclass (found by introspection of fedjax.metrics; a class without a harness generator makes '
        'the run inconclusive), constructor arguments from the grid (k in {-5,-1,0,1,2,C-1,C,C+3}, masked_target_values incl. '
        '() / two values / out-of-range, logits_mask None / zeros / 0-or--inf / all -inf, per_position, eos, 1..3 or zero OOV '
        'values, PerDomain over every base with 1..4 domains, custom target/pred/domain keys), a shape (C,L) from the lattice '
        'C in 2..9 x L in 1..7 (quick: {2,3,5,9} x {1,2,4,7}; the case index walks the lattice so every point is visited), '
        'scores random / exact ties / constant / +-1e30 / small integers, targets random / tail-padded / fully masked / '
        'unmasked / one real token. evaluate_example runs eagerly (jax.disable_jit) and the statistic fields and result() are '
        'compared with a float64 NumPy reference written from the docstring. Extra families: top-1 == accuracy, forced '
        'tie-at-the-boundary cases (also with 17/24/40 classes), confusion-matrix trace/total over merged and masked batches, per-domain slices over '
        'merged examples. Non-trivial: the case shows at least one domain edge (tie, masked or fully masked target, k<1, '
        'k>=C, logits mask, extreme magnitude, per_position, >1 domain, multi-example identity); distinct by (class, '
        'constructor args, C, L, digest of targets and scores).')
RULE += (" Wave-4 addition: a third of the 'metric' cases pass writable NumPy arrays; they must be bit-identical after the call and a second evaluation must give the same statistic.")
ASSUMPTIONS = [
    'scores are finite float32 with no NaN and no -0.0 (tie semantics are undefined there); -inf only enters through the '
    'documented logits_mask argument; targets and domain ids are in range',
    'a token is out-of-vocabulary when its target equals ANY of oov_target_values (reading of "Target values denoting '
    'out-of-vocabulary values"); with no OOV value no token is OOV',
    'eos_target_value is never one of masked_target_values (a sequence is truncated iff eos does not occur in it)',
    'eager evaluation (jax.disable_jit) has the semantics of the jitted/vmapped path; C05 covers the batched path',
]
SHARDS = {'quick': 4, 'thorough': 14}
SHARD_TIMEOUT = {'quick': 900, 'thorough': 3000}
EXHAUSTIVE = {'quick': False, 'thorough': False}

FAMILY = {
    'CrossEntropyLoss': 'xent',
    'Accuracy': 'acc',
    'TopKAccuracy': 'topk',
    'ConfusionMatrix': 'confusion',
    'SequenceTokenCrossEntropyLoss': 'tokxent',
    'SequenceCrossEntropyLoss': 'seqxent',
    'SequenceTokenAccuracy': 'tokacc',
    'SequenceTokenTopKAccuracy': 'seqtopk',
    'SequenceTokenCount': 'tokcount',
    'SequenceCount': 'seqcount',
    'SequenceTruncationRate': 'trunc',
    'SequenceTokenOOVRate': 'oov',
    'SequenceLength': 'seqlen',
    'PerDomainMetric': 'perdomain',
}
_IDENT = ['top1', 'tie', 'cmident', 'pdslice', 'cmreject']
MIN_HITS = {
    'quick': dict({f'mon:{f}': 60 for f in FAMILY.values()}, **{f'mon:{f}': 40 for f in _IDENT},
                  **{'edge:tie': 100, 'edge:fully-masked': 60, 'edge:k<1': 40, 'edge:k>=C': 40, 'edge:logits-mask': 40, 'edge:logits-mask-finite-bias': 40, 'pdslice:overflowing-example': 5,
                     'edge:extreme': 60, 'edge:per-position': 40, 'edge:masked-token': 100, 'hit:numpy-inputs': 800, 'hit:stat-merged-with-itself': 3000, 'hit:x64-metric': 150, 'hit:half-precision-scores': 40, 'hit:narrow-target-dtype': 400}),
    'thorough': dict({f'mon:{f}': 600 for f in FAMILY.values()}, **{f'mon:{f}': 400 for f in _IDENT},
                     **{'edge:tie': 1000, 'edge:fully-masked': 600, 'edge:k<1': 400, 'edge:k>=C': 400,
                        'edge:logits-mask': 400, 'edge:logits-mask-finite-bias': 400, 'pdslice:overflowing-example': 50, 'edge:extreme': 600, 'edge:per-position': 400,
                        'edge:masked-token': 1000, 'hit:numpy-inputs': 15000, 'hit:stat-merged-with-itself': 30000, 'hit:x64-metric': 3000, 'hit:half-precision-scores': 800, 'hit:narrow-target-dtype': 8000}),
}


# ============================================================== float64 reference
# Written from the docstrings of fedjax/core/metrics.py; shares no code with fedjax.
def r_mean(accum, weight):
  """MeanStat.new: values outside {(0,0)} u {b>0} are sanitised to the identity."""
  weight = np.maximum(0.0, np.asarray(weight, np.float64))
  accum = np.where(weight == 0, 0.0, np.asarray(accum, np.float64))
  return {'type': 'MeanStat', 'accum': accum, 'weight': weight}


def r_sum(accum):
  return {'type': 'SumStat', 'accum': np.asarray(accum, np.float64)}


def r_result(st):
  if st['type'] == 'SumStat':
    return st['accum']
  w = st['weight']
  with np.errstate(all='ignore'):
    return np.where(w != 0, st['accum'] / np.where(w != 0, w, 1.0), 0.0)


def r_weights(y, masked):
  w = np.ones(np.shape(y), np.float64)
  for mv in masked:
    w = w * (np.asarray(y) != mv)
  return w


def r_xent(scores, t):
  """-log softmax(scores)[t] with a stable log-sum-exp; scores 1-d float64."""
  d = scores - np.max(scores)            # differences first: no absorption of log-sum by a huge maximum
  return np.log(np.sum(np.exp(d))) - d[t]


def r_argmax(scores):
  """Index of the maximum; ties -> lowest index."""
  return int(np.flatnonzero(scores == np.max(scores))[0])


def r_rank(scores, t):
  """Position of class t when classes are ordered by decreasing score, ties lowest index first."""
  return int(np.sum(scores > scores[t]) + np.sum(scores[:t] == scores[t]))


def r_topk_correct(scores, t, k):
  C = len(scores)
  if k < 1:
    return 0.0
  if k >= C:
    return 1.0
  return float(r_rank(scores, t) < k)


def ref_stat(a, y, pred):
  """Reference statistic of a non-wrapping metric described by constructor-argument dict `a`."""
  name = a['class']
  y = np.asarray(y)
  p = None if pred is None else np.asarray(pred, np.float64)
  masked = tuple(a.get('masked_target_values', ()))
  if name == 'CrossEntropyLoss':
    return r_mean(r_xent(p, int(y)), 1.0)
  if name == 'Accuracy':
    return r_mean(float(r_argmax(p) == int(y)), 1.0)
  if name == 'TopKAccuracy':
    return r_mean(r_topk_correct(p, int(y), a['k']), 1.0)
  if name == 'ConfusionMatrix':
    m = np.zeros((a['num_classes'],) * 2)
    m[int(y), r_argmax(p)] = 1.0
    return r_sum(m)
  w = r_weights(y, masked)
  L = len(y)
  if name in ('SequenceTokenCrossEntropyLoss', 'SequenceCrossEntropyLoss'):
    loss = np.array([r_xent(p[i], int(y[i])) for i in range(L)])
    if name == 'SequenceCrossEntropyLoss':
      return r_mean(np.sum(loss * w), float(np.any(w)))
    if a['per_position']:
      return r_mean(loss * w, w)
    return r_mean(np.sum(loss * w), np.sum(w))
  if name in ('SequenceTokenAccuracy', 'SequenceTokenTopKAccuracy'):
    if a.get('logits_mask') is not None:
      # the metric adds the mask to float32 scores: do the addition in float32 (IEEE-identical), then widen
      p = (np.asarray(p, np.float32) + np.asarray(a['logits_mask'], np.float32)).astype(np.float64)
    if name == 'SequenceTokenAccuracy':
      correct = np.array([float(r_argmax(p[i]) == int(y[i])) for i in range(L)])
    else:
      correct = np.array([r_topk_correct(p[i], int(y[i]), a['k']) for i in range(L)])
    if a['per_position']:
      return r_mean(correct * w, w)
    return r_mean(np.sum(correct * w), np.sum(w))
  if name == 'SequenceTokenCount':
    return r_sum(np.sum(w))
  if name == 'SequenceCount':
    return r_sum(float(np.any(w)))
  if name == 'SequenceTruncationRate':
    not_empty = float(np.any(w))
    truncated = float(not np.any(y == a['eos_target_value']))
    return r_mean(truncated * not_empty, not_empty)
  if name == 'SequenceTokenOOVRate':
    oov = np.zeros(L)
    for v in a['oov_target_values']:
      oov = np.maximum(oov, (y == v).astype(np.float64))
    if a['per_position']:
      return r_mean(oov * w, w)
    return r_mean(np.sum(oov * w), np.sum(w))
  if name == 'SequenceLength':
    return r_mean(np.sum(w), float(np.any(w)))
  raise core.Inconclusive(f'no reference for metric class {name}')


def ref_self_check():
  """The references must reproduce the literal examples of the docstrings."""
  ok = True
  st = ref_stat({'class': 'CrossEntropyLoss'}, 1, [1.2, 0.4])
  ok &= abs(float(st['accum']) - 1.1711007) < 1e-6
  st = ref_stat({'class': 'TopKAccuracy', 'k': 2}, 2, [0, 0.5, 0.2])
  ok &= float(st['accum']) == 1.0
  a = {'class': 'SequenceTokenCrossEntropyLoss', 'masked_target_values': [0], 'per_position': False}
  st = ref_stat(a, [1, 0, 1], [[1.2, 0.4], [2.3, 0.1], [0.3, 3.2]])
  ok &= abs(float(st['accum']) - 1.2246635) < 1e-6 and float(st['weight']) == 2
  st = ref_stat({'class': 'SequenceCrossEntropyLoss', 'masked_target_values': [0]}, [1, 0, 1],
                [[1.2, 0.4], [2.3, 0.1], [0.3, 3.2]])
  ok &= abs(float(st['accum']) - 1.2246635) < 1e-6 and float(st['weight']) == 1
  ninf = float('-inf')
  a = {'class': 'SequenceTokenAccuracy', 'masked_target_values': [0], 'logits_mask': [0., 0., 0., ninf],
       'per_position': True}
  st = ref_stat(a, [1, 2, 2, 1, 3, 0], [[0, 1, 0, 0], [1, 0, 0, 0], [0, 0, 1, 0], [0, 1, 0, 0], [0, 0, 0, 1],
                                        [1, 0, 0, 0]])
  ok &= st['accum'].tolist() == [1., 0., 1., 1., 0., 0.] and st['weight'].tolist() == [1., 1., 1., 1., 1., 0.]
  a = {'class': 'SequenceTokenTopKAccuracy', 'k': 2, 'masked_target_values': [0], 'logits_mask': [0., 0., 0., ninf],
       'per_position': False}
  st = ref_stat(a, [1, 2, 2, 1, 3, 0], [[0, 1, 0.5, 0], [1, 0.5, 0, 0], [0.8, 0, 0.7, 0], [0.5, 1, 0, 0],
                                        [0, 0.5, 0, 1], [0.5, 0, 0.9, 0]])
  ok &= float(st['accum']) == 3 and float(st['weight']) == 5
  st = ref_stat({'class': 'SequenceTokenCount', 'masked_target_values': [0, 2]}, [1, 2, 2, 3, 4, 0, 0], None)
  ok &= float(st['accum']) == 3
  st = ref_stat({'class': 'SequenceCount', 'masked_target_values': [0, 2]}, [0, 0, 0, 0, 0, 0, 0], None)
  ok &= float(st['accum']) == 0
  a = {'class': 'SequenceTruncationRate', 'masked_target_values': [0], 'eos_target_value': 4}
  ok &= float(ref_stat(a, [1, 2, 2, 3, 3, 3, 4], None)['accum']) == 0
  ok &= float(ref_stat(a, [1, 2, 2, 3, 3, 3, 3], None)['accum']) == 1
  a = {'class': 'SequenceTokenOOVRate', 'masked_target_values': [0], 'oov_target_values': [2], 'per_position': False}
  st = ref_stat(a, [1, 2, 2, 3, 4, 0, 0], None)
  ok &= float(st['accum']) == 2 and float(st['weight']) == 5
  st = ref_stat({'class': 'SequenceLength', 'masked_target_values': [0]}, [1, 2, 3, 4, 0, 0], None)
  ok &= float(st['accum']) == 4 and float(st['weight']) == 1
  st = ref_stat({'class': 'ConfusionMatrix', 'num_classes': 3}, 2, [0., 1., 0.])
  ok &= st['accum'].tolist() == [[0, 0, 0], [0, 0, 0], [0, 1, 0]]
  if not ok:
    raise core.Inconclusive('float64 metric references do not reproduce the docstring examples')


# ================================================================ observed values
def fields(stat):
  """(type name, {field: float64 array}) of a real fedjax Stat."""
  out = {'accum': np.asarray(stat.accum).astype(np.float64)}
  if hasattr(stat, 'weight'):
    out['weight'] = np.asarray(stat.weight).astype(np.float64)
  return type(stat).__name__, out


def fits(small, big):
  try:
    return np.broadcast_shapes(tuple(small), tuple(big)) == tuple(big)
  except ValueError:
    return False


def xclose(got, ref):
  """|got-ref| <= 1e-5 (1 + |ref|), same shape, NaN never accepted."""
  got, ref = np.asarray(got, np.float64), np.asarray(ref, np.float64)
  if got.shape != ref.shape:
    return False
  if np.any(np.isnan(got)):
    return False
  with np.errstate(invalid='ignore'):
    return bool(np.all((np.abs(got - ref) <= 1e-5 * (1.0 + np.abs(ref))) | (got == ref)))


def edge_flags(a, C, y, pred):
  """Domain edges shown by a case, most specific first (used for mechanism keys and non-triviality)."""
  ba = mg.base_args(a)
  flags = []
  k = ba.get('k')
  if k is not None:
    if k < 0:
      flags.append('negative-k')
    elif k == 0:
      flags.append('zero-k')
    elif k >= C:
      flags.append('k-ge-classes')
  if ba['class'] == 'SequenceTokenOOVRate':
    n = len(set(ba['oov_target_values']))
    if n >= 2:
      flags.append('multi-oov-values')
    elif n == 0:
      flags.append('no-oov-values')
  masked = tuple(ba.get('masked_target_values', ()))
  yy = np.asarray(y)
  if yy.ndim == 1 and masked:
    w = r_weights(yy, masked)
    if not np.any(w):
      flags.append('fully-masked')
    elif not np.all(w):
      flags.append('masked-token')
  if pred is not None and ba['class'] not in NO_PRED:
    p = np.asarray(pred, np.float64)
    if ba.get('logits_mask') is not None:
      flags.append('logits-mask')
      p = (np.asarray(p, np.float32) + np.asarray(ba['logits_mask'], np.float32)).astype(np.float64)
      lm_ = np.asarray(ba['logits_mask'], np.float64)
      if np.any((lm_ != 0) & ~np.isneginf(lm_)):
        flags.append('logits-mask-finite-bias')
    if mg.has_tie(p):
      flags.append('tie')
    if np.any(np.abs(np.asarray(pred, np.float64)) >= 1e29):
      flags.append('extreme')
  if ba.get('per_position'):
    flags.append('per-position')
  if 'base' in a and a['num_domains'] > 1:
    flags.append('multi-domain')
  return flags


NO_PRED = ('SequenceTokenCount', 'SequenceCount', 'SequenceTruncationRate', 'SequenceTokenOOVRate', 'SequenceLength')
_EDGE_COUNTER = {'negative-k': 'k<1', 'zero-k': 'k<1', 'k-ge-classes': 'k>=C'}


def jax_leaves(x):
  import jax
  return jax.tree_util.tree_leaves(x)


def _doubling_fits(field, ref):
  """Twice the reference is representable in the field's own dtype (else doubling legitimately overflows)."""
  dt = np.asarray(field).dtype
  if dt.kind == 'f' or str(dt) == 'bfloat16':
    import jax.numpy as jnp
    lim = float(jnp.finfo(dt).max)
  elif dt.kind in 'iu':
    lim = float(np.iinfo(dt).max)
  else:
    return True
  r = np.asarray(ref, np.float64)
  return bool(np.all(np.isfinite(r))) and (r.size == 0 or 2.0 * float(np.max(np.abs(r))) < 0.49 * lim)


def compare(ctx, fam, got_stat, ref, flags, wit):
  """Judges one real statistic against the reference; mechanism key = family/<edge>-<what differs>."""
  edge = flags[0] if flags else 'plain'
  tname, got = fields(got_stat)
  w = dict(wit, got={k: v for k, v in got.items()}, ref={k: v for k, v in ref.items() if k != 'type'})
  if not ctx.check(tname == ref['type'], f'{fam}/stat-type', f'statistic is a {tname}, reference {ref["type"]}', w):
    return False
  ok = True
  for f in ('weight', 'accum'):
    if f not in ref:
      continue
    g, r = got[f], ref[f]
    if g.shape != r.shape:
      ok = ctx.check(False, f'{fam}/{edge}-{f}-shape', f'{f} has shape {g.shape}, reference {r.shape}', w)
    elif np.any(np.isnan(g)):
      ok = ctx.check(False, f'{fam}/{edge}-{f}-nan', f'{f} is NaN', w)
    elif not xclose(g, r):
      mech = f'{edge}-{f}'
      if edge == 'negative-k' and f == 'accum' and not np.any(r):
        mech = 'negative-k-nonzero'       # documented: "k < 1 will return 0"
      elif edge == 'zero-k' and f == 'accum' and not np.any(r):
        mech = 'zero-k-nonzero'
      elif edge == 'k-ge-classes' and f == 'accum':
        mech = 'k-ge-classes-not-one'
      ok = ctx.check(False, f'{fam}/{mech}', f'{f} differs from the float64 reference', w)
    else:
      ctx.check(True, f'{fam}/{f}', '')
    if not ok:
      return False
  # the statistic is a NUMBER in the metric's monoid, not merely something that compares equal to it (True == 1.0): merged
  # with itself its fields are twice the reference fields
  try:
    _, twice = fields(got_stat.merge(got_stat))
    bad = next((f for f in ('weight', 'accum') if f in ref and _doubling_fits(getattr(got_stat, f), ref[f])
                and not xclose(twice[f], 2.0 * ref[f])), None)
  except Exception as e:  # pylint: disable=broad-except
    twice, bad = repr(e)[:200], 'merge-raises'
  ctx.count('hit:stat-merged-with-itself')
  if not ctx.check(bad is None, f'{fam}/stat-merged-with-itself-not-twice',
                   'the single-example statistic merged with itself is not twice the reference statistic (its fields are '
                   f'not numbers of the statistic\'s monoid: dtypes {[str(getattr(x, "dtype", type(x))) for x in jax_leaves(got_stat)]})',
                   dict(w, merged_with_itself=twice, field=bad)):
    return False
  res = np.asarray(got_stat.result()).astype(np.float64)
  rres = r_result(ref)
  if np.any(np.isnan(res)):
    return ctx.check(False, f'{fam}/{edge}-result-nan', 'result() is NaN', dict(w, result=res))
  return ctx.check(xclose(res, rres), f'{fam}/{edge}-result', 'result() differs from the reference accum/weight (0 when weight is 0)',
                   dict(w, result=res, ref_result=rres))


# ==================================================================== generators
def lattice(quick):
  if quick:
    return list(itertools.product((2, 3, 5, 9), (1, 2, 4, 7)))
  return list(itertools.product(range(2, 10), range(1, 8)))


def gen_example(rng, a, C, L, D):
  """One in-domain example for the metric described by `a` -> (example dict values, info)."""
  ba = mg.base_args(a)
  group = mg.GROUP[ba['class']]
  kind = mg.SCORE_KINDS[rng.randint(len(mg.SCORE_KINDS))]
  if group == mg.CLS:
    y = np.int32(rng.randint(0, C))
    pred = mg.make_scores(rng, 1, C, kind)[0]
  else:
    pattern = mg.SEQ_PATTERNS[rng.randint(len(mg.SEQ_PATTERNS))]
    y = mg.make_seq_target(rng, C, L, mg.metric_masked(a), pattern)
    if ba['class'] == 'SequenceTruncationRate' and rng.rand() < 0.4 and ba['eos_target_value'] < C:
      y = y.copy()
      y[rng.randint(L)] = ba['eos_target_value']      # EOS present
    pred = mg.make_scores(rng, L, C, kind)
  dom = np.int32(rng.randint(0, D))
  return y, pred, dom


def digest(*arrays):
  import hashlib
  m = hashlib.sha256()
  for x in arrays:
    x = np.ascontiguousarray(x)
    m.update(str(x.dtype).encode() + str(x.shape).encode() + x.tobytes())
  return m.hexdigest()[:16]


def keys_choice(rng):
  tkey = 'y' if rng.rand() < 0.7 else 'label'
  pkey = None if rng.rand() < 0.6 else 'logits'
  dkey = 'domain_id' if rng.rand() < 0.7 else 'dom'
  return tkey, pkey, dkey


def pack(jnp, a, tkey, pkey, dkey, y, pred, dom, numpy_inputs=False):
  if numpy_inputs:
    # plain (writable) NumPy arrays, as batches coming out of a ClientDataset are: the caller keeps using them afterwards
    ex = {tkey: np.array(y), dkey: np.array(dom)}
    p = np.array(pred)
  else:
    ex = {tkey: jnp.asarray(y), dkey: jnp.asarray(dom)}
    p = jnp.asarray(pred)
  return ex, (p if pkey is None else {pkey: p})


def count_edges(ctx, flags):
  for f in set(_EDGE_COUNTER.get(f, f) for f in flags):
    ctx.count('edge:' + f)


def run_narrow(ctx, jax, jnp, M, rng, case_no):
  """Targets / domain ids stored in narrow integer dtypes (uint8, int8, int16 -- as label columns often are) with MORE classes /
  domains than that dtype can count: every label value still fits, so the example is in the domain and the statistic must be
  the same as for int32 labels."""
  tdt = [np.uint8, np.int8, np.int16, np.uint16][case_no % 4]
  top = {np.uint8: 255, np.int8: 127, np.int16: 32767, np.uint16: 65535}[tdt]
  C = int([130, 200, 257, 300, 700][rng.randint(5)])
  hi = min(C - 1, top)
  L = int(rng.randint(1, 5))
  wit0 = {'family': 'narrow-target-dtype', 'target_dtype': np.dtype(tdt).name, 'C': C}
  # classification
  y = int([0, hi, rng.randint(0, hi + 1)][rng.randint(3)])
  pred = mg.make_scores(rng, 1, C, ['random', 'ties', 'ints'][rng.randint(3)])[0]
  for name, metric, a in (
      ('CrossEntropyLoss', M.CrossEntropyLoss(), {'class': 'CrossEntropyLoss'}),
      ('Accuracy', M.Accuracy(), {'class': 'Accuracy'}),
      ('TopKAccuracy', M.TopKAccuracy(k=3), {'class': 'TopKAccuracy', 'k': 3}),
      ('ConfusionMatrix', M.ConfusionMatrix(num_classes=C), {'class': 'ConfusionMatrix', 'num_classes': C}),
  ):
    wit = {**wit0, 'metric': a, 'target': y, 'scores_head': pred[:8]}
    r = ctx.call(f'{name}.evaluate_example', metric.evaluate_example, {'y': jnp.asarray(np.asarray(y, tdt))}, jnp.asarray(pred), witness=wit)
    if r.ok:
      ctx.count('hit:narrow-target-dtype')
      compare(ctx, FAMILY[name], r.value, ref_stat(a, y, pred), ['narrow-target-dtype'], wit)
  # sequences
  ys = rng.randint(0, hi + 1, size=L)
  ys[rng.randint(L)] = hi
  preds = mg.make_scores(rng, L, C, 'random')
  for name, metric, a in (
      ('SequenceTokenCrossEntropyLoss', M.SequenceTokenCrossEntropyLoss(masked_target_values=(0,)),
       {'class': 'SequenceTokenCrossEntropyLoss', 'masked_target_values': (0,), 'per_position': False}),
      ('SequenceCrossEntropyLoss', M.SequenceCrossEntropyLoss(masked_target_values=(0,)),
       {'class': 'SequenceCrossEntropyLoss', 'masked_target_values': (0,)}),
      ('SequenceTokenAccuracy', M.SequenceTokenAccuracy(masked_target_values=(0,)),
       {'class': 'SequenceTokenAccuracy', 'masked_target_values': (0,), 'per_position': False, 'logits_mask': None}),
  ):
    wit = {**wit0, 'metric': a, 'target': ys}
    r = ctx.call(f'{name}.evaluate_example', metric.evaluate_example, {'y': jnp.asarray(ys.astype(tdt))}, jnp.asarray(preds), witness=wit)
    if r.ok:
      ctx.count('hit:narrow-target-dtype')
      compare(ctx, FAMILY[name], r.value, ref_stat(a, ys, preds), ['narrow-target-dtype'], wit)
  # per-domain wrapper: more domains than the id dtype can count
  D = int([130, 257, 300][rng.randint(3)])
  dom = int(min(D - 1, top, rng.randint(0, D)))
  pd = M.PerDomainMetric(M.Accuracy(), num_domains=D, domain_id_key='domain_id')
  y2 = int(rng.randint(0, 5))
  p2 = mg.make_scores(rng, 1, 5, 'random')[0]
  wit = {**wit0, 'metric': 'PerDomainMetric(Accuracy)', 'num_domains': D, 'domain_id': dom}
  r = ctx.call('PerDomainMetric.evaluate_example', pd.evaluate_example,
               {'y': jnp.asarray(np.int32(y2)), 'domain_id': jnp.asarray(np.asarray(dom, tdt))}, jnp.asarray(p2), witness=wit)
  if r.ok:
    _, f = fields(r.value)
    want_w = np.zeros(D)
    want_w[dom] = 1.0
    want_a = want_w * float(r_argmax(np.asarray(p2, np.float64)) == y2)
    ctx.count('hit:narrow-target-dtype')
    ctx.check(f['weight'].shape == (D,) and bool(np.array_equal(f['weight'], want_w)) and bool(np.array_equal(f['accum'], want_a)),
              'perdomain/narrow-domain-id-dtype', f'PerDomainMetric with {np.dtype(tdt).name} domain id {dom} of {D} domains: weight is '
              f'non-zero at {np.flatnonzero(f["weight"]).tolist()}, expected [{dom}]', wit)
  ctx.case_done(('narrow', np.dtype(tdt).name, C, y, D, dom), sample=wit0, klass=['narrow-target-dtype'])


def run_half(ctx, jax, jnp, M, rng, case_no):
  """Half-precision scores (float16 / bfloat16): statistics must not be accumulated in the scores' dtype -- long sequences whose
  summed loss exceeds the float16 range (65504) and the bfloat16 integer range (256), judged against the float64 definition
  applied to the half-rounded scores with a half-precision tolerance per token."""
  dt, eps = [(jnp.float16, 2.0**-10), (jnp.bfloat16, 2.0**-7)][case_no % 2]
  L = int([8192, 9001, 12000, 300][case_no % 4]) if case_no % 8 < 6 else int(rng.randint(2, 40))
  C = int(rng.randint(2, 5))
  y = rng.randint(0, C, size=L).astype(np.int32)
  sc = rng.randn(L, C)
  wrong = (y + 1) % C
  sc[np.arange(L), wrong] += rng.uniform(8.0, 12.0, size=L)        # confidently wrong: loss ~ 10 per token
  p = jnp.asarray(sc).astype(dt)
  sc_r = np.asarray(p.astype(jnp.float32), np.float64)               # the values the metric actually receives
  per = np.array([r_xent(sc_r[r], int(y[r])) for r in range(L)])
  tol_tok = 8 * eps * (np.abs(per) + np.max(np.abs(sc_r), axis=1) + 1.0)
  wit = {'scores_dtype': str(np.dtype(dt)) if dt is jnp.float16 else 'bfloat16', 'tokens': L, 'classes': C, 'sum_of_token_losses': float(per.sum())}
  for name, m, want_a, want_w in (
      ('SequenceTokenCrossEntropyLoss', M.SequenceTokenCrossEntropyLoss(masked_target_values=()), per.sum(), float(L)),
      ('SequenceCrossEntropyLoss', M.SequenceCrossEntropyLoss(masked_target_values=()), per.sum(), 1.0),
      ('SequenceTokenCrossEntropyLoss[per_position]', M.SequenceTokenCrossEntropyLoss(masked_target_values=(), per_position=True), per, np.ones(L)),
  ):
    r = ctx.call(f'{name.split("[")[0]}.evaluate_example', m.evaluate_example, {'y': jnp.asarray(y)}, p, witness={**wit, 'metric': name})
    if r.ok:
      _, f = fields(r.value)
      tol = tol_tok if np.ndim(want_a) else tol_tok.sum()
      ok = (np.shape(f['accum']) == np.shape(want_a) and not np.any(np.isnan(f['accum'])) and bool(np.all(np.abs(f['accum'] - want_a) <= tol))
            and bool(np.all(f['weight'] == want_w)))
      ctx.count('hit:half-precision-scores')
      ctx.check(ok, 'half/sequence-loss-differs-from-definition',
                f'{name} on {wit["scores_dtype"]} scores: accum {np.asarray(f["accum"]).ravel()[:3]} weight {np.asarray(f["weight"]).ravel()[:3]}; '
                f'the definition on the same (rounded) scores gives {np.ravel(want_a)[:3]} / {np.ravel(want_w)[:3]}',
                {**wit, 'metric': name, 'tolerance': float(np.max(tol))})
  # classification: many examples merged one by one (the merged statistic must not saturate either)
  n = 700 if case_no % 8 < 6 else 12
  st, tot = None, 0.0
  for j in range(n):
    row = jnp.asarray(sc[j % L]).astype(dt)
    t = int(y[j % L])
    r = ctx.call('CrossEntropyLoss.evaluate_example', M.CrossEntropyLoss().evaluate_example, {'y': jnp.asarray(np.int32(t))}, row,
                 witness={**wit, 'metric': 'CrossEntropyLoss', 'example': j})
    if not r.ok:
      st = None
      break
    st = r.value if st is None else st.merge(r.value)
    tot += per[j % L]
  if st is not None:
    _, f = fields(st)
    tol = 8 * eps * (tot + 13.0 * n)
    ctx.check(abs(float(f['accum']) - tot) <= tol and float(f['weight']) == n, 'half/merged-loss-differs-from-definition',
              f'CrossEntropyLoss merged over {n} {wit["scores_dtype"]} examples: accum {float(f["accum"])!r} weight {float(f["weight"])!r}; '
              f'definition {tot!r} / {n}', {**wit, 'metric': 'CrossEntropyLoss', 'examples': n})
  ctx.case_done(('half', case_no, L, C), sample=wit, klass=['half', 'half:' + wit['scores_dtype']])


def run_x64(ctx, jax, jnp, M):
  """64-bit mode (process started with JAX_ENABLE_X64=1): the cross-entropy metrics on float64 scores, judged at float64
  accuracy -- losses far below float32 resolution (confident predictions) and score magnitudes beyond the float32 range."""
  def xe(scores, t):
    return r_xent(np.asarray(scores, np.float64), int(t))

  def tight(got, ref):
    got, ref = np.asarray(got, np.float64), np.asarray(ref, np.float64)
    return got.shape == ref.shape and not np.any(np.isnan(got)) and bool(np.all(np.abs(got - ref) <= 1e-11 * np.abs(ref) + 1e-15))

  for cid, rng in ctx.cases('x64', 240 if ctx.quick else 4000):
    i = int(cid.split('/')[1])
    C = int(rng.randint(2, 9))
    L = int(rng.randint(1, 6))
    kind = ['random', 'confident', 'huge', 'random-offset'][i % 4]
    seq = (i // 4) % 3          # 0: CrossEntropyLoss, 1: SequenceTokenCrossEntropyLoss, 2: SequenceCrossEntropyLoss
    rows = 1 if seq == 0 else L
    y = rng.randint(0, C, size=rows)
    sc = rng.randn(rows, C) * [1.0, 30.0][rng.randint(2)]
    if kind == 'confident':
      sc = rng.randn(rows, C)
      sc[np.arange(rows), y] += rng.uniform(22.0, 34.0, size=rows)      # loss between 1e-15 and 1e-9: zero in float32
    elif kind == 'huge':
      sc = sc * 1e40                                                     # finite in float64, inf in float32
    elif kind == 'random-offset':
      sc = sc + 1e6 * (1 + rng.rand())
    per = np.array([xe(sc[r], y[r]) for r in range(rows)])
    wit = {'jax_enable_x64': True, 'metric': ['CrossEntropyLoss', 'SequenceTokenCrossEntropyLoss', 'SequenceCrossEntropyLoss'][seq],
           'scores_kind': kind, 'scores': sc, 'target': y, 'per_token_reference': per}
    if seq == 0:
      m, ex, p = M.CrossEntropyLoss(), {'y': jnp.asarray(np.int32(y[0]))}, jnp.asarray(sc[0])
      want = (per[0], 1.0)
    else:
      m = (M.SequenceTokenCrossEntropyLoss if seq == 1 else M.SequenceCrossEntropyLoss)(masked_target_values=())
      ex, p = {'y': jnp.asarray(y.astype(np.int32))}, jnp.asarray(sc)
      want = (per.sum(), float(rows)) if seq == 1 else (per.sum(), 1.0)
    if p.dtype != jnp.float64:
      raise core.HarnessError('x64 child: scores are not float64')
    r = ctx.call(f"{wit['metric']}.evaluate_example", m.evaluate_example, ex, p, witness=wit)
    if r.ok:
      _, f = fields(r.value)
      ctx.count('hit:x64-metric')
      ctx.check(tight(f['accum'], want[0]) and tight(f['weight'], want[1]), 'x64/cross-entropy-differs-at-float64-accuracy',
                f"{wit['metric']} on float64 scores under jax_enable_x64: accum {f['accum']!r} weight {f.get('weight')!r}, the "
                f'definition gives {want[0]!r} / {want[1]!r}', {**wit, 'got': f})
    ctx.case_done(('x64', seq, kind, digest(sc, y)), sample={k: v for k, v in wit.items() if k != 'per_token_reference'},
                  klass=['x64', 'x64:' + kind])


# ========================================================================= run
def run(ctx):
  import jax
  import jax.numpy as jnp
  import fedjax
  M = fedjax.metrics
  ref_self_check()
  if ctx.xproc_child == 'x64':
    if not jax.config.jax_enable_x64:
      raise core.HarnessError('x64 child started without jax_enable_x64')
    with jax.disable_jit():
      run_x64(ctx, jax, jnp, M)
    return
  found = mg.discover(fedjax)
  mg.require_generators(found)
  missing_ref = [n for n in found if n not in FAMILY]
  if missing_ref:
    raise core.Inconclusive(f'no float64 reference for {missing_ref}')
  names = sorted(found)
  plain = [n for n in names if mg.GROUP[n] != mg.WRAP]
  shapes = lattice(ctx.quick)
  scale = 1 if ctx.quick else 20
  ctx.notes['metric_classes'] = names
  ctx.notes['shape_lattice'] = [list(s) for s in shapes]

  with jax.disable_jit():
    # ---------------------------------------------------- metric vs reference
    n_metric = 4480 * scale
    for cid, rng in ctx.cases('metric', n_metric):
      i = int(cid.split('/')[1])
      C, L = shapes[i % len(shapes)]
      name = names[(i // len(shapes)) % len(names)]
      tkey, pkey, dkey = keys_choice(rng)
      D = int(rng.randint(1, 5))
      if mg.GROUP[name] == mg.WRAP:
        bname = plain[rng.randint(len(plain))]
        base = mg.make_metric(M, bname, rng, C, L, tkey, pkey)
        metric, a = mg.make_metric(M, name, rng, C, L, tkey, pkey, dkey, D, base=base)
      else:
        base = None
        metric, a = mg.make_metric(M, name, rng, C, L, tkey, pkey)
      y, pred, dom = gen_example(rng, a, C, L, D)
      numpy_inputs = (i // (len(shapes) * len(names))) % 3 == 1
      ex, p = pack(jnp, a, tkey, pkey, dkey, y, pred, dom, numpy_inputs)
      flags = edge_flags(a, C, y, pred)
      wit = {'metric': a, 'C': C, 'L': L, 'target': y, 'scores': pred, 'domain': int(dom), 'edges': flags,
             'inputs': 'numpy' if numpy_inputs else 'jax'}
      fam = FAMILY[name]
      r = ctx.call(f'{name}.evaluate_example', metric.evaluate_example, ex, p, witness=wit)
      if r.ok:
        if base is None:
          compare(ctx, fam, r.value, ref_stat(a, y, pred), flags, wit)
        else:
          check_perdomain_single(ctx, jnp, base[0], r.value, ex, p, int(dom), D, flags, wit)
      if numpy_inputs and r.ok:
        # the caller's arrays are inputs, not scratch space: unchanged after the call, and scoring them again (same metric,
        # then the plain definition-level metrics) gives what the ORIGINAL scores give
        parr = p if pkey is None else p[pkey]
        ctx.count('hit:numpy-inputs')
        intact = core.bit_equal(parr, pred) and core.bit_equal(ex[tkey], y) and core.bit_equal(ex[dkey], dom)
        ctx.check(intact, 'inputs/evaluate_example-modified-its-arguments',
                  'evaluate_example changed the caller\'s NumPy example / prediction arrays in place',
                  dict(wit, prediction_after=parr, target_after=ex[tkey]))
        r2 = ctx.call(f'{name}.evaluate_example', metric.evaluate_example, ex, p, witness=dict(wit, call='second, same arrays'))
        if r2.ok:
          n1, f1 = fields(r.value)
          n2, f2 = fields(r2.value)
          same = n1 == n2 and all(core.bit_equal(f1[k], f2[k]) for k in f1)
          ctx.check(same, 'inputs/second-evaluation-of-same-arrays-differs',
                    'evaluating the same metric on the same NumPy arrays a second time gives a different statistic',
                    dict(wit, first=f1, second=f2))
      count_edges(ctx, flags)
      ctx.case_done((repr(a), C, L, digest(y, pred), int(dom)) if flags else None, sample=wit,
                    klass=[name] + ['edge:' + f for f in flags])

    # ------------------------------------------------------ top-1 == accuracy
    for cid, rng in ctx.cases('top1', 500 * scale):
      i = int(cid.split('/')[1])
      C, L = shapes[i % len(shapes)]
      tkey, pkey, dkey = keys_choice(rng)
      seq = bool(i // len(shapes) % 2)
      if seq:
        m_acc, a = mg.make_metric(M, 'SequenceTokenAccuracy', rng, C, L, tkey, pkey)
        m_top = M.SequenceTokenTopKAccuracy(k=1, target_key=tkey, pred_key=pkey,
                                            masked_target_values=tuple(a['masked_target_values']),
                                            logits_mask=None if a['logits_mask'] is None else tuple(a['logits_mask']),
                                            per_position=a['per_position'])
      else:
        m_acc, a = mg.make_metric(M, 'Accuracy', rng, C, L, tkey, pkey)
        m_top = M.TopKAccuracy(k=1, target_key=tkey, pred_key=pkey)
      y, pred, dom = gen_example(rng, a, C, L, 1)
      if rng.rand() < 0.5:     # force a tie for the maximum in every row
        pred = pred.copy().reshape(-1, C)
        for row in pred:
          row[rng.choice(C, size=rng.randint(2, C + 1), replace=False)] = row.max()
        pred = pred.reshape((L, C) if seq else (C,))
      ex, p = pack(jnp, a, tkey, pkey, dkey, y, pred, dom)
      flags = edge_flags(a, C, y, pred)
      wit = {'accuracy': a, 'C': C, 'L': L, 'target': y, 'scores': pred, 'edges': flags}
      ra = ctx.call('Accuracy.evaluate_example', m_acc.evaluate_example, ex, p, witness=wit)
      rt = ctx.call('TopKAccuracy(k=1).evaluate_example', m_top.evaluate_example, ex, p, witness=wit)
      if ra.ok and rt.ok:
        _, fa = fields(ra.value)
        _, ft = fields(rt.value)
        same = all(fa[f].shape == ft[f].shape and np.array_equal(fa[f], ft[f]) for f in ('accum', 'weight'))
        edge = 'tie-' if 'tie' in flags else ''
        ctx.check(same, f'top1/{edge}{"sequence-" if seq else ""}top1-differs-from-accuracy',
                  'top-1 accuracy statistic differs from the accuracy statistic', dict(wit, accuracy_stat=fa, top1_stat=ft))
      count_edges(ctx, flags)
      ctx.case_done((seq, repr(a), C, L, digest(y, pred)) if flags else None, sample=wit,
                    klass=['top1-seq' if seq else 'top1'] + ['edge:' + f for f in flags])

    # ---------------------------------------- ties broken toward the lowest index
    for cid, rng in ctx.cases('tie', 500 * scale):
      i = int(cid.split('/')[1])
      C, L = shapes[i % len(shapes)]
      if rng.rand() < 0.3:
        C = [17, 24, 40][rng.randint(3)]     # an unstable sort only shows beyond ~16 elements on the CPU backend
      check_tie_case(ctx, M, jnp, rng, C, (i // len(shapes)) % 3)

    # ------------------------------------------- confusion matrix identities
    for cid, rng in ctx.cases('cmident', 260 * scale):
      i = int(cid.split('/')[1])
      C, _ = shapes[i % len(shapes)]
      check_confusion(ctx, M, jnp, rng, C)

    # ------------------------------------------- narrow integer label dtypes with more classes than they can count
    for cid, rng in ctx.cases('narrow', 80 * scale):
      run_narrow(ctx, jax, jnp, M, rng, int(cid.split('/')[1]))

    # ------------------------------------------- half-precision scores, long sequences / many merges
    for cid, rng in ctx.cases('half', 16 * scale):
      run_half(ctx, jax, jnp, M, rng, int(cid.split('/')[1]))

    # --------------------------------------------------- per-domain slices
    for cid, rng in ctx.cases('pdslice', 300 * scale):
      i = int(cid.split('/')[1])
      C, L = shapes[i % len(shapes)]
      check_perdomain_multi(ctx, M, jnp, rng, C, L, plain[(i // len(shapes)) % len(plain)])

  # configuration the metrics must be indifferent to: 64-bit mode with float64 scores (fresh interpreter, JAX_ENABLE_X64=1)
  if ctx.replay_case is None or ctx.replay_case.startswith('x64/'):
    from vmon import xproc
    ctx.absorb(xproc.run_family(ctx, 'vmon.checks.c14', 'x64', env={'JAX_ENABLE_X64': '1'}))


# ------------------------------------------------------------------ sub-checks
def check_perdomain_single(ctx, jnp, base_metric, got, ex, p, dom, D, flags, wit):
  """Slice `dom` of the per-domain statistic == the base metric's statistic; other slices == base zero."""
  edge = flags[0] if flags else 'plain'
  b = base_metric.evaluate_example(ex, p)
  tb, fb = fields(b)
  tg, fg = fields(got)
  _, fz = fields(base_metric.zero())
  w = dict(wit, per_domain=fg, base=fb)
  if not ctx.check(tg == tb, 'perdomain/stat-type', f'per-domain statistic is a {tg}, base {tb}', w):
    return
  for f in fb:
    if not ctx.check(fg[f].shape == (D,) + fb[f].shape, 'perdomain/shape',
                     f'{f} has shape {fg[f].shape}, documented (num_domains,) + {fb[f].shape}', w):
      return
    for d in range(D):
      if d == dom:
        ctx.check(np.array_equal(fg[f][d], fb[f]), 'perdomain/own-slice-differs-from-base',
                  f'{f}[{d}] differs from the base metric on the same example', w)
      else:
        ctx.check(np.array_equal(fg[f][d], np.broadcast_to(fz[f], fb[f].shape)), 'perdomain/other-slice-not-zero',
                  f'{f}[{d}] of a domain the example does not belong to is not the base zero', w)
  res = np.asarray(got.result()).astype(np.float64)
  bres = np.asarray(b.result()).astype(np.float64)
  exp = np.zeros((D,) + bres.shape)
  exp[dom] = bres
  ctx.check(res.shape == exp.shape and not np.any(np.isnan(res)) and xclose(res, exp), f'perdomain/{edge}-result',
            'per-domain result() is not the base result in the own slice and 0 elsewhere', dict(w, result=res, expected=exp))


def check_tie_case(ctx, M, jnp, rng, C, which):
  """A tied group straddles the decision boundary; only the lowest indices of the group may win."""
  group = np.sort(rng.choice(C, size=rng.randint(2, C + 1), replace=False))
  n_above = int(rng.randint(0, C - len(group) + 1))
  others = [c for c in range(C) if c not in group]
  rng.shuffle(others)
  above, below = others[:n_above], others[n_above:]
  scale = [1.0, 1e30][rng.randint(2)]
  s = np.zeros(C)
  tie_val = float(rng.randint(-2, 3)) * 0.5 * scale
  s[group] = tie_val
  s[above] = tie_val + (1.0 + rng.rand(len(above))) * scale
  s[below] = tie_val - (1.0 + rng.rand(len(below))) * scale
  s = s.astype(np.float32) + np.float32(0)
  assert len(set(s[group].tolist())) == 1 and all(s[above] > s[group[0]]) and all(s[below] < s[group[0]])
  t = int(group[rng.randint(len(group))])
  pos_in_group = int(np.sum(group < t))
  rank = n_above + pos_in_group            # documented order: lowest index first among equals
  wit = {'C': C, 'scores': s, 'target': t, 'tied_classes': group, 'classes_above': n_above, 'expected_rank': rank}
  ctx.count('edge:tie')
  if which == 0:
    k = int(rng.randint(n_above + 1, n_above + len(group))) if rng.rand() < 0.8 else int(rng.randint(1, C))
    exp = float(rank < k)
    L = int(rng.randint(1, 4))
    if rng.rand() < 0.5:
      r = ctx.call('TopKAccuracy.evaluate_example', M.TopKAccuracy(k=k).evaluate_example, {'y': jnp.asarray(np.int32(t))},
                   jnp.asarray(s), witness=wit)
      got = None if not r.ok else float(np.asarray(r.value.accum))
      name = 'TopKAccuracy'
    else:
      yy = np.full(L, t, np.int32)
      r = ctx.call('SequenceTokenTopKAccuracy.evaluate_example',
                   M.SequenceTokenTopKAccuracy(k=k, masked_target_values=()).evaluate_example, {'y': jnp.asarray(yy)},
                   jnp.asarray(np.tile(s, (L, 1))), witness=wit)
      got = None if not r.ok else float(np.asarray(r.value.accum)) / L
      name = 'SequenceTokenTopKAccuracy'
    if got is not None:
      ctx.check(got == exp, f'tie/{name}-not-lowest-index-first',
                f'k={k}: target of rank {rank} among tied classes judged {got}, documented order gives {exp}',
                dict(wit, k=k))
    klass = 'tie-topk'
  else:
    # argmax based metrics: the predicted class must be the lowest tied index when nothing is above the group
    if n_above:
      s = s.copy()
      s[above] = s[group[0]] - np.float32(scale)
      wit['scores'] = s
    exp_pred = int(group[0])
    exp = float(t == exp_pred)
    if which == 1:
      if rng.rand() < 0.5:
        r = ctx.call('Accuracy.evaluate_example', M.Accuracy().evaluate_example, {'y': jnp.asarray(np.int32(t))},
                     jnp.asarray(s), witness=wit)
        got = None if not r.ok else float(np.asarray(r.value.accum))
        name = 'Accuracy'
      else:
        L = int(rng.randint(1, 4))
        r = ctx.call('SequenceTokenAccuracy.evaluate_example',
                     M.SequenceTokenAccuracy(masked_target_values=()).evaluate_example,
                     {'y': jnp.asarray(np.full(L, t, np.int32))}, jnp.asarray(np.tile(s, (L, 1))), witness=wit)
        got = None if not r.ok else float(np.asarray(r.value.accum)) / L
        name = 'SequenceTokenAccuracy'
      if got is not None:
        ctx.check(got == exp, f'tie/{name}-not-lowest-index',
                  f'maximum tied among {group.tolist()}: target {t} judged {got}, lowest-index rule gives {exp}', wit)
    else:
      r = ctx.call('ConfusionMatrix.evaluate_example', M.ConfusionMatrix(num_classes=C).evaluate_example,
                   {'y': jnp.asarray(np.int32(t))}, jnp.asarray(s), witness=wit)
      if r.ok:
        m = np.asarray(r.value.accum)
        ctx.check(m.shape == (C, C) and m[t, exp_pred] == 1 and m.sum() == 1, 'tie/ConfusionMatrix-not-lowest-index',
                  f'maximum tied among {group.tolist()}: count not at (target {t}, predicted {exp_pred})',
                  dict(wit, matrix=m))
    klass = 'tie-argmax'
  ctx.case_done((which, C, digest(s), t), sample=wit, klass=[klass])


def check_confusion(ctx, M, jnp, rng, C):
  """trace/total == accuracy, total == number of real examples (merged one by one, and a masked batch)."""
  import jax
  n = int(rng.randint(1, 7))
  kind = mg.SCORE_KINDS[rng.randint(len(mg.SCORE_KINDS))]
  ys = rng.randint(0, C, size=n).astype(np.int32)
  if rng.rand() < 0.4:   # make many predictions correct so that the trace is not trivially small
    preds = mg.make_scores(rng, n, C, kind)
    preds[np.arange(n), ys] = np.max(preds, axis=1) + np.float32(1.0 if kind not in ('extreme', 'tie-extreme') else 0)
  else:
    preds = mg.make_scores(rng, n, C, kind)
  cm, acc = M.ConfusionMatrix(num_classes=C), M.Accuracy()
  wit = {'C': C, 'targets': ys, 'scores': preds}
  ref = np.zeros((C, C))
  for i in range(n):
    ref[ys[i], r_argmax(preds[i].astype(np.float64))] += 1

  def fold():
    sc, sa = cm.zero(), acc.zero()
    for i in range(n):
      e, p = {'y': jnp.asarray(ys[i])}, jnp.asarray(preds[i])
      sc = sc.merge(cm.evaluate_example(e, p))
      sa = sa.merge(acc.evaluate_example(e, p))
    return np.asarray(sc.result()).astype(np.float64), float(np.asarray(sa.result()))

  r = ctx.call('ConfusionMatrix fold', fold, witness=wit)
  if r.ok:
    m, a = r.value
    w = dict(wit, matrix=m, accuracy=a)
    ctx.check(m.shape == (C, C) and np.array_equal(m, ref), 'cmident/merged-counts', 'merged confusion matrix is not the '
              'count of (target, lowest-index argmax) pairs', dict(w, ref=ref))
    ctx.check(m.sum() == n, 'cmident/total-not-example-count', f'matrix total {m.sum()} != {n} examples', w)
    ctx.check(m.sum() > 0 and abs(np.trace(m) / m.sum() - a) <= 1e-6, 'cmident/trace-over-total-not-accuracy',
              f'trace/total = {np.trace(m)}/{m.sum()} but accuracy = {a}', w)
  # masked batch of fixed size 6: only the real rows count
  B = 6
  mask = np.zeros(B, bool)
  mask[rng.choice(B, size=n, replace=False)] = True
  by = rng.randint(0, C, size=B).astype(np.int32)
  bp = mg.make_scores(rng, B, C, 'random')
  by[mask], bp[mask] = ys, preds
  r = ctx.call('evaluate_batch(ConfusionMatrix)', lambda: (
      np.asarray(M.evaluate_batch(cm, {'y': jnp.asarray(by)}, jnp.asarray(bp), jnp.asarray(mask)).result()),
      float(np.asarray(M.evaluate_batch(acc, {'y': jnp.asarray(by)}, jnp.asarray(bp), jnp.asarray(mask)).result()))),
               witness=wit)
  if r.ok:
    m, a = r.value
    m = m.astype(np.float64)
    w = dict(wit, mask=mask, batch_targets=by, batch_scores=bp, matrix=m, accuracy=a)
    ctx.check(m.shape == (C, C) and m.sum() == n, 'cmident/masked-total-not-real-count',
              f'masked batch: matrix total {m.sum()} != {n} real examples', w)
    ctx.check(np.array_equal(m, ref) and abs(np.trace(m) / max(m.sum(), 1) - a) <= 1e-6,
              'cmident/masked-trace-over-total-not-accuracy', 'masked batch: matrix or trace/total differs', dict(w, ref=ref))
  # documented rejection of a class-count mismatch
  wrong = C + int(rng.choice([-1, 1, 2]))
  r = ctx.call('ConfusionMatrix.evaluate_example', M.ConfusionMatrix(num_classes=wrong).evaluate_example,
               {'y': jnp.asarray(np.int32(0))}, jnp.asarray(preds[0]), expect=(ValueError,), witness=wit)
  ctx.check(not r.ok and isinstance(r.exc, ValueError), 'cmreject/mismatch-accepted',
            f'num_classes={wrong} with {C} scores did not raise the documented ValueError', wit)
  ctx.case_done((C, n, digest(ys, preds, mask)), sample=wit, klass=['confusion-identity'])


def check_perdomain_multi(ctx, M, jnp, rng, C, L, bname):
  """Merged per-domain statistic restricted to domain d == base metric merged over that domain's examples."""
  tkey, pkey, dkey = keys_choice(rng)
  D = int(rng.randint(1, 5))
  base = mg.make_metric(M, bname, rng, C, L, tkey, pkey)
  pd, a = mg.make_metric(M, 'PerDomainMetric', rng, C, L, tkey, pkey, dkey, D, base=base)
  n = int(rng.randint(1, 7))
  exs = [gen_example(rng, a, C, L, D) for _ in range(n)]
  if D > 1 and rng.rand() < 0.5:     # leave at least one domain empty
    empty = int(rng.randint(D))
    exs = [(y, p, np.int32((empty + 1) % D) if d == empty else d) for y, p, d in exs]
  if bname == 'CrossEntropyLoss' and C >= 2 and rng.rand() < 0.6 and exs[-1][1] is not None:
    # finite but extreme scores: the base loss of this ONE example overflows to inf in float32; the slices of all other
    # domains must be untouched by it (a select, not 0 * inf)
    y0, p0, d0 = exs[-1]   # merged LAST: MeanStat.new would sanitise a NaN row whose weight is still 0
    # target score -3e38, every other score +3e38: only the TARGET's log-probability underflows to -inf, so the base
    # loss is exactly +inf (not NaN, which 0 * -inf on a non-target class would give)
    p_ext = np.full_like(np.asarray(p0, np.float32), np.float32(3e38))
    yy = np.asarray(y0).reshape(-1)
    pe = p_ext.reshape(len(yy), C)
    for t in range(len(yy)):
      pe[t, int(yy[t])] = np.float32(-3e38)
    exs[-1] = (y0, pe.reshape(np.asarray(p0).shape), d0)
    ctx.count('pdslice:overflowing-example')
  doms = [int(d) for _, _, d in exs]
  wit = {'metric': a, 'C': C, 'L': L, 'domains': doms, 'targets': [e[0] for e in exs], 'scores': [e[1] for e in exs]}

  # A per-position base has a scalar zero; PerDomainMetric.zero() is then not mergeable with its own statistics (judged
  # once, under zero/perdomain-per-position-base-unmergeable, in the `metric` family). The slices are still checked
  # here by starting that fold from the first statistic.
  pp = bool(base[1].get('per_position'))

  def fold():
    s = None if pp else pd.zero()
    per = [base[0].zero() for _ in range(D)]
    for y, pred, dom in exs:
      ex, p = pack(jnp, a, tkey, pkey, dkey, y, pred, dom)
      v = pd.evaluate_example(ex, p)
      s = v if s is None else s.merge(v)
      per[int(dom)] = per[int(dom)].merge(base[0].evaluate_example(ex, p))
    return s, per

  r = ctx.call('PerDomainMetric fold', fold, witness=wit)
  if r.ok:
    s, per = r.value
    _, fs = fields(s)
    res = np.asarray(s.result()).astype(np.float64)
    for d in range(D):
      _, fb = fields(per[d])
      bres = np.asarray(per[d].result()).astype(np.float64)
      w = dict(wit, domain=d, per_domain={f: fs[f][d] for f in fs}, base=fb)
      ok = all(fits(fb[f].shape, fs[f][d].shape) and xclose(fs[f][d], np.broadcast_to(
          fb[f], fs[f][d].shape)) for f in fb)
      empty = d not in doms
      ctx.check(ok, 'pdslice/' + ('empty-domain-not-zero' if empty else 'slice-differs-from-base'),
                f'merged per-domain statistic of domain {d} differs from the base metric over that domain', w)
      ctx.check(not np.any(np.isnan(res[d])) and fits(bres.shape, res[d].shape) and xclose(res[d], np.broadcast_to(bres, res[d].shape)),
                'pdslice/' + ('empty-domain-result' if empty else 'result-differs-from-base'),
                f'per-domain result of domain {d} differs from the base result', dict(w, result=res[d], base_result=bres))
    ctx.klass('pd-empty-domain' if len(set(doms)) < D else 'pd-all-domains')
  ctx.case_done((repr(a), C, L, tuple(doms), digest(*[e[0] for e in exs], *[e[1] for e in exs if e[1] is not None])),
                sample=wit, klass=['perdomain-merge:' + bname])


TECHNIQUE = ('runtime monitoring: every Metric subclass (introspected) is executed eagerly on generated in-domain examples and '
             'each statistic / result is judged by a float64 NumPy reference written from its docstring, plus differential '
             'identities (top-1 vs accuracy, per-domain vs base, confusion trace vs accuracy)')
LEVEL_TEXT = ('Each built-in metric class is run on thousands of generated examples covering the constructor-argument grid and '
              'the named domain edges (ties, masked and fully masked targets, k<1, k>=classes, logits masks, +-1e30 scores, '
              'per-position, per-domain, confusion matrix) over the full (classes, length) lattice; every observed statistic is '
              'compared with an independent float64 reference and the documented identities are checked on real outputs. '
              'Held-on-observed over sampled inputs; not a proof for all inputs.')
LEVEL_NOTE = ('Trusts NumPy float64 arithmetic and the harness references (self-checked against every literal docstring example); '
              'single examples are evaluated under jax.disable_jit, the jitted/vmapped path is covered by C05.')



if __name__ == '__main__':
  from vmon import xproc as _xproc
  _xproc.child_main(_xproc.family_handler(__name__))

TECHNIQUE += '; cross-entropy metrics in a fresh interpreter under JAX_ENABLE_X64=1 at float64 accuracy; half-precision long sequences; narrow label dtypes'
TECHNIQUE += '; every single-example statistic merged with itself must be twice the reference statistic'
RULE += ' Wave-8 addition: every judged statistic is merged with itself and its fields compared with twice the reference fields (a statistic whose fields merely compare equal to the numbers, e.g. booleans, fails).'
