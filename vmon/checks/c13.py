"""C13 — Client sampling is a pure function of (seed, round number).

History-table oracle: the first observation of (dataset, seed, cohort, round) is recorded (ids, key bytes, data digests); every
later observation of the same round — after any request order, on the same sampler via set_round_num, on a fresh sampler seated
with start_round_num, on a fresh sampler + set_round_num, over the same or a re-opened dataset object — must be identical.
The streaming sampler started at round r is compared with rounds r, r+1, ... of one started at 0 over an identically seeded
shuffled_clients stream (in-memory, SQLite, subset-wrapped and sliced views).
"""
import os
import shutil
import tempfile

import numpy as np

from vmon import core
from vmon import gen

PROPERTY = 'C13'
LEVEL = 'exploration'
RULE = ('Seeded random cases. Family "get": a dataset of 2-40 clients (hostile ids incl. trailing-NUL and prefix families) '
        'exposed as in-memory / SQLite (real builder) / subset-wrapped / sliced view; 1-2 (seed, cohort) configurations with '
        'seeds from {0,1,2^31-1,2^31,2^32-1,random} and cohorts from {1,n,n-1,random}; per configuration a request program: '
        '3-6 ascending rounds, then 8-16 requests from {next, repeat a seen round, jump forward/backward, big round <= 10^6} '
        'issued through {set_round_num on the same sampler, fresh sampler with start_round_num, fresh sampler + '
        'set_round_num} over the same or a re-opened dataset object. Family "stream": UniformShuffledClientSampler over '
        'shuffled_clients(buffer 1..n+2, seed) started at 0 for 9-10 rounds, then restarted at every r in 0..6 on a '
        'same/re-opened dataset. Non-trivial: at least one (seed,cohort,round) was observed twice (get) / at least one '
        'restart with r>=1 compared (stream); distinct by (ids, kind, configuration, request program).')
RULE += (' Wave-4 addition: the first 12 (quick) / 40 (thorough) histories per family and shard are replayed in a fresh interpreter under another PYTHONHASHSEED; ids and keys of every judged (seed, round) must agree.')
# Configuration shards (vmon.run): the cases of the plain shard with the given index are run once more in a process started
# under an environment the library is supposed to be indifferent to.
CONFIGS = {'quick': [{'name': 'rbg-prng', 'env': {'JAX_DEFAULT_PRNG_IMPL': 'rbg'}, 'shard': 1}], 'thorough': [{'name': 'rbg-prng', 'env': {'JAX_DEFAULT_PRNG_IMPL': 'rbg'}, 'shard': 1}, {'name': 'unsafe-rbg-prng', 'env': {'JAX_DEFAULT_PRNG_IMPL': 'unsafe_rbg'}, 'shard': 2}, {'name': 'threefry-nonpartitionable', 'env': {'JAX_THREEFRY_PARTITIONABLE': '0'}, 'shard': 3}]}
ASSUMPTIONS = [
    'round numbers 0..10^6, seeds 0..2^32-1 (numpy RandomState domain), cohort 1..number of clients of the view',
    'the order of client_ids() may differ between implementations, so histories are kept per dataset kind; a re-opened '
    'dataset object of the same kind over the same file/mapping is the same dataset',
    'the streaming sampler may legitimately repeat a client within a round when a round straddles two shuffled passes, so '
    '"no repeated id within a round" is only monitored for UniformGetClientSampler',
    'distinct threefry keys for distinct (round, position) are expected; an accidental 64-bit collision is impossible at '
    'the observed volumes',
]
SHARDS = {'quick': 4, 'thorough': 14}
SHARD_TIMEOUT = {'quick': 600, 'thorough': 2400}
EXHAUSTIVE = {'quick': False, 'thorough': False}
_Q = {
    'mon:pure': 2500, 'mon:round': 20000, 'mon:keys': 7000, 'mon:stream': 12000,
    'req:repeat': 500, 'req:same-round-again-at-once': 100, 'hit:consumer-edited-returned-list': 2000, 'req:jump-backward': 300, 'req:jump-forward': 250, 'req:big': 300, 'req:next': 250,
    'via:set_round_num': 700, 'via:fresh-start_round_num': 400, 'via:fresh-set_round_num': 250, 'via:reopened-dataset': 300,
    'stream-restart:r>=1': 300, 'stream-restart:reopened-dataset': 150,
    'kind:mem': 25, 'kind:sql': 25, 'kind:submem': 25, 'kind:subsql': 25, 'kind:sqlslice': 25,
    'nul-family-ids': 60, 'cohort=n': 40, 'cohort=1': 30, 'round>=1e5': 300,
    'stream-seed=0': 6,
}
MIN_HITS = {'quick': dict(_Q, **{'hit:fresh-interpreter-history': 60, 'hit:big-population': 8, 'hit:population>=2^20': 3, 'hit:transient-failure-during-sample': 25}),
            'thorough': dict({k: 15 * v for k, v in _Q.items()}, **{'hit:fresh-interpreter-history': 800, 'hit:big-population': 36, 'hit:population>=2^20': 12})}
TECHNIQUE = ('runtime monitoring: history-table oracle over (seed, cohort, round) for UniformGetClientSampler under hostile '
             'request orders / fresh samplers / set_round_num, and restart-vs-from-zero differential for '
             'UniformShuffledClientSampler over identically seeded shuffled_clients streams')
LEVEL_TEXT = ('Every sample() result of the real samplers is recorded and compared with every other observation of the same '
              '(seed, cohort, round); per round: cohort size, no repeated id, ids byte-exact members of the dataset, dataset '
              'content equal to fd.get_client(id) and to the generated table, keys pairwise distinct within the round and '
              'never reused under another round number. Held-on-observed over the sampled histories.')
LEVEL_NOTE = ('Trusts NumPy/JAX array-to-bytes conversion, sha256 digests of example columns and the harness bookkeeping of the '
              'expected round number (a sampler that has just produced round r is expected to produce r+1 next).')

KINDS = ('mem', 'sql', 'submem', 'subsql', 'sqlslice')


def make_ids(rng, n):
  fam = set()
  base = bytes(rng.randint(0, 256, size=rng.randint(1, 3)).astype(np.uint8))
  r = rng.rand()
  if r < 0.5:
    fam.update([base, base + b'\x00'])
    if rng.rand() < 0.5:
      fam.add(base + b'\x00\x00')
  elif r < 0.75:
    fam.update([base, base + b'a', base + b'b'])
  fam = sorted(fam)[:n]
  rest = [x for x in gen.hostile_client_ids(rng, n) if x not in fam]
  rng.shuffle(rest)
  return sorted(fam + rest[:n - len(fam)])


def digest_of(ex):
  return tuple(sorted(gen.digest({k: np.asarray(v) for k, v in ex.items()}).items()))


def key_bytes(jax, k):
  try:
    if jax.numpy.issubdtype(k.dtype, jax.dtypes.prng_key):
      k = jax.random.key_data(k)
  except Exception:  # pylint: disable=broad-except
    pass
  a = np.asarray(k)
  return str(a.dtype).encode() + b':' + a.tobytes()


class World:
  """One logical dataset exposed through one implementation kind; hands out same / re-opened dataset objects."""

  def __init__(self, ctx, mods, rng, tmpdir, case_no, nmax=40):
    fdm, im, sq = mods
    self.ctx = ctx
    n = int(rng.randint(2, 7)) if rng.rand() < 0.4 else int(rng.randint(2, nmax + 1))
    ids = make_ids(rng, n)
    self.all_ids = ids
    table, base = {}, 0
    for c in ids:
      rows = int(rng.randint(1, 4))
      ex = {'idx': np.arange(base, base + rows, dtype=np.int64), 'x': rng.randn(rows, 2).astype(np.float32)}
      gen.freeze(ex)
      table[c] = ex
      base += rows
    self.table = table
    self.kind = KINDS[rng.randint(len(KINDS))]
    self.path = os.path.join(tmpdir, f'c{case_no}.sqlite')
    self.conns = []
    ins = list(ids)
    rng.shuffle(ins)
    self.insert_order = ins
    mapping = {c: table[c] for c in ins}
    view = list(ids)
    if self.kind in ('submem', 'subsql'):
      m = int(rng.randint(2, len(ids) + 1))
      view = sorted(ids[i] for i in rng.choice(len(ids), size=m, replace=False))
    start = None
    if self.kind == 'sqlslice':
      lo = int(rng.randint(0, len(ids) - 1))
      start = ids[lo]
      view = ids[lo:]
    self.view_ids = view
    self.idset = frozenset(view)
    self.truth = {c: digest_of(table[c]) for c in view}
    if self.kind != 'mem' and self.kind != 'submem':
      with sq.SQLiteFederatedDataBuilder(self.path) as b:
        b.add_many([(c, table[c]) for c in ins])

    def sql():
      fd = sq.SQLiteFederatedData.new(self.path)
      c = getattr(fd, '_connection', None)
      if c is not None:
        self.conns.append(c)
      return fd

    self.factory = {
        'mem': lambda: im.InMemoryFederatedData(dict(mapping)),
        'sql': sql,
        # id lists naming an id twice (overlapping lists concatenated): the subset is still a SET of clients
        'submem': lambda: fdm.SubsetFederatedData(im.InMemoryFederatedData(dict(mapping)), list(view) + list(view)[:2]),
        'subsql': lambda: fdm.SubsetFederatedData(sql(), list(view) + list(view)[-1:]),
        'sqlslice': lambda: sql().slice(start, None),
    }[self.kind]
    self.wit = {'kind': self.kind, 'all_ids': ids, 'view_ids': view if view != ids else 'all', 'insert_order': ins,
                'slice_start': start}
    self.fds = []

  def fd(self, which):
    """which=0: the original object; which=1: a re-opened object (created once)."""
    while len(self.fds) <= which:
      r = self.ctx.call('construct-dataset', self.factory, witness=self.wit)
      if not r.ok:
        return None
      self.fds.append(r.value)
    return self.fds[which]

  def close(self):
    for c in self.conns:
      try:
        c.close()
      except Exception:  # pylint: disable=broad-except
        pass
    for suffix in ('', '-journal', '-wal', '-shm'):
      try:
        os.remove(self.path + suffix)
      except OSError:
        pass

  def klass(self):
    k = ['kind:' + self.kind]
    s = set(self.view_ids)
    if any(c + b'\x00' in s for c in s):
      k.append('nul-family-ids')
    return k


def judge_round(ctx, jax, world, fd, res, cohort, rnd, keyseen, wit, fam, no_repeat):
  """Per-round monitors. Returns (ids, keys, digests) for the history table, or None if the result is unusable."""
  ok_shape = isinstance(res, list) and len(res) == cohort and all(isinstance(t, tuple) and len(t) == 3 for t in res)
  ctx.check(ok_shape, f'{fam}/cohort-size', f'sample() returned {len(res) if hasattr(res, "__len__") else "?"} entries for '
            f'cohort {cohort}', wit)
  if not isinstance(res, list) or not all(isinstance(t, tuple) and len(t) == 3 for t in res):
    return None
  ids = [t[0] for t in res]
  w = dict(wit, got_ids=ids)
  if no_repeat:
    ctx.check(len(set(ids)) == len(ids), f'{fam}/repeated-id', 'a client id is repeated within one round', w)
  ctx.check(all(isinstance(c, bytes) and bytes(c) in world.idset and len(c) == len(bytes(c)) for c in ids),
            f'{fam}/foreign-id', 'sample() returned an id that is not (byte-exact) an id of the dataset', w)
  digs = []
  for c, ds, _ in res:
    r = ctx.call('sampled-dataset.all_examples', ds.all_examples, witness=w)
    d = digest_of(r.value) if r.ok else None
    digs.append(d)
    if bytes(c) in world.idset:
      g = ctx.call('get_client', lambda c=c: fd.get_client(c).all_examples(), witness=dict(w, client=c))
      same = d is not None and g.ok and d == digest_of(g.value) and d == world.truth[bytes(c)]
      ctx.check(same, f'{fam}/dataset-mismatch', 'sampled dataset differs from fd.get_client(id) / the generated table',
                dict(w, client=c))
  keys = [key_bytes(jax, t[2]) for t in res]
  ctx.check(len(set(keys)) == len(keys), 'keys/repeated-within-round', 'two clients of one round received the same key', w)
  clash = [keyseen[k] for k in keys if k in keyseen and keyseen[k] != rnd]
  ctx.check(not clash, 'keys/repeated-across-rounds', f'a key of round {rnd} was already handed out in round(s) '
            f'{sorted(set(clash))[:5]}', w)
  for k in keys:
    keyseen.setdefault(k, rnd)
  return tuple(bytes(c) for c in ids), tuple(keys), tuple(digs)


# Per-case record of every judged sample() (family, round, via, ids, keys) when not None: compared with the same case replayed
# in a fresh interpreter under another PYTHONHASHSEED (a restart is a new PROCESS: "the same (seed, round) gives the same cohort").
TRACE = None


def compare_history(ctx, hist, hkey, obs, wit, fam, names):
  if obs is None:
    return
  if TRACE is not None:
    TRACE.append((fam, hkey, wit.get('seed', wit.get('shuffle_seed')), wit.get('cohort'), [c.hex() for c in obs[0]],
                  [k.hex() for k in obs[1]]))
  if hkey not in hist:
    hist[hkey] = (obs, wit.get('via'), wit.get('step'))
    return
  (ids0, keys0, digs0), via0, step0 = hist[hkey]
  w = dict(wit, first_via=via0, first_step=step0)
  ctx.check(obs[0] == ids0, f'{fam}/{names[0]}', 'same (seed, round) observed twice with different client ids',
            dict(w, first=ids0, now=obs[0]))
  ctx.check(obs[1] == keys0, f'{fam}/{names[1]}', 'same (seed, round) observed twice with different client keys',
            dict(w, first=[k.hex() for k in keys0], now=[k.hex() for k in obs[1]]))
  ctx.check(obs[2] == digs0, f'{fam}/{names[2]}', 'same (seed, round) observed twice with different client datasets', w)


# ------------------------------------------------------------------ family get
def draw_seed(rng):
  r = rng.rand()
  if r < 0.4:
    return int([0, 1, 2**31 - 1, 2**31, 2**32 - 1][rng.randint(5)])
  if r < 0.7:
    return int(rng.randint(0, 2**31 - 1))
  return int(rng.randint(0, 2**32 - 1, dtype=np.int64))


def draw_cohort(rng, n):
  r = rng.rand()
  if r < 0.15:
    return 1
  if r < 0.40:
    return n
  if r < 0.55:
    return max(1, n - 1)
  return int(rng.randint(1, n + 1))


def case_get(ctx, jax, cs, mods, rng, tmpdir, case_no):
  world = World(ctx, mods, rng, tmpdir, case_no)
  klass = set(world.klass())
  try:
    fd0 = world.fd(0)
    if fd0 is None:
      ctx.case_done(None, sample=world.wit, klass=['construct-failed'])
      return
    n = len(world.view_ids)
    keyseen = {}
    cfgs, programs = [], []
    twice = False
    for ci in range(int(rng.randint(1, 3))):
      seed, cohort = draw_seed(rng), draw_cohort(rng, n)
      cfgs.append((seed, cohort))
      if cohort == n:
        klass.add('cohort=n')
      if cohort == 1:
        klass.add('cohort=1')
      if seed >= 2**31:
        klass.add('seed>=2^31')
      hist, seen, prog = {}, [], []
      base_wit = dict(world.wit, seed=seed, cohort=cohort)
      r = ctx.call('UniformGetClientSampler', cs.UniformGetClientSampler, fd0, cohort, seed, witness=base_wit)
      if not r.ok:
        continue
      cur_sampler, cur_fd, cur_round = r.value, fd0, 0

      def do_sample(sampler, fd, rnd, via, step):
        wit = dict(base_wit, round=rnd, via=via, step=step, program=tuple(prog))
        rr = ctx.call('sample', sampler.sample, witness=wit)
        if not rr.ok:
          return False
        obs = judge_round(ctx, jax, world, fd, rr.value, cohort, rnd, keyseen, wit, 'round', True)
        compare_history(ctx, hist, rnd, obs, wit, 'pure', ('ids-differ', 'keys-differ', 'data-differ'))
        # the consumer now does what it likes with ITS list (drops stragglers, reorders, empties it): no later round may care
        if isinstance(rr.value, list) and rr.value:
          how = (step + rnd) % 3
          if how == 0:
            del rr.value[len(rr.value) // 2:]
          elif how == 1:
            rr.value.reverse()
            rr.value.append(rr.value[0])
          else:
            rr.value.clear()
          ctx.count('hit:consumer-edited-returned-list')
        if rnd not in seen:
          seen.append(rnd)
        if rnd >= 100000:
          ctx.count('round>=1e5')
        return True

      alive = True
      for step in range(int(rng.randint(3, 7))):       # ascending run from round 0
        prog.append(('next', cur_round))
        alive = do_sample(cur_sampler, cur_fd, cur_round, 'auto-increment', len(prog) - 1)
        if not alive:
          break
        cur_round += 1
      bigs = []
      for step in range(int(rng.randint(8, 17)) if alive else 0):
        u = rng.rand()
        again = False
        if u < 0.15:
          what, rnd = 'next', cur_round
        elif u < 0.45:
          what, rnd = 'repeat', seen[rng.randint(len(seen))]
          if cur_round > 0 and rng.rand() < 0.35:
            rnd, again = cur_round - 1, True      # the round this sampler handed out LAST, asked for again right away
        elif u < 0.80:
          rnd = int(rng.randint(0, max(s for s in seen if s < 1000) + 7))
          what = 'jump-backward' if rnd < cur_round else 'jump-forward'
        else:
          what = 'big'
          v = rng.rand()
          if bigs and v < 0.4:
            rnd = bigs[rng.randint(len(bigs))] + int(rng.randint(0, 2))
          elif v < 0.6:
            rnd = int([10**6, 10**6 - 1, 2**16, 2**20 - 1][rng.randint(4)])
          else:
            rnd = int(rng.randint(1000, 10**6 + 1))
          bigs.append(rnd)
        ctx.count('req:' + what)
        if rnd in seen:
          twice = True
        if what == 'next':
          via = 'auto-increment'
          sampler, fd = cur_sampler, cur_fd
        else:
          v = rng.rand()
          which = int(rng.rand() < 0.5)
          if again:
            v = 0.0
            ctx.count('req:same-round-again-at-once')
          if v < 0.5:
            via = 'set_round_num'
            sampler, fd = cur_sampler, cur_fd
            if not ctx.call('set_round_num', sampler.set_round_num, rnd, witness=base_wit).ok:
              break
          else:
            fd = world.fd(which)
            if fd is None:
              break
            if which:
              ctx.count('via:reopened-dataset')
            if v < 0.8:
              via = 'fresh-start_round_num'
              rs = ctx.call('UniformGetClientSampler', cs.UniformGetClientSampler, fd, cohort, seed, rnd, witness=base_wit)
              if not rs.ok:
                break
              sampler = rs.value
            else:
              via = 'fresh-set_round_num'
              rs = ctx.call('UniformGetClientSampler', cs.UniformGetClientSampler, fd, cohort, seed, witness=base_wit)
              if not rs.ok or not ctx.call('set_round_num', rs.value.set_round_num, rnd, witness=base_wit).ok:
                break
              sampler = rs.value
            if rng.rand() < 0.5:
              cur_sampler, cur_fd = sampler, fd    # continue the "run" on the restarted sampler
          ctx.count('via:' + via)
        prog.append((what, rnd, via))
        if not do_sample(sampler, fd, rnd, via, len(prog) - 1):
          break
        if sampler is cur_sampler:
          cur_round = rnd + 1
      programs.append(tuple(prog))
    key = (tuple(world.all_ids), world.kind, tuple(world.view_ids), tuple(cfgs), tuple(programs)) if twice else None
    ctx.case_done(key, sample=dict(world.wit, configs=cfgs, program=programs[0][:12] if programs else None),
                  klass=sorted(klass))
  finally:
    world.close()


# --------------------------------------------------------------- family stream
def case_stream(ctx, jax, cs, mods, rng, tmpdir, case_no):
  world = World(ctx, mods, rng, tmpdir, case_no, nmax=24)
  klass = set(world.klass())
  try:
    fd0 = world.fd(0)
    if fd0 is None:
      ctx.case_done(None, sample=world.wit, klass=['construct-failed'])
      return
    n = len(world.view_ids)
    buf = int(rng.randint(1, n + 3))
    # boundary seeds forced: 0 (a fixed seed that is falsy in Python), 1, 2**32-1
    sseed = int([0, 1, 2**32 - 1][rng.randint(3)]) if rng.rand() < 0.3 else int(rng.randint(0, 2**31 - 1))
    ctx.count('stream-seed=0' if sseed == 0 else 'stream-seed!=0')
    cohort = draw_cohort(rng, n)
    total = 7 + int(rng.randint(2, 4))
    base_wit = dict(world.wit, buffer_size=buf, shuffle_seed=sseed, cohort=cohort)
    keyseen, hist = {}, {}

    def new_sampler(fd, start):
      return cs.UniformShuffledClientSampler(fd.shuffled_clients(buf, sseed), cohort, start_round_num=start)

    r = ctx.call('UniformShuffledClientSampler', new_sampler, fd0, 0, witness=base_wit)
    compared = False
    if r.ok:
      s0 = r.value
      for rnd in range(total):
        wit = dict(base_wit, round=rnd, via='from-0', step=rnd)
        rr = ctx.call('sample', s0.sample, witness=wit)
        if not rr.ok:
          break
        obs = judge_round(ctx, jax, world, fd0, rr.value, cohort, rnd, keyseen, wit, 'stream', False)
        compare_history(ctx, hist, rnd, obs, wit, 'stream', ('restart-ids', 'restart-keys', 'restart-data'))
      starts = list(range(7))
      rng.shuffle(starts)
      for start in starts:
        which = int(rng.rand() < 0.5)
        fd = world.fd(which)
        if fd is None:
          break
        wit0 = dict(base_wit, start_round_num=start, reopened=bool(which))
        rs = ctx.call('UniformShuffledClientSampler', new_sampler, fd, start, witness=wit0)
        if not rs.ok:
          continue
        if start >= 1:
          ctx.count('stream-restart:r>=1')
          if which:
            ctx.count('stream-restart:reopened-dataset')
        for rnd in range(start, min(total, start + int(rng.randint(2, 4)))):
          wit = dict(wit0, round=rnd, via=f'restart@{start}', step=rnd)
          rr = ctx.call('sample', rs.value.sample, witness=wit)
          if not rr.ok:
            break
          obs = judge_round(ctx, jax, world, fd, rr.value, cohort, rnd, keyseen, wit, 'stream', False)
          if rnd in hist and start >= 1:
            compared = True
          compare_history(ctx, hist, rnd, obs, wit, 'stream', ('restart-ids', 'restart-keys', 'restart-data'))
    klass.add('stream')
    if buf == 1:
      klass.add('stream-buffer=1')
    if buf > n:
      klass.add('stream-buffer>n')
    key = (tuple(world.all_ids), world.kind, tuple(world.view_ids), buf, sseed, cohort) if compared else None
    ctx.case_done(key, sample=dict(base_wit, rounds=total), klass=sorted(klass))
  finally:
    world.close()


def case_bigpop(ctx, jax, cs, mods, rng, case_no):
  """Populations of 10^4 clients and more (any size-dependent sampling strategy): sequential rounds, repeated rounds, fresh
  samplers seated at a round, set_round_num jumps -- every observation of a (seed, round) must agree."""
  fdm, im, sq = mods
  n = int([9999, 10000, 10001, 12000, 16385, 20011, 200500, 262145, 2**20, 2**20 + 1, 2**21 + 5, 2**20 - 1][case_no % 12])
  ex = {'idx': np.zeros(1, np.int64)}
  mapping = {b'p%06d' % i: ex for i in range(n)}
  fd = im.InMemoryFederatedData(mapping)
  seed, cohort = draw_seed(rng), int([1, 50, 200, 777][rng.randint(4)])
  if n > 100000:
    cohort = 1500          # large enough for a birthday collision if clients were drawn with replacement
  if n >= 2**20 - 1:
    cohort = n // 1000 - int(rng.randint(0, 3))     # a "tiny" cohort relative to the population, still collision-prone
    ctx.count('hit:population>=2^20')
  wit = {'family': 'bigpop', 'population': n, 'seed': seed, 'cohort': cohort}

  class W:       # the minimal "world" judge_round needs
    idset = frozenset(mapping)
    truth = {}
  hist, keyseen = {}, {}

  def observe(sampler, rnd, via, step):
    w = dict(wit, round=rnd, via=via, step=step)
    rr = ctx.call('sample', sampler.sample, witness=w)
    if not rr.ok:
      return False
    res = rr.value
    ok = isinstance(res, list) and len(res) == cohort and all(isinstance(t, tuple) and len(t) == 3 for t in res)
    ctx.check(ok, 'round/cohort-size', f'sample() returned {len(res) if hasattr(res, "__len__") else "?"} entries for cohort {cohort}', w)
    if not ok:
      return False
    ids = tuple(bytes(t[0]) for t in res)
    ctx.check(len(set(ids)) == len(ids), 'round/repeated-id', 'a client id is repeated within one round', dict(w, got_ids=ids[:20]))
    ctx.check(all(c in W.idset for c in ids), 'round/foreign-id', 'sample() returned an id that is not an id of the dataset', w)
    keys = tuple(key_bytes(jax, t[2]) for t in res)
    ctx.check(len(set(keys)) == len(keys), 'keys/repeated-within-round', 'two clients of one round received the same key', w)
    compare_history(ctx, hist, rnd, (ids, keys, tuple([None] * len(ids))), w, 'pure', ('ids-differ', 'keys-differ', 'data-differ'))
    return True

  r = ctx.call('UniformGetClientSampler', cs.UniformGetClientSampler, fd, cohort, seed, witness=wit)
  if not r.ok:
    return ctx.case_done(None, sample=wit, klass=['bigpop'])
  s0 = r.value
  ok = all(observe(s0, rnd, 'auto-increment', rnd) for rnd in range(4 if n < 2**20 - 1 else 10))
  if ok:
    ctx.count('hit:big-population')
    ctx.call('set_round_num', s0.set_round_num, 1, witness=wit)
    observe(s0, 1, 'set_round_num', 4)
    observe(s0, 2, 'auto-increment', 5)
    r3 = ctx.call('UniformGetClientSampler', cs.UniformGetClientSampler, fd, cohort, seed, 3, witness=wit)
    if r3.ok:
      observe(r3.value, 3, 'fresh-start_round_num', 6)
    r0 = ctx.call('UniformGetClientSampler', cs.UniformGetClientSampler, fd, cohort, seed, witness=wit)
    if r0.ok:
      observe(r0.value, 0, 'fresh', 7)
      ctx.call('set_round_num', r0.value.set_round_num, 3, witness=wit)
      observe(r0.value, 3, 'fresh-set_round_num', 8)
  ctx.case_done(('bigpop', n, seed, cohort), sample=wit, klass=['bigpop'])


class _Transient(Exception):
  pass


def case_flaky(ctx, jax, cs, mods, rng, case_no):
  """A user callback (client preprocessor) failing transiently while a round is being loaded: the failed sample() must not have
  moved the sampler on -- the retry hands out the SAME round, i.e. what a fresh sampler seated at that round hands out."""
  fdm, im, sq = mods
  n = int(rng.randint(3, 12))
  mapping = {b'f%02d' % i: {'idx': np.arange(i, i + 2, dtype=np.int64)} for i in range(n)}
  armed = {'on': False, 'after': 0}

  def flaky(client_id, ex):
    if armed['on']:
      if armed['after'] <= 0:
        armed['on'] = False
        raise _Transient('transient failure while loading a client')
      armed['after'] -= 1
    # written the "assign into the dict you are given" way and NOT idempotent: applied once per materialisation of a client, to a
    # copy of the stored examples, it yields idx*3+1 -- every time, however often the client was drawn before
    ex['idx'] = ex['idx'] * 3 + 1
    return ex

  fd = im.InMemoryFederatedData(mapping).preprocess_client(flaky)
  seed, cohort = draw_seed(rng), int(rng.randint(1, n + 1))
  fail_round = int(rng.randint(0, 5))
  wit = {'family': 'flaky', 'clients': n, 'seed': seed, 'cohort': cohort, 'failing_round': fail_round}
  r = ctx.call('UniformGetClientSampler', cs.UniformGetClientSampler, fd, cohort, seed, witness=wit)
  if not r.ok:
    return ctx.case_done(None, sample=wit, klass=['flaky'])
  s0 = r.value
  ids_of = lambda res: tuple(bytes(t[0]) for t in res)
  ok = True
  for rnd in range(fail_round):
    ok = ok and ctx.call('sample', s0.sample, witness=wit).ok
  if ok:
    armed.update(on=True, after=int(rng.randint(0, cohort)))
    rf = ctx.call('sample', lambda: [(c, d.all_examples(), k) for c, d, k in s0.sample()], expect=(_Transient,), witness=wit)
    armed['on'] = False
    if not rf.ok and isinstance(rf.exc, _Transient):
      ctx.count('hit:transient-failure-during-sample')
      retry = ctx.call('sample', s0.sample, witness={**wit, 'call': 'retry after the failed round'})
      fresh = ctx.call('UniformGetClientSampler', lambda: cs.UniformGetClientSampler(fd, cohort, seed, fail_round).sample(), witness=wit)
      if retry.ok and fresh.ok:
        for c_, d_, _k in list(retry.value) + list(fresh.value):
          got_idx = np.asarray(d_.all_examples()['idx'])
          ctx.check(np.array_equal(got_idx, mapping[bytes(c_)]['idx'] * 3 + 1), 'round/dataset-mismatch',
                    'a sampled client\'s examples are not the stored examples passed ONCE through the client preprocessor '
                    '(the client had been drawn before)', {**wit, 'client': c_, 'got': got_idx, 'stored': mapping[bytes(c_)]['idx']})
        same = ids_of(retry.value) == ids_of(fresh.value) and [key_bytes(jax, t[2]) for t in retry.value] == [key_bytes(jax, t[2]) for t in fresh.value]
        ctx.check(same, 'pure/retry-after-failed-sample-is-another-round',
                  f'sample() raised while loading round {fail_round}; the retry returned {[c.hex() for c in ids_of(retry.value)]}, a fresh '
                  f'sampler seated at round {fail_round} returns {[c.hex() for c in ids_of(fresh.value)]}', wit)
        nxt = ctx.call('sample', s0.sample, witness=wit)
        fresh2 = ctx.call('UniformGetClientSampler', lambda: cs.UniformGetClientSampler(fd, cohort, seed, fail_round + 1).sample(), witness=wit)
        if nxt.ok and fresh2.ok:
          ctx.check(ids_of(nxt.value) == ids_of(fresh2.value), 'pure/round-after-retry-differs',
                    f'the round after the retried round {fail_round} is not round {fail_round + 1}', wit)
  ctx.case_done(('flaky', n, seed, cohort, fail_round), sample=wit, klass=['flaky'])


def run(ctx):
  import fedjax  # pylint: disable=unused-import
  import jax
  from fedjax.core import client_samplers as cs
  from fedjax.core import federated_data as fdm
  from fedjax.core import in_memory_federated_data as im
  from fedjax.core import sqlite_federated_data as sq
  mods = (fdm, im, sq)
  global TRACE
  nget, nstream = (300, 150) if ctx.quick else (4500, 2250)
  tmpdir = tempfile.mkdtemp(prefix='vmon-c13-', dir=os.environ.get('VMON_WORK') or None)
  traces = {}
  try:
    for cid, rng in ctx.cases('get', nget):
      TRACE = []
      case_get(ctx, jax, cs, mods, rng, tmpdir, int(cid.split('/')[1]))
      traces[cid], TRACE = TRACE, None
    for cid, rng in ctx.cases('stream', nstream):
      TRACE = []
      case_stream(ctx, jax, cs, mods, rng, tmpdir, int(cid.split('/')[1]))
      traces[cid], TRACE = TRACE, None
    if not ctx.xproc_child:
      for cid, rng in ctx.cases('flaky', 40 if ctx.quick else 600):
        case_flaky(ctx, jax, cs, mods, rng, int(cid.split('/')[1]))
      for cid, rng in ctx.cases('bigpop', 12 if ctx.quick else 48):
        case_bigpop(ctx, jax, cs, mods, rng, int(cid.split('/')[1]))
  finally:
    shutil.rmtree(tmpdir, ignore_errors=True)
  if ctx.xproc_child:
    return traces
  # ---- a restarted run is a new process: the first histories of each family are replayed in a FRESH interpreter with another
  # PYTHONHASHSEED and must hand out the same ids and keys for every (seed, round) (shards always run with PYTHONHASHSEED=0)
  from vmon import xproc
  k = XPROC_CASES['quick' if ctx.quick else 'thorough']
  sel = [c for c in traces if c.startswith('get/')][:k] + [c for c in traces if c.startswith('stream/')][:k]
  if sel:
    hs = 1 + (ctx.seed + ctx.shard) % 97
    other = xproc.run_child('vmon.checks.c13', {'tier': ctx.tier, 'seed': ctx.seed, 'cases': sel}, hs, timeout=1500)
    for cid in sel:
      ctx.cur_case = cid
      mine, theirs = traces[cid], other['traces'].get(cid)
      if theirs is None or [e[:4] for e in mine] != [e[:4] for e in theirs]:
        raise core.HarnessError(f'{cid}: the fresh-interpreter replay ran a different program (harness is hash-dependent)')
      ctx.count('hit:fresh-interpreter-history')
      bad = next((i for i, (a, b) in enumerate(zip(mine, theirs)) if a != b), None)
      w = None
      if bad is not None:
        a, b = mine[bad], theirs[bad]
        w = {'other_pythonhashseed': hs, 'family': a[0], 'round': a[1], 'seed': a[2], 'cohort': a[3], 'ids_this_process': a[4],
             'ids_fresh_process': b[4], 'keys_equal': a[5] == b[5]}
      ctx.check(bad is None, 'xproc/cohort-differs-in-fresh-process',
                'the same (dataset, seed, cohort size, round) sampled in a new Python process (other PYTHONHASHSEED) gives a '
                'different cohort / different keys', w)
    ctx.cur_case = None
    for key in other['violation_keys']:
      if key not in ctx.violation_keys:
        v = next((v for v in other['violations'] if v['key'] == key), None)
        ctx.cur_case = v['case'] if v else None
        ctx.violation(key, (v['what'] if v else key) + f' [only in the fresh-interpreter replay, PYTHONHASHSEED={hs}]',
                      v['witness'] if v else None)
    ctx.cur_case = None


XPROC_CASES = {'quick': 12, 'thorough': 40}


def _xproc_child(payload):
  from vmon.core import Ctx
  ctx = Ctx(PROPERTY, payload['tier'], payload['seed'], 0, 1)
  ctx.xproc_child = True
  ctx.only_cases = set(payload['cases'])
  traces = run(ctx)
  return {'traces': traces, 'violation_keys': ctx.violation_keys, 'violations': ctx.violations}



if __name__ == '__main__':
  from vmon import xproc as _xproc
  _xproc.child_main(_xproc_child)

TECHNIQUE += '; configuration shards (rbg / unsafe_rbg PRNG, non-partitionable threefry); fresh-interpreter replay under another PYTHONHASHSEED; populations up to 2.6e5 clients; transient callback failures'
TECHNIQUE += '; populations of 2^20-1 ... 2^21+5 clients with cohort ~N/1000 over 10 rounds; the consumer edits every returned list in place; the round just handed out requested again at once'
RULE += ' Wave-8 addition: bigpop sizes 2^20-1, 2^20, 2^20+1, 2^21+5 with cohort N/1000 (10 sequential rounds); every list returned by sample() is truncated / reordered / emptied by the harness after it was judged; 35% of the repeat requests ask the same sampler for the round it handed out last.'
