"""vmon: runtime monitors for google/fedjax (see /verif/DESIGN.md)."""
import os
import sys

VERIF_ROOT = os.path.dirname(os.path.dirname(os.path.abspath(__file__)))
REPO_ROOT = os.path.realpath(os.environ.get('FEDJAX_REPO', '/repo'))

_deps = os.path.join(VERIF_ROOT, '.deps')
if os.path.isdir(_deps) and _deps not in sys.path:
  # Appended (not prepended): never shadow the repository interpreter's packages.
  sys.path.append(_deps)
