"""Builders for the seven built-in fedjax algorithms on the toy linear-regression world (vmon/toy.py).

Uniform interface (used by C10 / C12, reusable by C17):

  b = algos.build('fed_prox', cspec=('sgd', .1), sspec=('sgd', 1.), hp=dict(batch_size=2, num_epochs=1, seed=3),
                  proximal_weight=0.5)
  state = b.init_state(params)          # params: toy pytree ('flat' / 'nested'), numpy or jax leaves
  state, diag = b.algo.apply(state, [(client_id, dataset, key), ...])
  algos.server_params(state)            # "the server params" of any of the state types (HypCluster: cluster 0)

* `name` is one of ALGOS; `cspec` / `sspec` are toy optimizer specs (('sgd', lr) | ('momentum', lr, m) | ('adam', lr) |
  ('adagrad', lr)); for Mime / MimeLite `cspec` is the *base* optimizer and `sspec` is ignored (they take
  `server_learning_rate`). `hp` is the keyword dict of fedjax.ShuffleRepeatBatchHParams.
* The per-example loss is toy.jax_per_example_loss and ignores its key unless `noise > 0`, in which case every
  example's loss is multiplied by (1 + noise * u_i), u_i ~ U(-1, 1) drawn from the key handed to the loss (so gradients,
  cluster losses and domain losses all depend on the key — used by the purity check C10).
* `loss=` overrides the per-example loss (signature (params, batch, rng) -> [n]); `grad_fn=` overrides the gradient
  function of the two algorithms that take one (FedAvg, APFL).
* `module=` lets the caller pass a re-loaded copy of the algorithm's module (see fresh_module) instead of the imported
  one.
* Datasets: make_datasets(raw, num_domains) wraps toy.make_client arrays in fedjax.ClientDataset and adds the int32
  `domain_id` feature (idx mod num_domains) agnostic FedAvg needs.

Extra hyper-parameters (keyword arguments of build, all optional):
  fed_prox:          proximal_weight (0.0)
  mime, mime_lite:   server_learning_rate (1.0), grads_batch_size (4); mime_lite: client_delta_clip_norm (None)
  agnostic_fed_avg:  num_domains (2), domain_learning_rate (0.1), domain_algorithm ('eg'), domain_window_size (1),
                     domain_batch_size (4)
  hyp_cluster:       num_clusters (1), max_batch_size (4), cluster_spread (0.3): cluster k starts from params + k*spread
  apfl:              client_coefficient (0.5)
"""
import collections
import importlib.util
import os
import sys

import numpy as np

from vmon import toy

ALGOS = ('fed_avg', 'fed_prox', 'mime', 'mime_lite', 'agnostic_fed_avg', 'hyp_cluster', 'apfl')

Built = collections.namedtuple('Built', 'name algo init_state config')


def per_example_loss(noise=0.0):
  """(params, batch, rng) -> per-example loss vector; key-ignoring iff noise == 0."""
  import jax

  def loss(params, batch, rng):
    base = toy.jax_per_example_loss(params, batch)
    if noise:
      u = jax.random.uniform(rng, base.shape, minval=-1.0, maxval=1.0)
      base = base * (1.0 + noise * u)
    return base

  return loss


def grad_fn_from_loss(loss):
  """grad_fn(params, batch, rng) of mean(per-example loss) for unpadded training batches."""
  import jax
  import jax.numpy as jnp
  return jax.grad(lambda p, b, r: jnp.mean(loss(p, b, r)))


def make_datasets(raw, num_domains=2):
  """{client_id: column dict} -> {client_id: fedjax.ClientDataset} with an int32 'domain_id' column."""
  import fedjax
  out = {}
  for cid, cols in raw.items():
    cols = dict(cols)
    cols['domain_id'] = (np.asarray(cols['idx']) % max(1, num_domains)).astype(np.int32)
    out[cid] = fedjax.ClientDataset(cols)
  return out


def _module(name, package='fedjax.algorithms'):
  import importlib
  return importlib.import_module(package + '.' + name)


_fresh_counter = [0]


def fresh_module(name, package='fedjax.algorithms'):
  """Loads a second, independent copy of <package>/<name>.py (fresh module-level state).

  Its imports (fedjax.core..., sibling algorithm modules) resolve to the already imported modules, so only state
  held at the level of this one module is reset. The copy is not left in sys.modules.
  """
  orig = _module(name, package)
  _fresh_counter[0] += 1
  alias = f'_vmon_fresh{_fresh_counter[0]}_{name}'
  spec = importlib.util.spec_from_file_location(alias, os.path.realpath(orig.__file__))
  mod = importlib.util.module_from_spec(spec)
  sys.modules[alias] = mod
  try:
    spec.loader.exec_module(mod)
  finally:
    sys.modules.pop(alias, None)
  return mod


def build(name, cspec=('sgd', 0.1), sspec=('sgd', 1.0), hp=None, noise=0.0, loss=None, grad_fn=None, module=None,
          regularizer=None, copt=None, sopt=None, **kw):
  """Constructs algorithm `name` on the toy world. Returns Built(name, algo, init_state, config)."""
  import fedjax
  import jax.numpy as jnp
  hp = dict(hp or {'batch_size': 2, 'num_epochs': 1, 'seed': 0})
  bhp = fedjax.ShuffleRepeatBatchHParams(**hp)
  # `copt` / `sopt` let several algorithms share the very same optimizer OBJECTS (as `loss=` shares the loss object);
  # `regularizer` is handed to the algorithms that take one (mime, mime_lite, hyp_cluster).
  copt = copt if copt is not None else toy.fedjax_optimizer(cspec)
  sopt = sopt if sopt is not None else toy.fedjax_optimizer(sspec)
  regkw = {'regularizer': regularizer} if regularizer is not None else {}
  if regkw and name not in ('mime', 'mime_lite', 'hyp_cluster'):
    raise ValueError(f'{name} takes no regularizer')
  loss = loss or per_example_loss(noise)
  mod = module or _module(name)
  config = dict(name=name, cspec=cspec, sspec=sspec, hp=hp, noise=noise, **kw)
  as_jax = lambda params: toy.tmap(jnp.asarray, params)
  init_wrap = None

  if name == 'fed_avg':
    algo = mod.federated_averaging(grad_fn or grad_fn_from_loss(loss), copt, sopt, bhp)
  elif name == 'fed_prox':
    algo = mod.fed_prox(loss, copt, sopt, bhp, proximal_weight=kw.pop('proximal_weight', 0.0))
  elif name in ('mime', 'mime_lite'):
    extra = {}
    if name == 'mime_lite':
      extra['client_delta_clip_norm'] = kw.pop('client_delta_clip_norm', None)
    algo = getattr(mod, name)(loss, copt, bhp, fedjax.PaddedBatchHParams(batch_size=kw.pop('grads_batch_size', 4)),
                              server_learning_rate=kw.pop('server_learning_rate', 1.0), **extra, **regkw)
  elif name == 'agnostic_fed_avg':
    nd = kw.pop('num_domains', 2)
    algo = mod.agnostic_federated_averaging(
        loss, copt, sopt, bhp, fedjax.PaddedBatchHParams(batch_size=kw.pop('domain_batch_size', 4)),
        init_domain_weights=[1.0 / nd] * nd, domain_learning_rate=kw.pop('domain_learning_rate', 0.1),
        domain_algorithm=kw.pop('domain_algorithm', 'eg'), domain_window_size=kw.pop('domain_window_size', 1),
        # jnp.ones_like(list) is rejected by this JAX: pass the default window explicitly.
        init_domain_window=[1.0] * nd)
  elif name == 'hyp_cluster':
    k = kw.pop('num_clusters', 1)
    spread = kw.pop('cluster_spread', 0.3)
    algo = mod.hyp_cluster(loss, copt, sopt, fedjax.PaddedBatchHParams(batch_size=kw.pop('max_batch_size', 4)), bhp, **regkw)
    init_wrap = lambda params: algo.init(
        [toy.tmap(lambda a, i=i: jnp.asarray(a) + jnp.asarray(i * spread, dtype=np.asarray(a).dtype), params)
         for i in range(k)])
  elif name == 'apfl':
    algo = mod.adaptive_personalized_federated_learning(grad_fn or grad_fn_from_loss(loss), copt, sopt, bhp,
                                                        client_coefficient=kw.pop('client_coefficient', 0.5))
  else:
    raise ValueError(name)
  if kw:
    raise ValueError(f'unused hyper-parameters for {name}: {sorted(kw)}')
  init_state = init_wrap or (lambda params: algo.init(as_jax(params)))
  return Built(name, algo, init_state, config)


def server_params(state):
  """The global model of any built-in server state (HypCluster: cluster 0)."""
  if hasattr(state, 'cluster_params'):
    return state.cluster_params[0]
  return state.params


def server_params_np(state):
  return toy.to_np(server_params(state))
