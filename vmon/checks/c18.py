"""C18 — Walsh-Hadamard transform is exact; structured rotation invertible.

Families
  grid/   exhaustive (length, block size, call style) lattice of walsh_hadamard_transform, judged against a float64
          butterfly and (small lengths) the explicit Sylvester matrix; linearity; W(W(x)) = n x; invalid pairs raise
  rot/    structured_rotation / inverse_structured_rotation on the fixed shape list of the design
  rotr/   the same on random shapes (<= 5000 elements)
  tree/   the pytree variants, judged leaf-wise
"""
import functools
import itertools
import os

import numpy as np

from vmon import core
from vmon import gen
from vmon import sanitize

PROPERTY = 'C18'
LEVEL = 'exploration'
RULE = ('grid/: EXHAUSTIVE lattice lengths 2^0..2^L (quick L=10, thorough L=14) x block sizes 2^1..2^8 x call style '
        '{positional, keyword} plus every length with the block size defaulted, plus block sizes 1, 0, -2 (documented '
        'invalid) on three lengths; each valid point is driven with unit vectors (all of them up to length 128 quick / 512 '
        'thorough -> explicit Sylvester matrix; 12 sampled ones above), two random normal vectors, a constant vector, one '
        'linearity triple and one double application. Pairs needing more than 8 reshape axes must raise ValueError. '
        'rot/: shapes (), (1,), (3,), (17,), (5,7), (2,3,4), (1,1,1), (1024,), (1025,) x value kinds {normal, constant, '
        'one-hot, scaled 1e3/1e-3} x 5 keys; rotr/: seeded random shapes of rank 1-4 with <= 5000 elements biased to '
        '2^k-1, 2^k, 2^k+1 sizes; tree/: generator pytrees (dict/list/tuple, 1-9 leaves from 12 leaf shapes incl. 0-d). '
        'Non-trivial: grid point with length >= 2 (the transform is not the identity) or an invalid pair; rotation/tree '
        'case with at least 2 elements. Distinct by (length, block, style) / (shape, value kind, key) / (tree structure, '
        'leaf shapes, key).')
RULE += (' Wave-4 addition: caller-owned inputs of rotation / un-rotation (array or tree, key, shapes) are snapshotted and must be alive and unchanged after the call; the same rotated array is un-rotated twice.')
# Configuration shards (vmon.run): the cases of the plain shard with the given index are run once more in a process started
# under an environment the library is supposed to be indifferent to.
CONFIGS = {'quick': [{'name': 'threefry-nonpartitionable', 'env': {'JAX_THREEFRY_PARTITIONABLE': '0'}, 'shard': 1}], 'thorough': [{'name': 'threefry-nonpartitionable', 'env': {'JAX_THREEFRY_PARTITIONABLE': '0'}, 'shard': 1}, {'name': 'rbg-prng', 'env': {'JAX_DEFAULT_PRNG_IMPL': 'rbg'}, 'shard': 2}]}
ASSUMPTIONS = [
    'float32 inputs (x64 disabled); tolerance 1e-4*||x||_2*sqrt(n) per output entry for the transform, relative 1e-4 for '
    'norms, 1e-4*|x_i| + 1e-5*||x||_2 per entry for the inverse rotation',
    'grid points whose einsum chain has >= 7 (quick) / >= 8 (thorough) reshape axes are executed through the public entry '
    'point under jax.disable_jit(): XLA:CPU needs 8 s (7 axes) to > 5 min (length 256, block 2) to compile the fused '
    'chain; the Python code executed is the same',
    'when an explicitly passed block size makes the jitted entry point raise a tracer-concretization error (finding A1) '
    'the violation is recorded and the numerical monitors for that grid point run through jax.disable_jit(), so that '
    'the exactness of the (length, block) schedule is still observed',
    'different-keys monitor: refuted when all 4 alternative keys reproduce the rotation (>= 16 non-zero elements, '
    'P <= 2^-64) or when any single one does (>= 64 non-zero elements, P <= 2^-64)',
    'invalid block sizes generated are only the documented ones (<= 1, or more than 8 reshape axes); non-powers of two '
    'are outside the domain',
]
SHARDS = {'quick': 4, 'thorough': 12}
SHARD_TIMEOUT = {'quick': 900, 'thorough': 2400}
EXHAUSTIVE = {'quick': True, 'thorough': True}
MIN_HITS = {
    'quick': {
        'mon:wht': 2500, 'mon:whtshape': 2500, 'mon:matrix': 130, 'mon:linear': 150, 'mon:invol': 150, 'mon:invalid': 12,
        'mon:inputs': 500, 'hit:size1-leaf-signs': 8, 'mon:norm': 130, 'mon:inverse': 70, 'mon:keys': 12, 'mon:treenorm': 60, 'mon:treeinverse': 60, 'mon:treekeys': 12,
        'mon:treestruct': 60, 'style:pos': 90, 'style:kw': 90, 'style:default': 11, 'valid': 170, 'invalid': 20,
        'rot-shape:0d': 4, 'rot-shape:non-pow2': 20, 'rot-shape:rank>=2': 15, 'tree:has-0d-leaf': 4, 'tree:no-0d-leaf': 20,
    },
    'thorough': {
        'mon:wht': 15000, 'mon:whtshape': 15000, 'mon:matrix': 200, 'mon:linear': 230, 'mon:invol': 230,
        'mon:invalid': 24, 'mon:norm': 1200, 'mon:inverse': 500, 'mon:keys': 120, 'mon:treenorm': 700,
        'mon:treeinverse': 600, 'mon:treekeys': 150, 'mon:treestruct': 700, 'style:pos': 120, 'style:kw': 120,
        'style:default': 15, 'valid': 240, 'invalid': 28, 'rot-shape:0d': 8, 'rot-shape:non-pow2': 200,
        'rot-shape:rank>=2': 200, 'tree:has-0d-leaf': 50, 'tree:no-0d-leaf': 250,
    },
}
TECHNIQUE = ('runtime monitoring: float64 butterfly + explicit Sylvester matrix references over an exhaustive (length, block '
             'size, call style) grid; algebraic laws (linearity, involution, isometry, inverse, key sensitivity) on '
             'generated shapes and pytrees')
LEVEL_TEXT = ('Every (length, block size, call style) point of the stated lattice is executed on the real transform '
              '(exhaustive within the lattice) and compared with two independent float64 references; the rotation laws are '
              'observed on the fixed shape list, on seeded random shapes and on generated pytrees. Held-on-observed: input '
              'vectors, keys and shapes beyond the lattice are sampled.')
LEVEL_NOTE = ('Trusts NumPy float64 arithmetic; the references are self-checked against scipy.linalg.hadamard and the '
              'bit-parity formula (-1)^popcount(i&j) (failure => inconclusive). jax.random is trusted as the source of '
              'keys; jax.disable_jit() is trusted to execute the same Python code eagerly.')

BLOCKS = [2**k for k in range(1, 9)]
FIXED_SHAPES = [(), (1,), (3,), (17,), (5, 7), (2, 3, 4), (1, 1, 1), (1024,), (1025,)]
TREE_LEAF_SHAPES = [(1,), (3,), (2, 2), (4, 1), (5,), (1, 1, 2), (17,), (5, 7), (64,), (33,), (2, 3, 4)]


# ------------------------------------------------------------------------------------------------ oracles
@functools.lru_cache(maxsize=None)
def sylvester(n):
  h = np.array([[1]], dtype=np.int64)
  while h.shape[0] < n:
    h = np.block([[h, h], [h, -h]])
  return h


def butterfly(x):
  """In-place style fast Walsh-Hadamard transform (natural / Sylvester order), float64."""
  y = np.array(x, dtype=np.float64).reshape(-1)
  n = y.shape[0]
  h = 1
  while h < n:
    y = y.reshape(-1, 2, h)
    a, b = y[:, 0, :].copy(), y[:, 1, :].copy()
    y[:, 0, :] = a + b
    y[:, 1, :] = a - b
    y = y.reshape(-1)
    h *= 2
  return y


def parity_row(n, j):
  """Column j of the Sylvester matrix from the closed form (-1)^popcount(i & j)."""
  i = np.arange(n, dtype=np.int64) & j
  pc = np.zeros(n, dtype=np.int64)
  while np.any(i):
    pc += i & 1
    i >>= 1
  return np.where(pc % 2 == 0, 1.0, -1.0)


def oracle_self_check():
  import scipy.linalg
  rng = np.random.RandomState(777)
  for k in range(0, 10):
    n = 2**k
    h = sylvester(n)
    if not np.array_equal(h, scipy.linalg.hadamard(n).astype(np.int64)):
      raise core.Inconclusive(f'oracle Sylvester matrix of order {n} differs from scipy.linalg.hadamard')
    x = rng.randn(n)
    if not np.allclose(butterfly(x), h @ x, rtol=1e-12, atol=1e-10):
      raise core.Inconclusive(f'oracle butterfly differs from the Sylvester matrix at order {n}')
  for k in (10, 12, 14):
    n = 2**k
    for j in (0, 1, n - 1, int(rng.randint(n))):
      e = np.zeros(n)
      e[j] = 1.0
      if not np.array_equal(butterfly(e), parity_row(n, j)):
        raise core.Inconclusive(f'oracle butterfly differs from the parity formula at order {n}, column {j}')
    x = rng.randn(n)
    if not np.allclose(butterfly(butterfly(x)), n * x, rtol=1e-10, atol=1e-8):
      raise core.Inconclusive(f'oracle butterfly is not an involution up to n at order {n}')


def num_axes(n, small_n):
  """Number of reshape axes the documented schedule needs: ceil(log_small_n(n))."""
  k = 0
  while n > 1:
    n = -(-n // small_n)
    k += 1
  return k


# ---------------------------------------------------------------------------------------- guarded calls
def guarded(ctx, entry, fn, classify, witness):
  """ctx.call with caller-side naming of recognised exception mechanisms.

  classify(exc) -> 'expected' | mechanism key | None (None: generic key entry:raises-Type@file:func).
  """
  r = ctx.call(entry, fn, expect=(Exception,), witness=witness)
  if r.ok:
    return r
  key = classify(r.exc)
  if key == 'expected':
    return r
  if not r.frames:
    raise core.HarnessError(f'{entry}: {type(r.exc).__name__}: {r.exc}') from r.exc
  if key is None:
    inner = r.frames[-1]
    key = f'{entry}:raises-{type(r.exc).__name__}@{os.path.basename(inner[0])}:{inner[2]}'
  ctx.violation(key, f'{entry} raised {type(r.exc).__name__}: {str(r.exc)[:200]}', {
      'input': witness,
      'frames': [f'{f}:{l}:{n}' for f, l, n in r.frames[-6:]]
  })
  r.key = key
  return r


# --------------------------------------------------------------------------------------------- grid family
def grid_points(max_log):
  pts = []
  for ln in range(0, max_log + 1):
    n = 2**ln
    for b in BLOCKS:
      for style in ('pos', 'kw'):
        pts.append((n, b, style))
    pts.append((n, None, 'default'))
  for n in (1, 8, 2**max_log):
    for b in (1, 0, -2):
      for style in ('pos', 'kw'):
        pts.append((n, b, style))
  # heavy points first so that the round-robin sharding spreads them
  def cost(p):
    n, b, _ = p
    bb = 128 if b is None else b
    return (-(num_axes(n, bb) if bb > 1 else 0), -n)
  return sorted(pts, key=cost)


def run_grid_point(ctx, jax, jnp, W, n, b, style, unit_all_upto, eager_axes):
  rng = ctx.rng('grid', n, b, style)
  eff = 128 if b is None else b
  valid = eff > 1 and num_axes(n, eff) <= 8
  axes = num_axes(n, eff) if eff > 1 else 0
  wit = {'length': n, 'small_n': b, 'style': style, 'valid_pair': valid, 'reshape_axes': axes}
  ctx.klass('style:' + style)

  def call_plain(x):
    if style == 'pos':
      return W(x, b)
    if style == 'kw':
      return W(x, small_n=b)
    return W(x)

  def call_eager(x):
    with jax.disable_jit():
      return call_plain(x)

  is_conc = lambda e: isinstance(e, jax.errors.ConcretizationTypeError)  # pylint: disable=unnecessary-lambda-assignment

  def classify_first(e):
    if style != 'default' and is_conc(e):
      return 'wht/explicit-small_n-raises'  # A1: small_n is traced by @jax.jit
    if isinstance(e, ValueError) and not valid:
      return 'expected'
    if isinstance(e, ValueError):
      return 'wht/valid-pair-raises-ValueError'
    return None

  def classify_eager(e):
    if isinstance(e, ValueError) and not valid:
      return 'expected'
    if isinstance(e, ValueError):
      return 'wht/valid-pair-raises-ValueError'
    return None

  x0 = jnp.asarray(rng.randn(n).astype(np.float32))
  path = 'jit'
  call = call_plain
  first = None
  if valid and axes >= eager_axes:
    path, call = 'eager-slow-compile', call_eager
  else:
    first = guarded(ctx, 'walsh_hadamard_transform', lambda: call_plain(x0), classify_first, {**wit, 'path': 'jit'})
    if not first.ok and getattr(first, 'key', None) == 'wht/explicit-small_n-raises':
      path, call = 'eager-after-A1', call_eager
      first = None
  ctx.klass('path:' + path)
  wit['path'] = path
  klass = ['grid', 'valid' if valid else 'invalid']

  if not valid:
    r = first if first is not None else guarded(ctx, 'walsh_hadamard_transform', lambda: call(x0), classify_eager, wit)
    if r.ok:
      ctx.check(False, 'invalid/no-error', f'documented-invalid pair returned a value of shape {np.shape(r.value)}', wit)
    else:
      ctx.check(isinstance(r.exc, ValueError), 'invalid/not-ValueError',
                f'invalid pair raised {type(r.exc).__name__} instead of ValueError', wit)
    ctx.case_done((n, b, style), sample={**wit, 'outcome': 'returned' if r.ok else type(r.exc).__name__}, klass=klass)
    return

  def run(x, what):
    r = guarded(ctx, 'walsh_hadamard_transform', lambda: call(x), classify_eager, {**wit, 'input': what})
    if not r.ok:
      return None
    y = np.asarray(r.value)
    if not ctx.check(y.shape == (n,) and y.dtype == np.float32, 'whtshape/shape-dtype',
                     f'output shape {y.shape} dtype {y.dtype} for a float32 input of length {n}', {**wit, 'input': what}):
      return None
    return y.astype(np.float64)

  def judge(x, y, what, key='wht/differs-from-H-x'):
    x64 = np.asarray(x, dtype=np.float64)
    ref = butterfly(x64)
    tol = 1e-4 * np.linalg.norm(x64) * np.sqrt(n) + 1e-30
    err = float(np.max(np.abs(y - ref))) if n else 0.0
    return ctx.check(bool(np.all(np.isfinite(y))) and err <= tol, key,
                     f'max |W(x) - H x| = {err:.3g} > tol {tol:.3g} for {what}',
                     {**wit, 'input': what, 'x': x64, 'got': y, 'expected': ref, 'max_err': err})

  worst = 0.0
  # ---- unit vectors
  if n <= unit_all_upto:
    cols = list(range(n))
  else:
    cols = sorted(set([0, 1, n // 2, n - 2, n - 1] + [int(v) for v in rng.randint(0, n, size=8)]))
  mat = np.zeros((n, len(cols)))
  complete = True
  for c, j in enumerate(cols):
    e = np.zeros(n, dtype=np.float32)
    e[j] = 1.0
    y = run(jnp.asarray(e), f'unit vector e_{j}')
    if y is None:
      complete = False
      break
    judge(e, y, f'unit vector e_{j}')
    mat[:, c] = y
  if complete and n <= unit_all_upto and n <= 512:
    h = sylvester(n)
    err = float(np.max(np.abs(mat - h)))
    ctx.check(err <= 1e-4 * np.sqrt(n), 'matrix/differs-from-sylvester',
              f'matrix assembled from all {n} unit vectors differs from the Sylvester matrix by {err:.3g}',
              {**wit, 'first_bad_column': int(np.argmax(np.max(np.abs(mat - h), axis=0)))})
    ctx.check(bool(np.array_equal(mat, mat.T)), 'matrix/not-symmetric', 'assembled transform matrix is not symmetric', wit)
  # ---- random normal, scaled, constant
  xs = [('normal', np.asarray(x0)), ('normal*1e3', rng.randn(n) * 1e3), ('constant', np.full(n, rng.randn() + 2.0)),
        ('alternating', np.where(np.arange(n) % 2 == 0, 1.0, -1.0) * (1 + rng.rand()))]
  for what, xv in xs:
    xv = np.asarray(xv, dtype=np.float32)
    y = run(jnp.asarray(xv), what)
    if y is not None:
      judge(xv, y, what)
      x64 = xv.astype(np.float64)
      worst = max(worst, float(np.max(np.abs(y - butterfly(x64)))) / (np.linalg.norm(x64) * np.sqrt(n) + 1e-30))
  # ---- linearity
  xa, xb = rng.randn(n).astype(np.float32), rng.randn(n).astype(np.float32)
  a, bcoef = np.float32(rng.randn() * 3), np.float32(rng.randn() * 3)
  comb = (a * xa + bcoef * xb).astype(np.float32)
  ya, yb, yc = run(jnp.asarray(xa), 'lin-x'), run(jnp.asarray(xb), 'lin-y'), run(jnp.asarray(comb), 'lin-ax+by')
  if ya is not None and yb is not None and yc is not None:
    lhs = yc
    rhs = float(a) * ya + float(bcoef) * yb
    scale = (abs(float(a)) * np.linalg.norm(xa.astype(np.float64)) + abs(float(bcoef)) * np.linalg.norm(
        xb.astype(np.float64))) * np.sqrt(n)
    err = float(np.max(np.abs(lhs - rhs)))
    ctx.check(err <= 1e-4 * scale + 1e-30, 'linear/not-linear', f'|W(ax+by) - aW(x) - bW(y)| = {err:.3g} > '
              f'{1e-4 * scale:.3g}', {**wit, 'a': float(a), 'b': float(bcoef), 'x': xa, 'y': xb})
  # ---- double application
  if ya is not None:
    r2 = guarded(ctx, 'walsh_hadamard_transform', lambda: call(call(jnp.asarray(xa))), classify_eager,
                 {**wit, 'input': 'W(W(x))'})
    if r2.ok:
      yy = np.asarray(r2.value).astype(np.float64)
      tol = 1e-4 * n * np.linalg.norm(xa.astype(np.float64)) + 1e-30
      err = float(np.max(np.abs(yy - n * xa.astype(np.float64)))) if yy.shape == (n,) else float('inf')
      ctx.check(err <= tol, 'invol/WW-differs-from-n-x', f'max |W(W(x)) - n x| = {err:.3g} > {tol:.3g}',
                {**wit, 'x': xa, 'got': yy})
  ctx.case_done((n, b, style) if n >= 2 else None, sample={**wit, 'unit_vectors': len(cols), 'worst_scaled_error': worst},
                klass=klass + [f'axes:{axes}'])


# ----------------------------------------------------------------------------------------- rotation family
def make_key(jax, rng, typed=False):
  seed = int(rng.randint(0, 2**31 - 1))
  return (jax.random.key(seed) if typed else jax.random.PRNGKey(seed)), seed


def make_values(rng, shape, kind):
  size = int(np.prod(shape, dtype=np.int64))
  if kind == 'normal':
    x = rng.randn(size)
  elif kind == 'constant':
    x = np.full(size, rng.randn() + 2.0)
  elif kind == 'one-hot':
    x = np.zeros(size)
    x[rng.randint(size)] = 1.0 + rng.rand()
  elif kind == 'scaled-1e3':
    x = rng.randn(size) * 1e3
  elif kind == 'scaled-1e-3':
    x = rng.randn(size) * 1e-3
  else:
    raise AssertionError(kind)
  return x.astype(np.float32).reshape(shape)


def is_a2(e):
  return isinstance(e, (ValueError, TypeError)) and 'integer type' in str(e)


def judge_inverse(ctx, fam, x, back, wit):
  """Shape + value monitors for an inverse rotation result."""
  back = np.asarray(back)
  if not ctx.check(tuple(back.shape) == tuple(x.shape), f'{fam}/shape-differs',
                   f'inverse rotation returned shape {back.shape}, original shape {x.shape}', wit):
    return
  x64, b64 = x.astype(np.float64), back.astype(np.float64)
  tol = 1e-4 * np.abs(x64) + 1e-5 * np.linalg.norm(x64) + 1e-30
  err = np.abs(b64 - x64)
  ctx.check(bool(np.all(np.isfinite(b64))) and bool(np.all(err <= tol)), f'{fam}/value-differs',
            f'inverse(rotation(x)) differs from x by up to {float(np.max(err)) if err.size else 0:.3g}',
            {**wit, 'x': x, 'got': back})


def judge_norm(ctx, fam, x, rot, wit):
  nx = float(np.linalg.norm(x.astype(np.float64)))
  nr = float(np.linalg.norm(np.asarray(rot).astype(np.float64)))
  return ctx.check(np.isfinite(nr) and abs(nr - nx) <= 1e-4 * nx + 1e-30, f'{fam}/rotation-norm-differs',
                   f'||rotation(x)|| = {nr!r} but ||x|| = {nx!r}', {**wit, 'x': x, 'rotated': np.asarray(rot)})


def run_rotation_case(ctx, jax, jnp, wh, rng, shape, kind, typed_key=False, as_numpy=False):
  x = make_values(rng, shape, kind)
  size = x.size
  (k0, s0) = make_key(jax, rng, typed_key)
  others = [make_key(jax, rng, typed_key) for _ in range(4)]
  while len({s0} | {s for _, s in others}) < 5:
    others = [make_key(jax, rng, typed_key) for _ in range(4)]
  wit = {'shape': list(shape), 'values': kind, 'key_seed': s0, 'typed_key': typed_key, 'numpy_input': as_numpy}
  if size >= 2 and rng.rand() < 0.12:
    # "all real input vectors": narrow integer dtypes with magnitudes near their limits (sums must not wrap around)
    idt = [np.int8, np.uint8, np.int16][rng.randint(3)]
    hi = {np.int8: 120, np.uint8: 250, np.int16: 30000}[idt]
    xi = np.clip(np.round(np.asarray(x, np.float64) / (np.max(np.abs(x)) + 1e-30) * hi), 0 if idt is np.uint8 else -hi, hi)
    if not np.any(xi):
      xi = xi + hi
    x = xi.astype(idt)
    wit['input_dtype'] = str(np.dtype(idt))
    ctx.klass('rot-dtype:' + str(np.dtype(idt)))
  xin = x if as_numpy else jnp.asarray(x)
  if len(shape) == 0:
    ctx.klass('rot-shape:0d')
  if size & (size - 1):
    ctx.klass('rot-shape:non-pow2')
  if len(shape) >= 2:
    ctx.klass('rot-shape:rank>=2')
  snap_in = sanitize.snapshot_tree({'x': xin, 'key': k0}, freeze_numpy=False)
  r = guarded(ctx, 'structured_rotation', lambda: wh.structured_rotation(xin, k0), lambda e: None, wit)
  sanitize.verify_tree(ctx, snap_in, 'inputs/structured_rotation', witness=wit)
  if r.ok:
    okp = isinstance(r.value, tuple) and len(r.value) == 2
    if ctx.check(okp, 'norm/result-not-a-pair', f'structured_rotation returned {type(r.value).__name__}', wit):
      rot, shp = r.value
      judge_norm(ctx, 'norm', x, rot, wit)
      # -------- inverse
      snap = sanitize.snapshot_tree({'rotated': rot, 'key': k0, 'shape': shp}, freeze_numpy=False)
      ri = guarded(ctx, 'inverse_structured_rotation', lambda: wh.inverse_structured_rotation(rot, k0, shp),
                   lambda e: 'rotation/0d-inverse-raises' if (len(shape) == 0 and is_a2(e)) else None,
                   {**wit, 'original_shape_returned': shp})
      # the rotated array, key and shape belong to the caller: still alive and unchanged after un-rotating (they are used
      # again below: second un-rotation, other keys)
      alive = sanitize.verify_tree(ctx, snap, 'inputs/inverse_structured_rotation', witness=wit)
      if ri.ok:
        judge_inverse(ctx, 'inverse', x, ri.value, wit)
        if alive:
          ri2 = guarded(ctx, 'inverse_structured_rotation', lambda: wh.inverse_structured_rotation(rot, k0, shp),
                        lambda e: None, {**wit, 'call': 'second un-rotation of the same rotated array'})
          if ri2.ok:
            ctx.check(core.bit_equal(np.asarray(ri.value), np.asarray(ri2.value)), 'inverse/second-unrotation-differs',
                      'un-rotating the same rotated array a second time gives a different result', wit)
      # -------- different keys
      nnz = int(np.count_nonzero(x))
      if nnz >= 16:
        rot0 = np.asarray(rot)
        same = []
        for kj, sj in others:
          rj = guarded(ctx, 'structured_rotation', lambda kj=kj: wh.structured_rotation(xin, kj), lambda e: None,
                       {**wit, 'key_seed': sj})
          if not rj.ok:
            same = None
            break
          judge_norm(ctx, 'norm', x, rj.value[0], {**wit, 'key_seed': sj})
          same.append(bool(np.array_equal(np.asarray(rj.value[0]), rot0)))
        if same is not None:
          bad = all(same) or (nnz >= 64 and any(same))
          ctx.check(not bad, 'keys/different-keys-same-rotation',
                    f'keys {[s for _, s in others]} vs {s0}: rotation identical for {sum(same)} of 4 alternative keys',
                    {**wit, 'other_key_seeds': [s for _, s in others], 'identical': same, 'x': x})
  ctx.case_done((tuple(shape), kind, s0, typed_key, as_numpy) if size >= 2 else None,
                sample={**wit, 'size': size, 'padded': int(2**int(np.ceil(np.log2(max(size, 1)))))},
                klass=['rotation', f'values:{kind}'])


def random_shape(rng):
  r = rng.rand()
  if r < 0.45:
    k = rng.randint(0, 13)
    size = int(max(1, min(5000, 2**k + rng.randint(-1, 2))))
  else:
    size = int(rng.randint(1, 5001))
  rank = rng.randint(1, 5)
  if rank == 1:
    return (size,)
  # factor `size` approximately into `rank` dims (product <= 5000, >= 1)
  dims = []
  rem = size
  for _ in range(rank - 1):
    d = int(rng.randint(1, max(2, int(round(rem**(1.0 / 2))) + 1)))
    dims.append(d)
    rem = max(1, rem // d)
  dims.append(rem)
  rng.shuffle(dims)
  return tuple(int(d) for d in dims)


# --------------------------------------------------------------------------------------------- tree family
def run_tree_case(ctx, jax, jnp, wh, rng):
  allow_0d = rng.rand() < 0.4

  def leaf(r):
    if allow_0d and r.rand() < 0.4:
      shape = ()
    else:
      shape = TREE_LEAF_SHAPES[r.randint(len(TREE_LEAF_SHAPES))]
    return jnp.asarray(make_values(r, shape, ['normal', 'normal', 'constant', 'scaled-1e3'][r.randint(4)]))

  tree = gen.pytree(rng, leaf=leaf)
  if not isinstance(tree, (dict, list, tuple)):
    tree = {'w': tree} if rng.rand() < 0.7 else tree
  leaves, treedef = jax.tree_util.tree_flatten(tree)
  shapes = [tuple(l.shape) for l in leaves]
  has0d = any(len(s) == 0 for s in shapes)
  ctx.klass('tree:has-0d-leaf' if has0d else 'tree:no-0d-leaf')
  (k0, s0) = make_key(jax, rng)
  others = [make_key(jax, rng) for _ in range(4)]
  wit = {'treedef': str(treedef), 'leaf_shapes': [list(s) for s in shapes], 'key_seed': s0}
  r = guarded(ctx, 'structured_rotation_pytree', lambda: wh.structured_rotation_pytree(tree, k0), lambda e: None, wit)
  if r.ok and ctx.check(isinstance(r.value, tuple) and len(r.value) == 2, 'treestruct/result-not-a-pair',
                        f'structured_rotation_pytree returned {type(r.value).__name__}', wit):
    rot_tree, shp_tree = r.value
    rl, rdef = jax.tree_util.tree_flatten(rot_tree)
    if ctx.check(rdef == treedef and len(rl) == len(leaves), 'treestruct/structure-differs',
                 f'rotated tree structure {rdef} != input structure {treedef}', wit):
      for i, (l, rr) in enumerate(zip(leaves, rl)):
        judge_norm(ctx, 'treenorm', np.asarray(l), rr, {**wit, 'leaf': i})
      snap = sanitize.snapshot_tree({'rotated': rot_tree, 'key': k0, 'shapes': shp_tree}, freeze_numpy=False)
      ri = guarded(ctx, 'inverse_structured_rotation_pytree',
                   lambda: wh.inverse_structured_rotation_pytree(rot_tree, k0, shp_tree),
                   lambda e: 'rotation/0d-inverse-raises' if (has0d and is_a2(e)) else None, wit)
      sanitize.verify_tree(ctx, snap, 'inputs/inverse_structured_rotation_pytree', witness=wit)
      if ri.ok:
        bl, bdef = jax.tree_util.tree_flatten(ri.value)
        if ctx.check(bdef == treedef and len(bl) == len(leaves), 'treestruct/inverse-structure-differs',
                     f'inverse tree structure {bdef} != input structure {treedef}', wit):
          for i, (l, bb) in enumerate(zip(leaves, bl)):
            judge_inverse(ctx, 'treeinverse', np.asarray(l), bb, {**wit, 'leaf': i})
      # size-1 leaves: the rotation of a single coordinate is +-x; over 24 further keys both signs must occur (a size-1 leaf left
      # unrotated would pass every norm / inverse check). P(one sign only | correct) = 2**-24 per leaf.
      ones = [i for i, l in enumerate(leaves) if np.asarray(l).size == 1 and float(np.abs(np.asarray(l)).ravel()[0]) > 0]
      if ones:
        signs = {i: set() for i in ones}
        for kseed in range(24):
          rk = guarded(ctx, 'structured_rotation_pytree', lambda kseed=kseed: wh.structured_rotation_pytree(tree, jax.random.PRNGKey(7919 * kseed + s0 % 1000)),
                       lambda e: None, wit)
          if not rk.ok:
            signs = None
            break
          rkl = jax.tree_util.tree_leaves(rk.value[0])
          for i in ones:
            signs[i].add(float(np.sign(np.asarray(rkl[i]).ravel()[0] * np.asarray(leaves[i]).ravel()[0])))
        if signs is not None:
          for i in ones:
            ctx.count('hit:size1-leaf-signs')
            ctx.check(signs[i] >= {1.0, -1.0}, 'treekeys/size-1-leaf-same-rotation-for-every-key',
                      f'leaf {i} (a single coordinate) is rotated to the same sign under 24 different tree keys', {**wit, 'leaf': i, 'signs': sorted(signs[i])})
      big = [i for i, l in enumerate(leaves) if int(np.count_nonzero(np.asarray(l))) >= 16]
      if big:
        same = {i: [] for i in big}
        okk = True
        for kj, sj in others:
          rj = guarded(ctx, 'structured_rotation_pytree', lambda kj=kj: wh.structured_rotation_pytree(tree, kj),
                       lambda e: None, {**wit, 'key_seed': sj})
          if not rj.ok:
            okk = False
            break
          rjl = jax.tree_util.tree_leaves(rj.value[0])
          for i in big:
            same[i].append(bool(np.array_equal(np.asarray(rjl[i]), np.asarray(rl[i]))))
        if okk:
          for i in big:
            nnz = int(np.count_nonzero(np.asarray(leaves[i])))
            bad = all(same[i]) or (nnz >= 64 and any(same[i]))
            ctx.check(not bad, 'treekeys/different-keys-same-rotation',
                      f'leaf {i} (shape {shapes[i]}): rotation identical for {sum(same[i])} of 4 alternative tree keys',
                      {**wit, 'leaf': i, 'other_key_seeds': [s for _, s in others]})
  total = sum(int(np.prod(s, dtype=np.int64)) for s in shapes)
  ctx.case_done((str(treedef), tuple(shapes), s0) if total >= 2 else None, sample=wit, klass=['tree'])


def run(ctx):
  import fedjax  # pylint: disable=unused-import
  import jax
  import jax.numpy as jnp
  from fedjax.aggregators import walsh_hadamard as wh
  oracle_self_check()
  W = wh.walsh_hadamard_transform
  if ctx.quick:
    max_log, unit_all, eager_axes, n_rotr, n_tree = 10, 128, 7, 36, 60
    kinds_fixed = ['normal', 'constant', 'one-hot', 'scaled-1e3']
  else:
    max_log, unit_all, eager_axes, n_rotr, n_tree = 14, 512, 8, 420, 700
    kinds_fixed = ['normal', 'constant', 'one-hot', 'scaled-1e3', 'scaled-1e-3']
  for cid, (n, b, style) in ctx.enum('grid', grid_points(max_log)):
    run_grid_point(ctx, jax, jnp, W, n, b, style, unit_all, eager_axes)
  fixed = list(itertools.product(FIXED_SHAPES, kinds_fixed, [0, 1] if not ctx.quick else [0]))
  for cid, (shape, kind, rep) in ctx.enum('rot', fixed):
    rng = ctx.rng('rot', shape, kind, rep)
    run_rotation_case(ctx, jax, jnp, wh, rng, shape, kind, typed_key=(rep == 1 and kind == 'normal'),
                      as_numpy=(rep == 1 and kind == 'constant'))
  for cid, rng in ctx.cases('rotr', n_rotr):
    shape = random_shape(rng)
    kind = ['normal', 'normal', 'constant', 'one-hot', 'scaled-1e3', 'scaled-1e-3'][rng.randint(6)]
    run_rotation_case(ctx, jax, jnp, wh, rng, shape, kind)
  for cid, rng in ctx.cases('tree', n_tree):
    run_tree_case(ctx, jax, jnp, wh, rng)

TECHNIQUE += '; configuration shards (non-partitionable threefry, rbg PRNG); caller-owned-input sanitizer'
