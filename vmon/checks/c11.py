"""C11 — Stochastic quantizers are unbiased, bounded, finite and accounted.

Families (all cases run the real fedjax code; every oracle is float64 NumPy written from the property text and
the docstrings, sharing no code with fedjax):

  zerodraw  one directed case: a key whose uniform draw is exactly 0.0 at a coordinate holding the minimum
  mc        uniform / binary / TernGrad quantize functions, vmapped over N keys (4096 quick, 65536 thorough),
            every single output judged for finiteness / range / grid-neighbour membership / identity, the
            per-coordinate "upper neighbour" counts judged against Binomial(N, frac); plus one eager call of
            each function and of drive_pytree
  agg       3-round histories of the five compression aggregators; per round one general-weight apply and K
            one-hot applies from the SAME state (black-box per-client quantized trees)
"""
import math

import numpy as np

from vmon.core import HarnessError

PROPERTY = 'C11'
LEVEL = 'exploration'
RULE = ('Seeded random cases. mc: a float32 vector (size 1..257, rank 0..3, shape drawn from a per-run pool) of class '
        'normal / on-grid (dyadic and non-dyadic) / near-grid / constant / zero / one-outlier / huge dynamic range / '
        'offset / two-valued with a level count from {2,3,4,5,9,16,17,255,257} or random 2..300, quantized under N '
        'distinct keys. agg: a pytree structure from a per-run pool (1-4 leaves, 0-d..rank-3 leaves), one of five '
        'aggregator kinds, 1-5 clients (35% of multi-client cases with identical parameters), random non-negative '
        'weights, 3 rounds. Non-trivial: mc case with a non-degenerate range (some coordinate strictly between two '
        'levels) or a degenerate class that decides the identity claim (on-grid / constant / zero); agg case with >=2 '
        'clients of positive weight or a zero / constant leaf. Distinct by (family, shape or structure, class, levels, '
        'kind, clients, digest of the generated values).')
RULE += (" Wave-4 addition: family 'reshaped' - one aggregator object over six rounds whose trees share the container structure but alternate leaf shapes (with a re-init in between); the bit increment is judged per round.")
# Configuration shards (vmon.run): the cases of the plain shard with the given index are run once more in a process started
# under an environment the library is supposed to be indifferent to.
CONFIGS = {'quick': [{'name': 'threefry-nonpartitionable', 'env': {'JAX_THREEFRY_PARTITIONABLE': '0'}, 'shard': 0}], 'thorough': [{'name': 'threefry-nonpartitionable', 'env': {'JAX_THREEFRY_PARTITIONABLE': '0'}, 'shard': 0}, {'name': 'rbg-prng', 'env': {'JAX_DEFAULT_PRNG_IMPL': 'rbg'}, 'shard': 1}]}
ASSUMPTIONS = [
    'inputs are finite float32 with |x| in [1e-25, 1e30] (uniform/binary) or [1e-12, 1e15] (TernGrad/DRIVE, whose '
    'definitions square the input); subnormals and ranges that overflow float32 are not generated (DESIGN A14)',
    'a float32 implementation may round: level values are compared up to 4 ulp (2^-23) of max(|min|,|max|,range), '
    'level indices up to 4 ulp of (levels-1) grid steps; exact identity is demanded only on dyadic grids, constant '
    'and zero vectors',
    'TernGrad: the float32 standard deviation may differ from the float64 one by 2e-5 relative plus d*2^-23*|mean|; '
    'vectors with |mean| >> std are not given to TernGrad',
    'jax.random.split yields distinct, independent keys; the expectation over "the quantizer\'s randomness" is '
    'estimated over such keys',
    'statistical verdicts: exact Binomial quantiles at 1e-13 united with a 7-sigma + 1/n band; distinctness '
    'verdicts only where the oracle bounds the collision probability below 1e-13',
    'the rotated quantizer is judged by linearity, the loose error bound sqrt(d_pad)*2|x|_2/(L-1), finiteness and '
    'bit accounting (its rotation keys are internal)',
]
SHARDS = {'quick': 4, 'thorough': 14}
SHARD_TIMEOUT = {'quick': 900, 'thorough': 3000}
EXHAUSTIVE = {'quick': False, 'thorough': False}
MIN_HITS = {
    'quick': {
        'mon:finite': 400, 'mon:range': 200, 'mon:member': 200, 'mon:identity': 60, 'mon:unbiased': 80,
        'mon:tern': 100, 'mon:ternbias': 30, 'mon:drive': 40, 'mon:linear': 200, 'mon:errbound': 100,
        'mon:clientkeys': 20, 'mon:rounds': 60, 'mon:bits': 400, 'mon:zerodraw': 15, 'hook:uq': 300, 'hook:tq': 100, 'hook:rot': 200,
        'class:zero-leaf-drive': 2, 'class:identical-clients': 10, 'class:many-clients': 5, 'class:huge-cohort': 4, 'hit:reshaped-round': 60, 'class:int32-weights-total-above-2^31': 5, 'hit:aggregator-round-failed-midway': 30, 'coords:unbiased-offgrid': 2000,
    },
    'thorough': {
        'mon:finite': 4000, 'mon:range': 2000, 'mon:member': 2000, 'mon:identity': 600, 'mon:unbiased': 800,
        'mon:tern': 1000, 'mon:ternbias': 300, 'mon:drive': 300, 'mon:linear': 2000, 'mon:errbound': 1000,
        'mon:clientkeys': 200, 'mon:rounds': 600, 'mon:bits': 4000, 'mon:zerodraw': 15, 'hook:uq': 3000, 'hook:tq': 1000, 'hook:rot': 2000,
        'class:zero-leaf-drive': 20, 'class:identical-clients': 100, 'coords:unbiased-offgrid': 20000, 'hit:reshaped-round': 300,
    },
}
TECHNIQUE = ('runtime monitoring: float64 grid / TernGrad / DRIVE / bit-count oracles over vmapped Monte-Carlo '
             'executions of the real quantizers and over multi-round aggregator histories (one-hot linearity probe)')
LEVEL_TEXT = ('The real quantize functions are executed under thousands of keys per generated vector and every single '
              'output is judged (finite, in range, one of the two grid neighbours, identity on degenerate inputs); the '
              'per-coordinate outcome counts are judged against the exact Binomial law (1e-13 tails, at least 7 sigma). '
              'The five aggregators are run for 3-round histories; one-hot weight vectors from the same state expose each '
              'client\'s quantized tree, which is judged like a direct quantizer output and against which the general '
              'weighted result, the bit-count increment and the key discipline (clients, rounds) are checked. '
              'Held-on-observed over the generated cases, not a proof; expectation is estimated, not derived.')
LEVEL_NOTE = ('Trusts NumPy float64 arithmetic, scipy.stats.binom quantiles, jax.random (distinct keys from split, '
              'vmap semantics) and the harness oracles (self-checked at shard start against a NumPy reference quantizer '
              'and a deliberately biased one).')

EPS32 = 2.0**-23
TAIL = 1e-13
LN_TAIL = math.log(TAIL)
CHUNK = 4096
DYADIC_L = (2, 3, 5, 9, 17, 257)
PLAIN_L = (2, 3, 4, 16, 255)
KINDS = ('uniform', 'arith', 'rotated', 'drive', 'tern')


# ===================================================================== oracles
def band(n, p_lo, p_hi):
  """Accepted count interval for Binomial(n, p) with p anywhere in [p_lo, p_hi]."""
  from scipy import stats
  p_lo = np.clip(np.asarray(p_lo, np.float64), 0.0, 1.0)
  p_hi = np.clip(np.asarray(p_hi, np.float64), 0.0, 1.0)
  kmin = np.minimum(stats.binom.ppf(TAIL, n, p_lo), n * p_lo - 7 * np.sqrt(n * p_lo * (1 - p_lo))) - 1
  kmax = np.maximum(stats.binom.isf(TAIL, n, p_hi), n * p_hi + 7 * np.sqrt(n * p_hi * (1 - p_hi))) + 1
  kmin = np.where(p_lo <= 0, -1.0, kmin)
  kmax = np.where(p_hi >= 1, n + 1.0, kmax)
  return kmin, kmax


class Grid:
  """Uniform L-level grid between min and max of a float32 vector (float64 arithmetic)."""

  def __init__(self, v, levels):
    x = np.asarray(v, np.float64).ravel()
    self.x = x
    self.L = int(levels)
    self.vmin = float(x.min())
    self.vmax = float(x.max())
    self.R = self.vmax - self.vmin
    self.scale = max(abs(self.vmin), abs(self.vmax), self.R)
    self.tol = 4 * EPS32 * self.scale
    self.degenerate = not self.R > 0
    if self.degenerate:
      self.step = 0.0
      self.frac = np.zeros_like(x)
      self.cand = np.stack([x, x, x])
      self.mid = x + np.inf
      self.dp = 0.0
      return
    self.step = self.R / (self.L - 1)
    u = (x - self.vmin) / self.step
    delta = 4 * EPS32 * (self.L - 1)
    kl = np.clip(np.floor(u - delta), 0, self.L - 1)
    kh = np.clip(np.ceil(u + delta), 0, self.L - 1)
    km = np.minimum(kl + 1, kh)
    self.cand = self.vmin + np.stack([kl, km, kh]) * self.step
    lo = np.floor(u)
    self.frac = u - lo
    self.mid = self.vmin + (lo + 0.5) * self.step
    # rounding of the float32 threshold + the 2^-23 granularity of the uniform draw
    self.dp = 2.0**-22 + 6 * EPS32 * (self.L - 1)

  def log_same(self):
    """log P(two independent quantizations coincide)."""
    p = self.frac
    return float(np.sum(np.log(p * p + (1 - p) * (1 - p))))


class GridJudge:
  """Accumulates verdicts over chunks of outputs o[n, d] of a grid quantizer."""

  def __init__(self, grid, exact_identity, ongrid):
    self.g = grid
    self.n = 0
    d = grid.x.size
    self.upper = np.zeros(d)
    self.moved = np.zeros(d)
    self.exact_identity = exact_identity   # degenerate or dyadic on-grid: every output must equal the input
    self.ongrid = ongrid
    self.bad = {}   # kind -> (row, coord, value)

  def _first(self, kind, mask, o, row0):
    if kind in self.bad or not mask.any():
      return
    r, c = np.argwhere(mask)[0]
    self.bad[kind] = (int(r) + row0, int(c), float(o[r, c]))

  def add(self, out):
    g = self.g
    o = np.asarray(out, np.float64).reshape(len(out), -1)
    row0 = self.n
    self.n += o.shape[0]
    with np.errstate(invalid='ignore'):
      omin, omax = o.min(), o.max()
      if not (np.isfinite(omin) and np.isfinite(omax)):   # NaN propagates through min/max
        fin = np.isfinite(o)
        self._first('finite', ~fin, o, row0)
      else:
        fin = True
      if not (omin >= g.vmin - g.tol and omax <= g.vmax + g.tol):
        self._first('range', fin & ((o < g.vmin - g.tol) | (o > g.vmax + g.tol)), o, row0)
      dev = np.abs(o - g.cand[0])
      np.minimum(dev, np.abs(o - g.cand[1]), out=dev)
      np.minimum(dev, np.abs(o - g.cand[2]), out=dev)
      if not dev.max() <= g.tol:
        self._first('member', fin & (dev > g.tol), o, row0)
      self.upper += (o > g.mid).sum(0)
      if self.exact_identity:
        ch = o != g.x
        self.moved += ch.sum(0)
        self._first('identity', ch, o, row0)
      elif self.ongrid:
        self.moved += (np.abs(o - g.x) > g.tol).sum(0)

  def unbiased_bad(self):
    """Coordinates whose upper-neighbour count leaves the accepted interval."""
    g = self.g
    if g.degenerate:
      return np.zeros(0, int), None, None
    kmin, kmax = band(self.n, g.frac - g.dp, g.frac + g.dp)
    return np.flatnonzero((self.upper < kmin) | (self.upper > kmax)), kmin, kmax

  def moved_bad(self):
    """Non-dyadic on-grid vectors: a coordinate may move only with rounding-sized probability."""
    g = self.g
    # float32(vmin + k*step) is itself up to an ulp off the exact grid between float32 min and max: that true
    # fractional offset is a legitimate probability of landing on the other neighbour.
    off = np.minimum(g.frac, 1 - g.frac)
    _, kmax = band(self.n, 0.0, off + 2.0**-22 + 8 * EPS32 * (g.L - 1))
    return np.flatnonzero(self.moved > kmax), kmax


class Tern:
  """TernGrad: clip at 2.5 sigma, s = largest clipped magnitude, outputs in {-s,0,+s}, E = clipped input."""

  def __init__(self, v):
    x = np.asarray(v, np.float64).ravel()
    self.x = x
    d = x.size
    sigma = float(x.std())
    thr = 2.5 * sigma
    self.c = np.where(np.abs(x) > thr, thr * np.sign(x), x)
    self.s = float(np.abs(self.c).max())
    self.tol_s = 2e-5 * self.s + 2.5 * (d + 4) * EPS32 * abs(float(x.mean())) + 8 * EPS32 * float(np.abs(x).max())
    self.degenerate = not self.s > 8 * self.tol_s
    if self.degenerate:
      self.p = np.zeros_like(x)
      self.dp = 1.0
    else:
      self.p = np.abs(self.c) / self.s
      self.dp = 2 * self.tol_s / self.s + 2.0**-22

  def log_same(self):
    if self.degenerate:
      return 0.0
    p = self.p
    return float(np.sum(np.log(p * p + (1 - p) * (1 - p))))


class TernJudge:

  def __init__(self, tern):
    self.t = tern
    self.n = 0
    self.nonzero = np.zeros(tern.x.size)
    self.mags = set()
    self.bad = {}

  def _first(self, kind, mask, o, row0):
    if kind in self.bad or not mask.any():
      return
    r, c = np.argwhere(mask)[0]
    self.bad[kind] = (int(r) + row0, int(c), float(o[r, c]))

  def add(self, out):
    t = self.t
    o = np.asarray(out, np.float64).reshape(len(out), -1)
    row0 = self.n
    self.n += o.shape[0]
    a = np.abs(o)
    nz = a > 0
    with np.errstate(invalid='ignore'):
      amax = a.max()
      if not np.isfinite(amax):
        fin = np.isfinite(o)
        self._first('finite', ~fin, o, row0)
      else:
        fin = True
      if not np.all((o * t.x)[nz] > 0):
        self._first('sign', fin & nz & (np.sign(o) != np.sign(t.x)), o, row0)
      if nz.any():
        amin = a[nz].min() if fin is True else np.nanmin(np.where(nz & fin, a, np.nan))
        if len(self.mags) < 8:
          self.mags.update(float(m) for m in (amin, amax) if np.isfinite(m))
        if t.degenerate:
          if not amax <= t.s + t.tol_s:
            self._first('levels', fin & (a > t.s + t.tol_s), o, row0)
        elif not (abs(amax - t.s) <= t.tol_s and abs(amin - t.s) <= t.tol_s):
          self._first('levels', fin & nz & (np.abs(a - t.s) > t.tol_s), o, row0)
    self.nonzero += nz.sum(0)

  def bias_bad(self):
    t = self.t
    if t.degenerate:
      return np.zeros(0, int), None, None
    kmin, kmax = band(self.n, t.p - t.dp, t.p + t.dp)
    return np.flatnonzero((self.nonzero < kmin) | (self.nonzero > kmax)), kmin, kmax


def drive_ref(v):
  x = np.asarray(v, np.float64).ravel()
  l1 = np.abs(x).sum()
  if l1 == 0:
    return np.zeros_like(x), 0.0
  s = float((x * x).sum() / l1)
  return s * np.sign(x), s


def arithmetic_bits_ref(leaf):
  """k*log2(e*(d+k)/k) + d*H + 2*32 + 2 for one quantized leaf (documented arithmetic-coding cost)."""
  x = np.nan_to_num(np.asarray(leaf, np.float64).ravel())
  d = x.size
  _, counts = np.unique(x, return_counts=True)
  k = len(counts)
  pr = counts / counts.sum()
  ent = float(-(pr * np.log2(pr)).sum())
  return k * math.log2(math.e * (d + k) / k) + d * ent + 2 * 32 + 2


def plain_bits_ref(kind, levels, sizes):
  n = sum(sizes)
  floats = 2 * len(sizes)
  per = {'uniform': math.log2(levels), 'rotated': math.log2(levels), 'drive': 1.0, 'tern': math.log2(3)}[kind]
  return per * n + 32 * floats


def selfcheck(ctx):
  """The judges accept a NumPy reference quantizer and reject a biased one."""
  from vmon.core import Inconclusive
  rng = ctx.rng('selfcheck')
  v = rng.randn(32).astype(np.float32)
  for levels in (2, 4, 16):
    g = Grid(v, levels)
    # (the maximum's position (x - vmin) / step may round to L-1 + 2e-15: the reference quantizer takes its lower neighbour from
    #  0..L-2 and treats positions within 1e-9 of a level as on that level, or its biased variant would leave the range there)
    u_ = (g.x - g.vmin) / g.step
    lo = np.clip(np.floor(u_), 0, levels - 2)
    fr = np.clip(u_ - lo, 0.0, 1.0)
    inner = (fr > 1e-9) & (fr < 1 - 1e-9)
    fr = np.where(inner, fr, np.round(fr))
    for bias, want_bad in ((0.0, False), (0.12, True)):
      j = GridJudge(g, False, False)
      r = rng.rand(4096, 32)
      out = g.vmin + (lo + (r < np.clip(fr + bias * inner, 0, 1))) * g.step
      j.add(out.astype(np.float32))
      bad, _, _ = j.unbiased_bad()
      if j.bad or bool(len(bad)) != want_bad:
        raise Inconclusive(f'grid oracle self-check failed (levels={levels}, bias={bias}, bad={j.bad}, n={len(bad)})')
  t = Tern(v)
  for bias, want_bad in ((0.0, False), (0.12, True)):
    j = TernJudge(t)
    out = np.sign(t.x) * t.s * (rng.rand(4096, 32) < np.clip(t.p - bias * (t.p < 1), 0, 1))
    j.add(out.astype(np.float32).astype(np.float64))
    bad, _, _ = j.bias_bad()
    # float32 rounding of s is inside tol_s by construction
    if ('sign' in j.bad) or ('finite' in j.bad) or bool(len(bad)) != want_bad:
      raise Inconclusive(f'TernGrad oracle self-check failed (bias={bias}, bad={j.bad}, n={len(bad)})')
  if abs(arithmetic_bits_ref(np.array([1.5])) - (math.log2(2 * math.e) + 66)) > 1e-9:
    raise Inconclusive('arithmetic-bits oracle self-check failed')
  ctx.count('selfcheck:ok')


# ================================================================== generators
def shape_pool(rng, count):
  forced = [(1,), (257,), (2,), (), (16, 16), (3, 5, 7), (256,), (2, 1, 3)]
  pool = []
  for i in range(count):
    if i < len(forced):
      pool.append(forced[i])
      continue
    rank = rng.randint(1, 4)
    while True:
      if rank == 1:
        s = (int(rng.randint(1, 258)),)
      elif rank == 2:
        a = int(rng.randint(1, 33))
        s = (a, int(rng.randint(1, 257 // a + 1)))
      else:
        a = int(rng.randint(1, 9))
        b = int(rng.randint(1, 9))
        s = (a, b, int(rng.randint(1, max(2, 257 // (a * b) + 1))))
      if 1 <= int(np.prod(s)) <= 257 and s not in pool:
        break
    pool.append(s)
  return pool


def balance(pool, nshards):
  """Orders a pool so that the shapes of shard s (indices s, s+S, s+2S, ...) have a similar total size."""
  a = sorted(pool, key=lambda s: (int(np.prod(s)) if len(s) else 1, s))
  out = []
  for g in range(len(a) // nshards):
    block = a[g * nshards:(g + 1) * nshards]
    out.extend(block[::-1] if g % 2 else block)
  return out


def pick_levels(rng, dyadic=False):
  if dyadic:
    return int(DYADIC_L[rng.randint(len(DYADIC_L))])
  r = rng.rand()
  if r < 0.6:
    return int(PLAIN_L[rng.randint(len(PLAIN_L))])
  if r < 0.8:
    return int(DYADIC_L[rng.randint(len(DYADIC_L))])
  return int(rng.randint(2, 301))


def is_dyadic_levels(levels):
  return levels >= 2 and ((levels - 1) & (levels - 2)) == 0


MC_CLASSES = ('normal', 'ongrid-dyadic', 'ongrid', 'neargrid', 'constant', 'zero', 'outlier', 'hugerange', 'offset',
              'twovalued', 'tinyrange')
MC_WEIGHTS = np.array([0.22, 0.11, 0.08, 0.08, 0.07, 0.05, 0.08, 0.09, 0.06, 0.08, 0.08])


def make_values(rng, shape, klass, levels, bound_hi=30, bound_lo=-25):
  """float32 array of the given class; returns (array, effective class)."""
  d = int(np.prod(shape)) if len(shape) else 1
  if d == 1 and klass not in ('zero',):
    klass = 'constant'
  if klass == 'normal':
    scale = 1.0 if rng.rand() < 0.5 else 10.0**rng.uniform(-3, 3)
    x = rng.randn(d) * scale
  elif klass == 'ongrid-dyadic':
    e = int(rng.randint(-6, 7))
    step = 2.0**e
    a = int(rng.randint(-2048, 2049))
    idx = rng.randint(0, levels, size=d)
    idx[0] = 0
    idx[-1] = levels - 1
    rng.shuffle(idx)
    x = (a + idx) * step
  elif klass in ('ongrid', 'neargrid'):
    vmin = rng.randn() * 10
    step = abs(rng.randn()) + 0.1
    idx = rng.randint(0, levels, size=d)
    idx[0] = 0
    idx[-1] = levels - 1
    rng.shuffle(idx)
    x = (vmin + idx * step).astype(np.float32)
    if klass == 'neargrid':
      ulps = rng.randint(-3, 4, size=d)
      inner = (idx > 0) & (idx < levels - 1)
      x = np.where(inner, x + ulps * np.spacing(np.abs(x)).astype(np.float32), x)
  elif klass == 'constant':
    c = [rng.randn() * 10.0**rng.uniform(-3, 3), 0.1, -3.5, 10.0**bound_hi, -(10.0**min(bound_hi, 20)), 1.0][rng.randint(6)]
    x = np.full(d, c)
  elif klass == 'zero':
    x = np.zeros(d)
    if rng.rand() < 0.25:
      x = -x
  elif klass == 'outlier':
    x = rng.randn(d)
    x[rng.randint(d)] = rng.choice([-1, 1]) * rng.uniform(50, 1000)
  elif klass == 'hugerange':
    lo = rng.uniform(bound_lo, bound_hi - 5)
    hi = rng.uniform(lo + 5, bound_hi)
    x = rng.randn(d) * 10.0**rng.uniform(lo, hi, size=d)
    x = np.clip(x, -(10.0**bound_hi), 10.0**bound_hi)
    x = np.where(np.abs(x) < 10.0**bound_lo, 10.0**bound_lo, x)
  elif klass == 'offset':
    x = [1000.0, -1e6, 37.0][rng.randint(3)] + rng.randn(d)
  elif klass == 'tinyrange':
    # all values (hence the min..max range) far below any epsilon-style guard, but well inside float32's normal range
    x = rng.rand(d) * 10.0**rng.uniform(-14, -9)
    if rng.rand() < 0.5:
      x = x - x.mean()
  elif klass == 'twovalued':
    a, b = rng.randn(2) * 10.0**rng.uniform(-2, 2)
    if rng.rand() < 0.5:
      a, b = float(rng.randint(-8, 8)), float(rng.randint(9, 30))
    x = np.where(rng.rand(d) < 0.5, a, b)
    x[0], x[-1] = a, b
  else:
    raise ValueError(klass)
  arr = np.asarray(x, np.float64).astype(np.float32).reshape(shape)
  return arr, klass


def digest(*arrays):
  import hashlib
  m = hashlib.sha256()
  for a in arrays:
    a = np.ascontiguousarray(a)
    m.update(str(a.shape).encode() + a.tobytes())
  return m.hexdigest()[:16]


def key_bits(jax, key):
  del jax
  return [int(x) for x in np.asarray(key).ravel()]


# =============================================================== family zerodraw
def run_zerodraw(ctx, jax, jnp, C):
  """A key whose uniform draw is exactly 0.0 where the vector holds its minimum.

  On-grid vectors must pass through unchanged under EVERY key; the draw 0.0 is the boundary of the Bernoulli
  threshold comparison.
  """
  d = 257
  draw = jax.jit(jax.vmap(lambda k: jax.random.uniform(key=k, shape=(d,))))
  mk = jax.jit(jax.vmap(jax.random.PRNGKey))
  for cid, _ in ctx.enum('zerodraw', [0]):
    rng = ctx.rng('zerodraw')
    start = int(rng.randint(0, 2**30))
    found = None
    for c in range(120):
      seeds = np.arange(start + c * 8192, start + (c + 1) * 8192, dtype=np.int64)
      r = np.asarray(draw(mk(jnp.asarray(seeds))))
      z = np.argwhere(r == 0.0)
      if len(z):
        found = (int(seeds[z[0][0]]), int(z[0][1]))
        break
    if found is None:
      ctx.count('zerodraw:no-zero-draw-found')
      ctx.case_done(None, sample={'family': 'zerodraw', 'found': None})
      continue
    seed, pos = found
    key = jax.random.PRNGKey(seed)
    for name, lo, hi in (('0/1', 0.0, 1.0), ('-4/12', -4.0, 12.0)):
      v = np.full(d, hi, np.float32)
      v[pos] = lo
      v[(pos + 1) % d] = lo
      wit = {'quantizer': 'binary', 'PRNGKey_seed': seed, 'shape': [d], 'vector': f'all {hi} except {lo} at {pos} and {(pos + 1) % d}',
             'coord': pos, 'uniform_draw_at_coord': 0.0}
      r = ctx.call('binary_stochastic_quantize', C.binary_stochastic_quantize, jnp.asarray(v), key, witness=wit)
      if r.ok:
        out = np.asarray(r.value)
        ctx.count('mon:zerodraw')
        ctx.check(out[pos] == v[pos] and np.array_equal(out, v), 'identity/binary-min-flips-to-max-on-zero-draw',
                  f'binary_stochastic_quantize changed an on-grid (two-valued {name}) vector: coordinate {pos} holds the '
                  f'minimum {lo}, the uniform draw there is exactly 0.0 and the output is {float(out[pos])}',
                  {**wit, 'out_at_coord': float(out[pos]), 'changed_coords': np.flatnonzero(out != v).tolist()})
      r = ctx.call('uniform_stochastic_quantize', C.uniform_stochastic_quantize, jnp.asarray(v), 2, key, witness=wit)
      if r.ok:
        out = np.asarray(r.value)
        ctx.count('mon:zerodraw')
        ctx.check(np.array_equal(out, v), 'identity/uniform-changed-on-zero-draw',
                  f'uniform_stochastic_quantize(levels=2) changed an on-grid vector under a key with a 0.0 draw',
                  {**wit, 'quantizer': 'uniform', 'changed_coords': np.flatnonzero(out != v).tolist()})
    # The analogous boundary in the uniform quantizer (threshold = frac = 0 with rand == 0) and in TernGrad:
    # dyadic on-grid vectors with every level index placed once on the zero-draw coordinate.
    zrng = ctx.rng('zerodraw-levels')
    for levels in (2, 3, 5, 17, 257):
      for at in sorted({0, levels - 1, int(zrng.randint(0, levels))}):
        idx = zrng.randint(0, levels, size=d)
        idx[(pos + 2) % d], idx[(pos + 3) % d] = 0, levels - 1
        idx[pos] = at
        v = ((idx - 7) * 0.25).astype(np.float32)
        wit = {'quantizer': 'uniform', 'levels': levels, 'PRNGKey_seed': seed, 'shape': [d], 'coord': pos,
               'vector': 'on-grid dyadic: (idx-7)*0.25', 'level_index_at_coord': at, 'uniform_draw_at_coord': 0.0, 'v': v[:24]}
        r = ctx.call('uniform_stochastic_quantize', C.uniform_stochastic_quantize, jnp.asarray(v), levels, key, witness=wit)
        if r.ok:
          out = np.asarray(r.value)
          ctx.count('mon:zerodraw')
          ctx.check(np.array_equal(out, v), 'identity/uniform-changed-on-zero-draw',
                    f'uniform_stochastic_quantize(levels={levels}) changed a dyadic on-grid vector under a key whose draw is '
                    f'0.0 at a coordinate holding level {at}', {**wit, 'changed_coords': np.flatnonzero(out != v).tolist(),
                                                               'out_at_coord': float(out[pos])})
    # off-grid coordinate on the zero draw: must go to a neighbour (the upper one), never elsewhere
    v = zrng.randn(d).astype(np.float32)
    g = Grid(v, 4)
    r = ctx.call('uniform_stochastic_quantize', C.uniform_stochastic_quantize, jnp.asarray(v), 4, key, witness={'PRNGKey_seed': seed})
    if r.ok:
      j = GridJudge(g, False, False)
      j.add(np.asarray(r.value).reshape(1, -1))
      ctx.count('mon:zerodraw')
      ctx.check(not j.bad, 'member/uniform-not-a-grid-neighbour', 'uniform quantizer left the grid neighbours under a zero draw',
                {'PRNGKey_seed': seed, 'bad': j.bad, 'v': v[:24]})
    vt = zrng.randn(d).astype(np.float32)
    vt[pos] = 0.0
    r = ctx.call('terngrad_quantize', C.terngrad_quantize, jnp.asarray(vt), key, witness={'PRNGKey_seed': seed})
    if r.ok:
      jt = TernJudge(Tern(vt))
      jt.add(np.asarray(r.value).reshape(1, -1))
      ctx.count('mon:zerodraw')
      ctx.check(not jt.bad, 'tern/output-not-in-{-s,0,+s}', 'terngrad_quantize under a zero draw at a zero coordinate',
                {'PRNGKey_seed': seed, 'bad': jt.bad, 'out_at_coord': float(np.asarray(r.value)[pos])})
    ctx.case_done(('zerodraw', seed, pos), sample={'family': 'zerodraw', 'PRNGKey_seed': seed, 'coord': pos},
                  klass='zerodraw')


# ===================================================================== family mc
def classify_binary_change(jax, key, shape, v, row_out, coord):
  """True when a changed coordinate is exactly the 'uniform draw == 0.0 at a minimum' mechanism."""
  try:
    r = np.asarray(jax.random.uniform(key=key, shape=shape)).ravel()
    x = np.asarray(v).ravel()
    return bool(r[coord] == 0.0 and x[coord] == x.min() and row_out == x.max())
  except Exception:  # pylint: disable=broad-except
    return False


def run_mc(ctx, jax, jnp, C):
  S = ctx.nshards
  per = 3 if ctx.quick else 2
  P = S * per
  pool = balance(shape_pool(ctx.rng('mc-shapes'), P), S)
  sweeps = 14 if ctx.quick else 30
  nkeys = 4096 if ctx.quick else 65536
  fns = {}

  def vm(shape):
    if shape not in fns:

      def one(vu, vt, levels, key):
        return (C.uniform_stochastic_quantize(vu, levels, key), C.binary_stochastic_quantize(vu, key),
                C.terngrad_quantize(vt, key))

      fns[shape] = jax.jit(jax.vmap(one, in_axes=(None, None, None, 0)))
    return fns[shape]

  for cid, rng in ctx.cases('mc', P * sweeps):
    i = int(cid.split('/')[1])
    shape = pool[i % P]
    d = int(np.prod(shape)) if len(shape) else 1
    klass = MC_CLASSES[rng.choice(len(MC_CLASSES), p=MC_WEIGHTS)]
    levels = pick_levels(rng, dyadic=(klass == 'ongrid-dyadic'))
    vu, klass = make_values(rng, shape, klass, levels)
    # TernGrad squares its input and needs a meaningful float32 std: bounded magnitude, no large offset.
    if klass in ('hugerange',):
      vt, _ = make_values(rng, shape, klass, levels, bound_hi=15, bound_lo=-12)
    elif klass == 'offset':
      vt = (vu.astype(np.float64) - np.round(vu.astype(np.float64).mean())).astype(np.float32)
    elif klass == 'constant' and abs(float(vu.ravel()[0])) > 1e15:
      vt = np.full(shape, np.float32(1e15) * np.sign(vu.ravel()[0]), np.float32)
    else:
      vt = vu
    vu.flags.writeable = False
    vt.flags.writeable = False
    seed = int(rng.randint(0, 2**31 - 1))
    keys = jax.random.split(jax.random.PRNGKey(seed), nkeys)
    grid = Grid(vu, levels)
    grid2 = Grid(vu, 2)
    tern = Tern(vt)
    dy = klass == 'ongrid-dyadic'
    two_dy = klass == 'twovalued' and float(vu.ravel()[0]) == round(float(vu.ravel()[0])) and float(
        vu.ravel()[-1]) == round(float(vu.ravel()[-1]))
    two_valued = np.unique(vu).size == 2
    ongrid_u = klass in ('ongrid-dyadic', 'ongrid', 'twovalued')
    ongrid_b = two_valued
    ju = GridJudge(grid, grid.degenerate or dy or (two_dy and is_dyadic_levels(levels)), ongrid_u)
    jb = GridJudge(grid2, grid2.degenerate or (two_valued and (two_dy or dy)), ongrid_b)
    jt = TernJudge(tern)
    wit = {'family': 'mc', 'class': klass, 'shape': list(shape), 'levels': levels, 'key_seed': seed, 'nkeys': nkeys,
           'vmin': grid.vmin, 'vmax': grid.vmax, 'v': vu.ravel()[:24]}
    f = vm(shape)
    failed = False
    for a in range(0, nkeys, CHUNK):
      r = ctx.call('quantize.vmap', lambda a=a: [np.asarray(o) for o in f(vu, vt, levels, keys[a:a + CHUNK])],
                   witness=wit)
      if not r.ok:
        failed = True
        break
      ou, ob, ot = r.value
      ju.add(ou)
      jb.add(ob)
      jt.add(ot)
    if failed:
      ctx.case_done(None, sample=wit, klass='mc:raised')
      continue

    def kw(row):
      return key_bits(jax, keys[row])

    # ---- per-output verdicts of the two grid quantizers
    for name, j, g, v in (('uniform', ju, grid, vu), ('binary', jb, grid2, vu)):
      x = g.x
      lv = g.L

      def w(kind, j=j, g=g, name=name, lv=lv):
        row, c, val = j.bad[kind]
        return {**wit, 'quantizer': name, 'levels': lv, 'key': kw(row), 'coord': c, 'input': float(g.x[c]), 'output': val,
                'step': g.step, 'tol': g.tol}

      ctx.check('finite' not in j.bad, f'finite/{name}-nonfinite', f'{name} quantizer produced NaN/Inf',
                w('finite') if 'finite' in j.bad else None)
      ctx.check('range' not in j.bad, f'range/{name}-outside-min-max', f'{name} quantizer output outside [min,max]',
                w('range') if 'range' in j.bad else None)
      ctx.check('member' not in j.bad, f'member/{name}-not-a-grid-neighbour',
                f'{name} quantizer output is not one of the two grid neighbours of its input (4-ulp allowance)',
                w('member') if 'member' in j.bad else None)
      ctx.count('coords:member', j.n * x.size)
      if j.exact_identity:
        sub = 'zero' if klass == 'zero' else ('constant' if g.degenerate else 'ongrid-dyadic')
        key_ = f'identity/{name}-{sub}-changed'
        if 'identity' in j.bad and name == 'binary' and not g.degenerate:
          row, c, val = j.bad['identity']
          if classify_binary_change(jax, keys[row], shape, vu, val, c):
            key_ = 'identity/binary-min-flips-to-max-on-zero-draw'
        ctx.check('identity' not in j.bad, key_,
                  f'{name} quantizer changed a {sub} vector (must pass through unchanged); {int(j.moved.sum())} of '
                  f'{j.n * x.size} outputs differ', w('identity') if 'identity' in j.bad else None)
        ctx.klass(f'identity:{name}:{sub}')
      elif j.ongrid:
        bad, kmax = j.moved_bad()
        ctx.check(len(bad) == 0, f'identity/{name}-ongrid-moved',
                  f'{name} quantizer moved an on-grid coordinate by more than 4 ulp of the range more often than float32 '
                  f'rounding explains', None if not len(bad) else {
                      **wit, 'quantizer': name, 'coord': int(bad[0]), 'input': float(x[bad[0]]),
                      'moved': float(j.moved[bad[0]]), 'allowed': float(kmax[bad[0]]), 'n': j.n})
        ctx.klass(f'identity:{name}:ongrid-nondyadic')
      if not g.degenerate and not g.step > 4 * g.tol:
        # float32 cannot tell the two neighbours apart at this offset (step below the rounding allowance):
        # the outcome counts are not observable, only membership is judged.
        ctx.count('unbiased:skipped-step-below-float32-resolution')
      elif not g.degenerate:
        bad, kmin, kmax = j.unbiased_bad()
        off = int(((g.frac > 0.02) & (g.frac < 0.98)).sum())
        ctx.count('coords:unbiased', x.size)
        ctx.count('coords:unbiased-offgrid', off)
        wb = None
        if len(bad):
          c = int(bad[0])
          wb = {**wit, 'quantizer': name, 'levels': lv, 'coord': c, 'input': float(x[c]), 'frac': float(g.frac[c]),
                'upper_count': float(j.upper[c]), 'n': j.n, 'accepted': [float(kmin[c]), float(kmax[c])],
                'bad_coords': int(len(bad))}
        ctx.check(len(bad) == 0, f'unbiased/{name}-mean-off-input',
                  f'{name} quantizer: upper-neighbour frequency is outside the Binomial(n, frac) band '
                  f'({len(bad)} of {x.size} coordinates)', wb)

    # ---- TernGrad
    def wt(kind):
      row, c, val = jt.bad[kind]
      return {**wit, 'quantizer': 'terngrad', 'v': vt.ravel()[:24], 'key': kw(row), 'coord': c, 'input': float(tern.x[c]),
              'clipped': float(tern.c[c]), 's': tern.s, 'output': val, 'tol_s': tern.tol_s}

    ctx.check('finite' not in jt.bad, 'finite/terngrad-nonfinite', 'terngrad_quantize produced NaN/Inf',
              wt('finite') if 'finite' in jt.bad else None)
    ctx.check('levels' not in jt.bad, 'tern/output-not-in-{-s,0,+s}',
              'terngrad_quantize output magnitude is neither 0 nor s = largest 2.5-sigma-clipped magnitude',
              wt('levels') if 'levels' in jt.bad else None)
    ctx.check('sign' not in jt.bad, 'tern/sign-flipped', 'terngrad_quantize output has the wrong sign',
              wt('sign') if 'sign' in jt.bad else None)
    if not tern.degenerate:
      ctx.check(len(jt.mags) <= 1, 'tern/more-than-one-magnitude',
                f'terngrad_quantize produced several non-zero magnitudes {sorted(jt.mags)[:4]}',
                {**wit, 'v': vt.ravel()[:24], 'magnitudes': sorted(jt.mags)[:8], 's': tern.s})
      bad, kmin, kmax = jt.bias_bad()
      wb = None
      if len(bad):
        c = int(bad[0])
        wb = {**wit, 'quantizer': 'terngrad', 'v': vt.ravel()[:24], 'coord': c, 'input': float(tern.x[c]),
              'clipped': float(tern.c[c]), 's': tern.s, 'p': float(tern.p[c]), 'nonzero_count': float(jt.nonzero[c]),
              'n': jt.n, 'accepted': [float(kmin[c]), float(kmax[c])], 'bad_coords': int(len(bad))}
      ctx.check(len(bad) == 0, 'ternbias/mean-off-clipped-input',
                f'terngrad_quantize: frequency of +-s is outside Binomial(n, |clipped|/s) ({len(bad)} of {tern.x.size} '
                f'coordinates)', wb)
      if np.any(np.abs(tern.x) > np.abs(tern.c)):
        ctx.klass('tern:clipping-active')

    # ---- eager (un-vmapped, un-jitted) calls with a Python int level count + DRIVE
    k0 = jax.random.PRNGKey(seed ^ 0x5bd1e995)
    ewit = {**wit, 'eager': True, 'key': key_bits(jax, k0)}
    for name, fn, g, args in (('uniform', C.uniform_stochastic_quantize, grid, (jnp.asarray(vu), levels, k0)),
                              ('binary', C.binary_stochastic_quantize, grid2, (jnp.asarray(vu), k0))):
      r = ctx.call(f'{name}_stochastic_quantize', fn, *args, witness=ewit)
      if r.ok:
        out = np.asarray(r.value)
        ok_shape = out.shape == vu.shape and out.dtype == np.float32
        j = GridJudge(g, g.degenerate, False)
        if ok_shape:
          j.add(out.reshape(1, -1))
        ctx.check(ok_shape and 'finite' not in j.bad, f'finite/{name}-nonfinite',
                  f'{name} quantizer (eager) produced NaN/Inf or a wrong shape/dtype {out.shape} {out.dtype}', ewit)
        ctx.check(ok_shape and 'range' not in j.bad and 'member' not in j.bad, f'member/{name}-not-a-grid-neighbour',
                  f'{name} quantizer (eager) output off the grid neighbours / outside the range', {**ewit, 'bad': j.bad})
        if g.degenerate:
          ctx.check(ok_shape and 'identity' not in j.bad,
                    f"identity/{name}-{'zero' if klass == 'zero' else 'constant'}-changed",
                    f'{name} quantizer (eager) changed a constant/zero vector', {**ewit, 'bad': j.bad})
    r = ctx.call('terngrad_quantize', C.terngrad_quantize, jnp.asarray(vt), k0, witness=ewit)
    if r.ok:
      out = np.asarray(r.value)
      j = TernJudge(tern)
      ok_shape = out.shape == vt.shape
      if ok_shape:
        j.add(out.reshape(1, -1))
      ctx.check(ok_shape and not j.bad, 'tern/output-not-in-{-s,0,+s}' if 'finite' not in j.bad else 'finite/terngrad-nonfinite',
                'terngrad_quantize (eager) output not in {-s,0,+s} / not finite', {**ewit, 'bad': j.bad})
    r = ctx.call('drive_pytree', C.drive_pytree, {'leaf': jnp.asarray(vt)}, witness=ewit)
    if r.ok:
      judge_drive(ctx, np.asarray(r.value['leaf']), vt, {**ewit, 'v': vt.ravel()[:24]}, 'drive_pytree')

    nontrivial = (not grid.degenerate and bool(np.any((grid.frac > 0) & (grid.frac < 1)))) or klass in (
        'ongrid-dyadic', 'ongrid', 'constant', 'zero', 'twovalued')
    ctx.case_done(('mc', shape, klass, levels, digest(vu, vt), seed) if nontrivial else None, sample=wit,
                  klass=[f'mc:{klass}', f'mc:levels={levels}' if levels in PLAIN_L + DYADIC_L else 'mc:levels=other',
                         f'mc:rank{len(shape)}'] + (['mc:size1'] if d == 1 else []))


def judge_drive(ctx, out, v, wit, where):
  """DRIVE: scale*sign(x) with scale = |x|_2^2/|x|_1; finite on every finite input."""
  x = np.asarray(v, np.float64).ravel()
  o = np.asarray(out, np.float64).ravel()
  zero_leaf = not np.any(x)
  fin = bool(np.all(np.isfinite(o))) and o.size == x.size
  if zero_leaf and x.size:
    ctx.klass('class:zero-leaf-drive')
  key = 'finite/drive-zero-leaf-nan' if (zero_leaf and not fin and bool(np.all(np.isnan(o)))) else 'finite/drive-nonfinite'
  ctx.check(fin, key, f'{where}: DRIVE output is NaN/Inf' + (' for an all-zero leaf (0*0/0)' if zero_leaf else ''),
            {**wit, 'leaf_shape': list(np.shape(v)), 'all_zero_leaf': zero_leaf, 'output_head': o[:8]})
  if fin:
    ref, s = drive_ref(x)
    ctx.check(bool(np.all(np.abs(o - ref) <= 2e-4 * s + 1e-30)), 'drive/not-scale-times-sign',
              f'{where}: DRIVE output is not sign(x)*|x|_2^2/|x|_1', {**wit, 'scale': s, 'output_head': o[:8]})
  return fin


# ==================================================================== family agg
def struct_pool(rng, count):
  """Pytree structures (nested containers of leaf shapes). Half of them carry a leaf with >= 100 elements."""

  def shp(big=False, small=False):
    if big:
      return [(257,), (16, 16), (128,), (5, 5, 8), (100,), (12, 17), (3, 64)][rng.randint(7)]
    if small:
      return [(1,), (2,), (3,), (1, 1), (2, 2), (1, 1, 2), (5,)][rng.randint(7)]
    n = int(rng.randint(1, 65))
    r = rng.rand()
    if r < 0.5:
      return (n,)
    if r < 0.8:
      a = int(rng.randint(1, 9))
      return (a, max(1, n // a))
    a, b = int(rng.randint(1, 5)), int(rng.randint(1, 5))
    return (a, b, max(1, n // (a * b)))

  out = []
  for i in range(count):
    big = i % 2 == 0
    t = i % 6 if i < 12 else rng.randint(6)
    if i == 3:
      st = {'w': shp(big=True), 'scalar': ()}          # the 0-d leaf
    elif t == 0:
      st = shp(big=big)                                 # bare array as params
    elif t == 1:
      st = {'w': shp(big=big), 'b': shp(small=True)}
    elif t == 2:
      st = {'layer0': {'w': shp(big=big), 'b': shp()}, 'layer1': {'w': shp()}}
    elif t == 3:
      st = [shp(big=big), (shp(small=True), shp())]
    elif t == 4:
      st = {'x': shp(big=big)}
    else:
      st = (shp(big=big), shp(), shp(small=True), shp())
    out.append(st)
  return out


def struct_map(st, fn):
  """Maps fn over the leaf shapes in JAX flattening order (dict keys sorted)."""
  if isinstance(st, dict):
    return {k: struct_map(st[k], fn) for k in sorted(st)}
  if isinstance(st, list):
    return [struct_map(v, fn) for v in st]
  if isinstance(st, tuple) and not all(isinstance(x, int) for x in st):
    return tuple(struct_map(v, fn) for v in st)
  return fn(st)


def struct_shapes(st):
  acc = []
  struct_map(st, lambda s: acc.append(s))
  return acc


LEAF_CLASSES = ('normal', 'zero', 'constant', 'ongrid', 'outlier', 'hugerange', 'twovalued', 'tinyrange')
LEAF_WEIGHTS = np.array([0.57, 0.07, 0.07, 0.08, 0.06, 0.05, 0.05, 0.05])


def run_agg(ctx, jax, jnp, C):
  S = ctx.nshards
  P = S * 2
  pool = struct_pool(ctx.rng('agg-structs'), P)
  sweeps = 5 if ctx.quick else 10
  leaves_of = jax.tree_util.tree_leaves

  def build(kind, levels, key):
    if kind == 'uniform':
      return C.uniform_stochastic_quantizer(levels, key)
    if kind == 'arith':
      return C.uniform_stochastic_quantizer(levels, key, 'arithmetic')
    if kind == 'rotated':
      return C.rotated_uniform_stochastic_quantizer(levels, key)
    if kind == 'drive':
      return C.structured_drive_quantizer(key)
    return C.terngrad_quantizer(key)

  # Key-discipline hook (module-attribute wrapping, DESIGN 2.5): record the PRNG key handed to the per-client
  # quantize / rotate functions during a general-weight apply. Zero hook hits => INCONCLUSIVE via MIN_HITS.
  rec = {'buf': None}

  def hook(mod, name, tag, argpos):
    orig = getattr(mod, name)

    def wrapped(*a, **k):
      ctx.count('hook:' + tag)
      if rec['buf'] is not None:
        key = k['rng'] if 'rng' in k else (a[argpos] if len(a) > argpos else None)
        try:
          rec['buf'].append((tag, tuple(int(x) for x in np.asarray(key).ravel())))
        except Exception:  # pylint: disable=broad-except
          rec['buf'].append((tag, None))
      return orig(*a, **k)

    setattr(mod, name, wrapped)

  hook(C, 'uniform_stochastic_quantize_pytree', 'uq', 2)
  hook(C, 'terngrad_quantize_pytree', 'tq', 1)
  hook(C.walsh_hadamard, 'structured_rotation_pytree', 'rot', 1)
  per_client_tags = {'uniform': ['uq'], 'arith': ['uq'], 'rotated': ['uq'], 'drive': ['rot'], 'tern': ['tq']}
  per_round_tags = {'uniform': ['uq'], 'arith': ['uq'], 'rotated': ['uq', 'rot'], 'drive': ['rot'], 'tern': ['tq']}

  # ---- very large cohorts (129..260 clients): only the key discipline is judged (one general-weight apply, keys
  #      recorded by the hook must be pairwise distinct), no one-hot probes -- cheap, one case per aggregator kind
  for cid, rng in ctx.cases('hugecohort', len(KINDS) * (1 if ctx.quick else 6)):
    i = int(cid.split('/')[1])
    kind = KINDS[i % len(KINDS)]
    K = int(rng.randint(129, 261))
    base = jnp.asarray(rng.randn(8).astype(np.float32))
    clients = [(b'h%03d' % j, {'w': base}, 1.0 + (j % 3)) for j in range(K)]
    wit = {'family': 'hugecohort', 'kind': kind, 'clients': K}
    r0 = ctx.call(f'agg.{kind}.init', lambda: (lambda a: (a, a.init()))(build(kind, 4, jax.random.PRNGKey(int(rng.randint(2**31 - 1))))),
                  witness=wit)
    if r0.ok:
      agg, state = r0.value
      rec['buf'] = []
      try:
        r = ctx.call(f'agg.{kind}.apply', agg.apply, clients, state, witness=wit)
      finally:
        used, rec['buf'] = rec['buf'], None
      if r.ok:
        for tag in per_client_tags[kind]:
          ks = [k_ for t_, k_ in used if t_ == tag and k_ is not None]
          ctx.check(len(ks) == K and len(set(ks)) == len(ks), f'clientkeys/{kind}-same-key-for-two-clients',
                    f'{len(ks)} per-client {tag} calls for {K} clients used only {len(set(ks))} distinct PRNG keys',
                    {**wit, 'hook': tag, 'first_repeat': next((j for j, k_ in enumerate(ks) if k_ in ks[:j]), None)})
        ctx.count('class:huge-cohort')
    ctx.case_done(('hugecohort', kind, K), sample=wit, klass=['hugecohort', f'agg:{kind}'])

  # ---- one aggregator OBJECT across rounds whose trees share the container structure (same dict keys / nesting) but not
  #      the leaf shapes, with the state carried along and with a fresh init() in between: the bit increment of every round
  #      is the documented formula of THAT round's tree (nothing about an earlier tree may be remembered)
  RESHAPE = [
      lambda a, b: {'w': (a,), 'b': (b,)},
      lambda a, b: {'layer0': {'w': (a, 2), 'b': (b,)}, 'layer1': {'w': (3,)}},
      lambda a, b: [(a,), ((b,), (2, 2))],
      lambda a, b: (a, b),               # bare array
  ]
  for cid, rng in ctx.cases('reshaped', len(KINDS) * len(RESHAPE) * (1 if ctx.quick else 4)):
    i = int(cid.split('/')[1])
    kind = KINDS[i % len(KINDS)]
    mk = RESHAPE[(i // len(KINDS)) % len(RESHAPE)]
    levels = int([2, 4, 5, 16][rng.randint(4)])
    dims = [(int(rng.randint(1, 6)), int(rng.randint(1, 4))), (int(rng.randint(40, 90)), int(rng.randint(5, 12)))]
    sched = [0, 1, 0, 1, 1, 0] if rng.rand() < 0.5 else [1, 0, 0, 1, 0, 1]
    reinit_at = int(rng.randint(2, 5))
    wit = {'family': 'reshaped', 'kind': kind, 'levels': levels, 'leaf_dims': dims, 'schedule': sched, 'reinit_before_round': reinit_at}
    r0 = ctx.call(f'agg.{kind}.init', lambda: (lambda a: (a, a.init()))(build(kind, levels, jax.random.PRNGKey(int(rng.randint(2**31 - 1))))),
                  witness=wit)
    ok_rounds = 0
    if r0.ok:
      agg, state = r0.value
      for rnd, which in enumerate(sched):
        if rnd == reinit_at:
          rr = ctx.call(f'agg.{kind}.init', agg.init, witness=wit)
          if not rr.ok:
            break
          state = rr.value
        st = mk(*dims[which])
        K = int(rng.randint(1, 4))
        if rnd in (1, 4):
          # a round that FAILS half-way: the caller's client iterable raises after it has handed over one or two clients. The
          # state is not advanced (no new state was returned); the next ordinary round must account its bits as if nothing happened
          class _SourceFailed(Exception):
            pass

          def failing():
            for j in range(int(rng.randint(1, 3))):
              yield b'f%d' % j, struct_map(st, lambda s_: jnp.asarray((rng.randn(*s_) * (3.0 ** j)).astype(np.float32))), 1.0
            raise _SourceFailed('the client source failed')

          try:
            agg.apply(failing(), state)
            ctx.count('failed-round-did-not-raise')
          except _SourceFailed:
            ctx.count('hit:aggregator-round-failed-midway')
        trees = [struct_map(st, lambda s_: jnp.asarray(rng.randn(*s_).astype(np.float32))) for _ in range(K)]
        sizes = [int(np.asarray(l).size) for l in leaves_of(trees[0])]
        rwit = {**wit, 'round': rnd, 'structure': repr(st), 'clients': K}
        r = ctx.call(f'agg.{kind}.apply', agg.apply, [(b'r%d' % j, trees[j], 1.0 + j) for j in range(K)], state, witness=rwit)
        if not r.ok:
          break
        out, new_state = r.value
        got_shapes = [tuple(np.asarray(l).shape) for l in leaves_of(out)]
        ctx.check(got_shapes == [tuple(np.asarray(l).shape) for l in leaves_of(trees[0])], 'reshaped/output-shapes',
                  'aggregate of a round has leaf shapes different from that round\'s client trees', {**rwit, 'got': got_shapes})
        inc = float(np.asarray(new_state.num_bits)) - float(np.asarray(state.num_bits))
        if kind == 'arith':
          # data dependent: recover each client's quantized tree with one-hot weights from the same state
          per_client = []
          for j in range(K):
            hot = [(b'r%d' % t, trees[t], 1.0 if t == j else 0.0) for t in range(K)]
            rj = ctx.call(f'agg.{kind}.apply', agg.apply, hot, state, witness={**rwit, 'one_hot': j})
            if rj.ok:
              per_client.append(sum(arithmetic_bits_ref(np.asarray(l)) for l in leaves_of(rj.value[0])))
          if len(per_client) != K:
            break
          want = sum(per_client) / K
          btol = 3e-5 * want + 8 * EPS32 * float(np.asarray(new_state.num_bits)) + 0.02
        else:
          want = plain_bits_ref(kind, levels, sizes)
          btol = 2e-6 * want + 8 * EPS32 * float(np.asarray(new_state.num_bits))
        ctx.count('hit:reshaped-round')
        ctx.check(abs(inc - want) <= btol, f'bits/{kind}-increment-differs-from-formula',
                  f'num_bits grew by {inc!r} in round {rnd}, documented formula for this round\'s tree gives {want!r} '
                  '(same aggregator object, earlier rounds had other leaf shapes)',
                  {**rwit, 'increment': inc, 'formula': want, 'leaf_sizes': sizes})
        state = new_state
        ok_rounds += 1
    ctx.case_done(('reshaped', kind, i, levels, tuple(dims)) if ok_rounds >= 3 else None, sample=wit, klass=['reshaped', f'agg:{kind}'])

  for cid, rng in ctx.cases('agg', P * len(KINDS) * sweeps):
    i = int(cid.split('/')[1])
    sid = i % P
    st = pool[sid]
    kind = KINDS[(i // P) % len(KINDS)]
    shapes = struct_shapes(st)
    K = int(rng.randint(1, 6))
    identical = K >= 2 and rng.rand() < 0.35
    many = (i % 23) == 7       # a cohort much larger than any internal key-chunk size (every kind gets its turn)
    if many:
      K = int(rng.randint(33, 71))
      identical = True
      ctx.count('class:many-clients')
    if kind == 'arith':
      levels = int([2, 3, 4, 5, 16, 17][rng.randint(6)]) if rng.rand() < 0.9 else 255
    else:
      levels = pick_levels(rng)
    if identical and kind in ('uniform', 'arith') and rng.rand() < 0.6:
      levels = 2
    grid_kind = kind in ('uniform', 'arith')
    bound_hi = 30 if (grid_kind and rng.rand() < 0.5) else 15
    # int32 example / token counts (jnp.int32 scalars) whose total exceeds 2**31 - 1 although every one fits; values stay of
    # ordinary magnitude there (weight * value must remain a finite float32: 2e9 * 1e30 is not)
    int32_weights = (not many) and K >= 2 and rng.rand() < 0.12
    # ---- clients
    leaf_classes = []
    for s in shapes:
      c = 'normal' if (identical or int32_weights) else LEAF_CLASSES[rng.choice(len(LEAF_CLASSES), p=LEAF_WEIGHTS)]
      if c == 'ongrid' and is_dyadic_levels(levels):
        c = 'ongrid-dyadic'
      leaf_classes.append(c)
    trees, flat = [], []
    for j in range(K):
      if identical and j > 0:
        trees.append(trees[0])
        flat.append(flat[0])
        continue
      it = iter(range(len(shapes)))

      def mk(s):
        li = next(it)
        arr, c = make_values(rng, s, leaf_classes[li], levels, bound_hi=bound_hi, bound_lo=-12)
        if j == 0:
          leaf_classes[li] = c   # size-1 leaves degrade to 'constant'
        arr.flags.writeable = False
        return jnp.asarray(arr)

      trees.append(struct_map(st, mk))   # struct_map visits leaves in JAX flattening order (asserted below)
      flat.append([np.asarray(l) for l in leaves_of(trees[-1])])
    nleaves = len(flat[0])
    sizes = [int(a.size) for a in flat[0]]
    if [tuple(a.shape) for a in flat[0]] != [tuple(s_) for s_ in shapes]:
      raise HarnessError(f'leaf order mismatch: {[a.shape for a in flat[0]]} vs {shapes}')
    if identical:
      weights = [float(rng.uniform(0.5, 2.0)) for _ in range(K)]
    else:
      weights = [float(rng.choice([0.0, 1.0, rng.uniform(0, 10), rng.randint(1, 50)], p=[0.15, 0.2, 0.45, 0.2]))
                 for _ in range(K)]
      if sum(weights) <= 0:
        weights[int(rng.randint(K))] = 1.0 + float(rng.rand())
    if int32_weights and max(float(np.max(np.abs(a))) if a.size else 0.0 for fl in flat for a in fl) * 2.2e9 * K > 1e36:
      int32_weights = False      # a size-1 leaf came out as a huge constant: weight * value would overflow float32
    if int32_weights:
      weights = [float(int(rng.uniform(8e8, 2.1e9))) for _ in range(K)]
      ctx.count('class:int32-weights-total-above-2^31')
    wtyped = [jnp.asarray(int(w_), jnp.int32) if int32_weights else w_ for w_ in weights]
    seed = int(rng.randint(0, 2**31 - 1))
    ids = [b'c%d' % j for j in range(K)]
    wit = {'family': 'agg', 'kind': kind, 'levels': levels, 'clients': K, 'identical_params': bool(identical), 'weights_as_int32': bool(int32_weights),
           'weights': weights, 'structure': repr(st), 'leaf_classes': leaf_classes, 'agg_key_seed': seed}
    entry = f'agg.{kind}.apply'
    r0 = ctx.call(f'agg.{kind}.init', lambda: (lambda a: (a, a.init()))(build(kind, levels, jax.random.PRNGKey(seed))),
                  witness=wit)
    if not r0.ok:
      ctx.case_done(None, sample=wit, klass='agg:raised')
      continue
    agg, state = r0.value
    if identical:
      ctx.klass('class:identical-clients')
    has_zero_d = any(len(s) == 0 for s in shapes)
    # per-leaf oracles for each client
    oracles = []
    for j in range(K):
      if identical and j > 0:
        oracles.append(oracles[0])
        continue
      if grid_kind:
        oracles.append([Grid(a, levels) for a in flat[j]])
      elif kind == 'tern':
        oracles.append([Tern(a) for a in flat[j]])
      else:
        oracles.append([None] * nleaves)
    if grid_kind or kind == 'tern':
      logsame = [sum(o.log_same() for o in oracles[j]) for j in range(K)]
    else:
      big_normal = any(c == 'normal' and sz >= 32 for c, sz in zip(leaf_classes, sizes))
      logsame = [(-1e9 if big_normal else 0.0)] * K
    prev_q = None
    seen_keys = {}
    aborted = False
    judged_any = False
    for rnd in range(3):
      rwit = {**wit, 'round': rnd}
      clients = [(ids[j], trees[j], wtyped[j]) for j in range(K)]
      rec['buf'] = []
      try:
        r = ctx.call(entry, agg.apply, clients, state, witness=rwit)
      finally:
        used, rec['buf'] = rec['buf'], None
      if not r.ok:
        aborted = True
        break
      out, new_state = r.value
      for tag in per_round_tags[kind]:
        ks = [k_ for t_, k_ in used if t_ == tag and k_ is not None]
        if not ks:
          ctx.count('hook:no-key-observed')
          continue
        if tag in per_client_tags[kind]:
          ctx.check(len(ks) == K and len(set(ks)) == len(ks), f'clientkeys/{kind}-same-key-for-two-clients',
                    f'{len(ks)} per-client {tag} calls for {K} clients used only {len(set(ks))} distinct PRNG keys',
                    {**rwit, 'hook': tag, 'keys': ks})
        reused = set(ks) & seen_keys.setdefault(tag, set())
        ctx.check(not reused, f'rounds/{kind}-key-reused-from-earlier-round',
                  f'a PRNG key handed to the {tag} step in round {rnd} was already used in an earlier round',
                  {**rwit, 'hook': tag, 'reused': sorted(reused)[:3]})
        seen_keys[tag] |= set(ks)
      out_l = [np.asarray(l) for l in leaves_of(out)]
      qs, hot_states = [], []
      for j in range(K):
        hot = [(ids[t], trees[t], 1.0 if t == j else 0.0) for t in range(K)]
        rj = ctx.call(entry, agg.apply, hot, state, witness={**rwit, 'one_hot': j})
        if not rj.ok:
          aborted = True
          break
        qs.append([np.asarray(l) for l in leaves_of(rj.value[0])])
        hot_states.append(rj.value[1])
      if aborted:
        break
      struct_ok = len(out_l) == nleaves and all(o.shape == a.shape for o, a in zip(out_l, flat[0])) and all(
          len(q) == nleaves and all(o.shape == a.shape for o, a in zip(q, flat[0])) for q in qs)
      if not ctx.check(struct_ok, 'linear/structure-changed', 'aggregated tree has a different structure/shape', rwit):
        aborted = True
        break
      # ------------------------------------------------ per-client quantized trees
      leaf_ok = [[True] * nleaves for _ in range(K)]
      for j in range(K):
        for li in range(nleaves):
          q = qs[j][li]
          x = flat[j][li]
          lw = {**rwit, 'client': j, 'leaf': li, 'leaf_shape': list(x.shape), 'leaf_class': leaf_classes[li],
                'x_head': x.ravel()[:12], 'q_head': q.ravel()[:12]}
          if kind == 'drive':
            leaf_ok[j][li] = bool(np.all(np.isfinite(q)))
            zero_leaf = not np.any(x)
            if zero_leaf:
              ctx.klass('class:zero-leaf-drive')
            keyf = 'finite/drive-zero-leaf-nan' if (zero_leaf and bool(np.all(np.isnan(q)))) else 'finite/drive-nonfinite'
            ctx.check(leaf_ok[j][li], keyf, 'structured DRIVE aggregator returned NaN/Inf' +
                      (' for an all-zero leaf (drive_pytree: 0*0/0)' if zero_leaf else ''), {**lw, 'all_zero_leaf': zero_leaf})
            continue
          if kind == 'rotated':
            fin = bool(np.all(np.isfinite(q)))
            leaf_ok[j][li] = fin
            ctx.check(fin, 'finite/rotated-nonfinite', 'rotated quantizer returned NaN/Inf', lw)
            if fin:
              x64 = x.astype(np.float64).ravel()
              nx = float(np.linalg.norm(x64))
              dpad = 2**math.ceil(math.log2(x64.size)) if x64.size > 1 else 1
              bound = math.sqrt(dpad) * 2 * nx / (levels - 1) * (1 + 1e-3) + 1e-4 * nx
              err = float(np.linalg.norm(q.astype(np.float64).ravel() - x64))
              ctx.check(err <= bound, 'errbound/rotated-per-client',
                        f'rotated quantizer error {err:.6g} exceeds sqrt(d_pad)*2|x|/(L-1) = {bound:.6g}',
                        {**lw, 'err': err, 'bound': bound})
              if not np.any(x):
                ctx.check(not np.any(q), 'identity/rotated-zero-leaf-changed', 'rotated quantizer changed an all-zero leaf', lw)
            continue
          o = oracles[j][li]
          if kind == 'tern':
            jt = TernJudge(o)
            jt.add(q.reshape(1, -1))
            leaf_ok[j][li] = 'finite' not in jt.bad
            ctx.check('finite' not in jt.bad, 'finite/terngrad-nonfinite', 'TernGrad aggregator returned NaN/Inf', lw)
            ctx.check('levels' not in jt.bad and 'sign' not in jt.bad and (o.degenerate or len(jt.mags) <= 1),
                      'tern/output-not-in-{-s,0,+s}', 'per-client TernGrad tree has a value outside {-s,0,+s}',
                      {**lw, 'bad': jt.bad, 's': o.s, 'mags': sorted(jt.mags)[:4]})
            continue
          # uniform / arithmetic
          exact = o.degenerate or leaf_classes[li] == 'ongrid-dyadic' or (
              leaf_classes[li] == 'twovalued' and levels == 2 and bool(np.all(x == np.round(x))) and float(np.abs(x).max()) < 4096)
          jg = GridJudge(o, exact, False)
          jg.add(q.reshape(1, -1))
          leaf_ok[j][li] = 'finite' not in jg.bad
          ctx.check('finite' not in jg.bad, 'finite/uniform-nonfinite', 'uniform quantizer aggregator returned NaN/Inf', lw)
          ctx.check('range' not in jg.bad, 'range/uniform-outside-min-max', 'per-client quantized leaf outside [min,max]',
                    {**lw, 'bad': jg.bad, 'vmin': o.vmin, 'vmax': o.vmax})
          ctx.check('member' not in jg.bad, 'member/uniform-not-a-grid-neighbour',
                    'per-client quantized leaf has a value that is not a grid neighbour of its input',
                    {**lw, 'bad': jg.bad, 'vmin': o.vmin, 'vmax': o.vmax, 'step': o.step})
          if exact:
            sub = 'zero' if not np.any(x) else ('constant' if o.degenerate else 'ongrid-dyadic')
            ctx.check('identity' not in jg.bad, f'identity/uniform-{sub}-changed',
                      f'uniform quantizer aggregator changed a {sub} leaf', {**lw, 'bad': jg.bad})
      # ---------------------------------------------------- linearity (weighted mean)
      wsum = float(sum(weights))
      for li in range(nleaves):
        if not all(leaf_ok[j][li] for j in range(K)):
          ctx.count('linear:skipped-nonfinite-leaf')
          continue
        acc = np.zeros(flat[0][li].shape, np.float64)
        mag = np.zeros(flat[0][li].shape, np.float64)
        for j in range(K):
          q64 = qs[j][li].astype(np.float64)
          acc += weights[j] * q64
          mag += weights[j] * np.abs(q64)
        ref = acc / wsum
        tol = 16 * EPS32 * mag / wsum + 1e-37
        got = out_l[li].astype(np.float64)
        with np.errstate(invalid='ignore'):
          okl = bool(np.all(np.abs(got - ref) <= tol))
        wl = None
        if not okl:
          c = int(np.argmax(np.nan_to_num(np.abs(got - ref) - tol, nan=np.inf).ravel()))
          wl = {**rwit, 'leaf': li, 'coord': c, 'got': float(got.ravel()[c]), 'weighted_mean_of_quantized': float(ref.ravel()[c]),
                'per_client_quantized': [float(qs[j][li].ravel()[c]) for j in range(K)], 'tol': float(tol.ravel()[c])}
        ctx.check(okl, f'linear/{kind}-not-weighted-mean-of-quantized',
                  'aggregator output differs from sum_j w_j q_j / sum_j w_j of the per-client quantized trees (one-hot probe)',
                  wl)
        # error bound w.r.t. the exact weighted mean
        if grid_kind or kind == 'tern':
          exact_mean = np.zeros_like(acc)
          bnd = 0.0
          for j in range(K):
            o = oracles[j][li]
            src = o.x if grid_kind else o.c
            exact_mean += weights[j] * src.reshape(acc.shape)
            if weights[j] > 0:
              bnd = max(bnd, (o.step + o.tol) if grid_kind else (o.s + o.tol_s))
          exact_mean /= wsum
          errs = np.abs(got - exact_mean)
          okb = bool(np.all(errs <= bnd * (1 + 1e-5) + tol))
          ctx.check(okb, f'errbound/{kind}-mean-error-exceeds-one-step',
                    'aggregate is further from the exact weighted mean than the largest per-client grid step',
                    None if okb else {**rwit, 'leaf': li, 'max_err': float(errs.max()), 'bound': bnd})
        elif kind == 'rotated':
          exact_mean = sum(weights[j] * flat[j][li].astype(np.float64) for j in range(K)) / wsum
          bnd = 0.0
          for j in range(K):
            if weights[j] > 0:
              nx = float(np.linalg.norm(flat[j][li].astype(np.float64)))
              n_ = flat[j][li].size
              dpad = 2**math.ceil(math.log2(n_)) if n_ > 1 else 1
              bnd = max(bnd, math.sqrt(dpad) * 2 * nx / (levels - 1) * (1 + 1e-3) + 1e-4 * nx)
          err = float(np.linalg.norm((got - exact_mean).ravel()))
          ctx.check(err <= bnd, 'errbound/rotated-mean-error', 'rotated aggregate further from the exact mean than the bound',
                    {**rwit, 'leaf': li, 'err': err, 'bound': bnd})
      # -------------------------------------------------------------- bits + state
      old_bits = float(np.asarray(state.num_bits))
      new_bits = float(np.asarray(new_state.num_bits))
      inc = new_bits - old_bits
      if kind == 'arith':
        per_client = [sum(arithmetic_bits_ref(qs[j][li]) for li in range(nleaves)) for j in range(K)]
        want = sum(per_client) / K
        btol = 3e-5 * want + 8 * EPS32 * new_bits + 0.02
      else:
        want = plain_bits_ref(kind, levels, sizes)
        btol = 2e-6 * want + 8 * EPS32 * new_bits
      fin_q = all(all(r_) for r_ in leaf_ok)
      if kind != 'arith' or fin_q:
        ctx.check(abs(inc - want) <= btol, f'bits/{kind}-increment-differs-from-formula',
                  f'num_bits grew by {inc!r} in round {rnd}, documented formula gives {want!r}',
                  {**rwit, 'increment': inc, 'formula': want, 'tol': btol, 'leaf_sizes': sizes, 'num_bits_before': old_bits,
                   'num_bits_after': new_bits})
      hot_incs = [float(np.asarray(s.num_bits)) - old_bits for s in hot_states]
      ctx.check(all(abs(h - inc) <= btol for h in hot_incs), f'bits/{kind}-increment-depends-on-weights',
                f'bit increment differs between weightings of the same clients/state: {inc!r} vs {hot_incs}',
                {**rwit, 'increment': inc, 'one_hot_increments': hot_incs})
      old_key = np.asarray(state.rng)
      new_key = np.asarray(new_state.rng)
      ctx.check(new_key.shape == old_key.shape and not np.array_equal(new_key, old_key), 'rounds/state-key-not-advanced',
                'the PRNG key in the aggregator state is the same after apply()', {**rwit, 'old': old_key, 'new': new_key})
      ctx.check(all(np.array_equal(np.asarray(s.rng), new_key) for s in hot_states), 'rounds/next-key-depends-on-weights',
                'new state key differs between two applies from the same state', rwit)
      # ---------------------------------------------------- randomness across rounds
      if prev_q is not None:
        for j in range(K):
          if identical and j > 0:
            continue
          if logsame[j] < LN_TAIL and all(leaf_ok[j]):
            same = all(np.array_equal(a, b) for a, b in zip(prev_q[j], qs[j]))
            ctx.check(not same, f'rounds/{kind}-same-quantization-in-consecutive-rounds',
                      f'client {j}: identical quantized tree in rounds {rnd - 1} and {rnd} (collision probability '
                      f'< exp({logsame[j]:.1f}))', {**rwit, 'client': j, 'log_collision_probability': logsame[j]})
            judged_any = True
          else:
            ctx.count('rounds:skipped-low-entropy')
      prev_q = qs
      # --------------------------------------------------- randomness across clients
      if identical:
        if logsame[0] < LN_TAIL and all(all(r_) for r_ in leaf_ok):
          pairs = [(a, b) for a in range(K) for b in range(a + 1, K)
                   if all(np.array_equal(x_, y_) for x_, y_ in zip(qs[a], qs[b]))]
          ctx.check(not pairs, f'clientkeys/{kind}-identical-quantization-for-two-clients',
                    f'clients {pairs[:3]} with identical parameters received identical quantized trees in round {rnd}',
                    {**rwit, 'pairs': pairs[:5], 'log_collision_probability': logsame[0]})
        else:
          ctx.count('clientkeys:skipped-low-entropy')
        if (kind in ('uniform', 'arith') and levels == 2) or kind == 'tern':
          # black-box: the mean of K independently quantized copies must leave the 2/3-level grid
          e_off, ntot, off = 0.0, 0, 0
          for li in range(nleaves):
            o = oracles[0][li]
            if o.degenerate:
              continue
            p = o.frac if grid_kind else o.p
            e_off += float(np.sum(1 - p**K - (1 - p)**K))
            ntot += p.size
            got = out_l[li].astype(np.float64).ravel()
            if grid_kind:
              dist = np.minimum(np.abs(got - o.vmin), np.abs(got - o.vmax))
              off += int(np.sum(dist > 1e-3 * o.R))
            else:
              dist = np.minimum(np.abs(got), np.abs(np.abs(got) - o.s))
              off += int(np.sum(dist > 1e-3 * o.s))
          need = e_off - math.sqrt(15.0 * max(ntot, 1))
          if need >= 1:
            ctx.check(off >= need, f'clientkeys/{kind}-mean-of-identical-clients-stays-on-grid',
                      f'mean over {K} clients with identical parameters is off the grid in only {off} of {ntot} coordinates '
                      f'(independent keys: expected {e_off:.1f}, accepted >= {need:.1f})',
                      {**rwit, 'off_grid': off, 'expected': e_off, 'coords': ntot})
          else:
            ctx.count('clientkeys:mean-skipped-small')
      state = new_state
    pos = sum(1 for w_ in weights if w_ > 0)
    nontrivial = (not aborted) and (pos >= 2 or any(c in ('zero', 'constant') for c in leaf_classes))
    kl = [f'agg:{kind}', f'agg:K={K}', f'agg:leaves={nleaves}']
    kl += [f'agg:leaf:{c}' for c in sorted(set(leaf_classes))]
    if has_zero_d:
      kl.append('agg:0-d-leaf')
    if aborted:
      kl.append('agg:aborted')
    if any(w_ == 0 for w_ in weights):
      kl.append('agg:zero-weight-client')
    ctx.case_done(('agg', kind, sid, levels, K, tuple(leaf_classes), digest(*flat[0], np.asarray(weights)), seed)
                  if nontrivial else None, sample=wit, klass=kl)


def run(ctx):
  import jax
  import jax.numpy as jnp
  from fedjax.aggregators import compression as C
  import time
  t0 = time.time()
  selfcheck(ctx)
  run_zerodraw(ctx, jax, jnp, C)
  t1 = time.time()
  run_mc(ctx, jax, jnp, C)
  t2 = time.time()
  run_agg(ctx, jax, jnp, C)
  t3 = time.time()
  ctx.notes[f'seconds_shard{ctx.shard}'] = {'selfcheck+zerodraw': round(t1 - t0, 1), 'mc': round(t2 - t1, 1),
                                            'agg': round(t3 - t2, 1)}

TECHNIQUE += '; configuration shards (non-partitionable threefry, rbg PRNG); failing client sources; int32 weight totals above 2^31'
