"""Regenerates /verif/MANIFEST.json from the check modules' metadata (run with /venv/bin/python)."""
import importlib
import json
import os
import sys

ROOT = os.path.dirname(os.path.dirname(os.path.abspath(__file__)))
sys.path.insert(0, ROOT)
sys.path.append(os.path.join(ROOT, '.deps'))

props = [json.loads(l) for l in open(os.path.join(ROOT, 'properties.jsonl'))]
checks, na = [], []
PENDING = {}
if os.path.exists(os.path.join(ROOT, 'tools', 'not_applicable.json')):
  PENDING = json.load(open(os.path.join(ROOT, 'tools', 'not_applicable.json')))
for p in props:
  pid = p['id']
  path = os.path.join(ROOT, 'vmon', 'checks', pid.lower() + '.py')
  if not os.path.exists(path) or pid in PENDING:
    na.append({'property_id': pid, 'reason': PENDING.get(pid, 'monitor not built yet in this round (no check is registered, nothing is claimed)')})
    continue
  m = importlib.import_module(f'vmon.checks.{pid.lower()}')
  checks.append({
      'property_id': pid,
      'quick_cmd': f'./check {pid} --tier quick',
      'thorough_cmd': f'./check {pid} --tier thorough',
      'evidence_file': f'/verif/evidence/{pid}.json',
      'replay_cmd_template': f'./check {pid} --replay {{path}}',
      'engine': 'vmon',
      'level_claimed': {
          'category': m.LEVEL,
          'text': m.LEVEL_TEXT,
          'design_ref': f'DESIGN.md §3 {pid}',
      },
      'level_note': m.LEVEL_NOTE,
      'technique': m.TECHNIQUE,
  })
manifest = {
    'version': 1,
    'setup_cmd': './setup.sh',
    'hooks': {
        'guard': 'FEDJAX_VERIF',
        'enable': 'no in-repo hooks: all monitors attach from the harness process (module-attribute wrapping, icontract, sys.monitoring failpoints); FEDJAX_VERIF is reserved and currently unused',
        'baseline_off_cmd': 'cd /repo && /venv/bin/python -m pytest -ra -q -p no:cacheprovider --timeout=900 --continue-on-collection-errors',
        'source_commits': [],
        'add_only': True,
    },
    'engines': [{
        'name': 'vmon',
        'path': '/verif/vmon',
        'serves_properties': [c['property_id'] for c in checks],
        'kind_free_text': 'runtime monitoring harness: seeded/exhaustive workload generators drive the real fedjax code in sharded sub-processes; oracles (float64 references, reference models, differentials, algebraic laws), icontract postconditions, a donation sanitizer and a sys.monitoring failpoint engine observe every execution',
    }],
    'checks': checks,
    'not_applicable': na,
    'notes': 'Exit codes: 0 held on everything observed, 1 VIOLATION, 2 INCONCLUSIVE (a deciding monitor was not reached / harness error / watchdog). Known findings: /verif/known_findings.json. VERIF_SEED and VERIF_TIER are honoured.',
}
json.dump(manifest, open(os.path.join(ROOT, 'MANIFEST.json'), 'w'), indent=1)
import jsonschema
jsonschema.validate(manifest, json.load(open('/root/.vp/MANIFEST.schema.json')))
print('MANIFEST ok:', [c['property_id'] for c in checks], 'n/a:', [n['property_id'] for n in na])
