"""Entry point: ./check <ID> [--tier quick|thorough] [--replay FILE] [--shard i/n --out FILE]."""
import argparse
import importlib
import json
import os
import shutil
import subprocess
import sys
import tempfile
import time
import traceback

from vmon import REPO_ROOT, VERIF_ROOT


def _module(prop):
  return importlib.import_module(f'vmon.checks.{prop.lower()}')


def _repo_state():
  try:
    head = subprocess.run(['git', '-C', REPO_ROOT, 'rev-parse', 'HEAD'], capture_output=True, text=True,
                          timeout=20).stdout.strip()
    dirty = bool(
        subprocess.run(['git', '-C', REPO_ROOT, 'status', '--porcelain', '--untracked-files=no'],
                       capture_output=True,
                       text=True,
                       timeout=20).stdout.strip())
    return head, dirty
  except Exception:  # pylint: disable=broad-except
    return 'unknown', False


# ------------------------------------------------------------------ shard mode
def run_shard(args):
  from vmon import core
  sys.path.insert(0, REPO_ROOT)
  mod = _module(args.prop)
  shard, nshards = (int(x) for x in args.shard.split('/'))
  ctx = core.Ctx(args.prop, args.tier, args.seed, shard, nshards, replay_case=args.case)
  ctx.config = args.config
  status = 'ok'
  try:
    import fedjax  # pylint: disable=import-outside-toplevel
    root = os.path.realpath(os.path.dirname(os.path.dirname(fedjax.__file__)))
    if root != REPO_ROOT:
      raise core.HarnessError(f'fedjax imported from {root}, expected {REPO_ROOT}')
    mod.run(ctx)
    if args.config:
      ctx.count(f'config:{args.config}', ctx.evaluations)
  except core.Inconclusive as e:
    ctx.inconclusive_because(f'inconclusive: {e}')
    status = 'inconclusive'
  except BaseException as e:  # pylint: disable=broad-except
    ctx.inconclusive_because(f'harness error {type(e).__name__}: {e}\n' + traceback.format_exc()[-3000:])
    status = 'harness-error'
  res = ctx.result()
  res['status'] = status
  res['config'] = args.config
  with open(args.out + '.tmp', 'w') as f:
    json.dump(res, f)
  os.replace(args.out + '.tmp', args.out)
  return 0


# ----------------------------------------------------------------- parent mode
def _spawn(prop, tier, seed, shard, nshards, out, env, case=None, config=None):
  cmd = [
      sys.executable, '-m', 'vmon.run', prop, '--tier', tier, '--seed',
      str(seed), '--shard', f'{shard}/{nshards}', '--out', out
  ]
  if case:
    cmd += ['--case', case]
  if config:
    # a "configuration shard": the same cases as the plain shard of that index, run under an environment the library is
    # supposed to be indifferent to (CONFIGS of the check module)
    cmd += ['--config', config['name']]
    env = dict(env, **config['env'])
  log = open(out + '.log', 'w')
  return subprocess.Popen(cmd, cwd=VERIF_ROOT, env=env, stdout=log, stderr=subprocess.STDOUT), log


def main(argv=None):
  ap = argparse.ArgumentParser()
  ap.add_argument('prop')
  ap.add_argument('--tier', default=os.environ.get('VERIF_TIER', 'quick'), choices=['quick', 'thorough'])
  ap.add_argument('--seed', type=int, default=int(os.environ.get('VERIF_SEED', '0') or 0))
  ap.add_argument('--replay')
  ap.add_argument('--shard')
  ap.add_argument('--out')
  ap.add_argument('--case')
  ap.add_argument('--config')
  ap.add_argument('--jobs', type=int, default=int(os.environ.get('VERIF_JOBS', '0') or 0))
  args = ap.parse_args(argv)
  args.prop = args.prop.upper()

  if args.shard:
    return run_shard(args)

  from vmon import core  # numpy only
  import jsonschema

  t0 = time.time()
  mod = _module(args.prop)
  prop = args.prop
  tier, seed = args.tier, args.seed
  case = None
  if args.replay:
    with open(args.replay) as f:
      rp = json.load(f)
    tier, seed, case = rp['tier'], rp['seed'], rp['case']
    cfg = None
    if rp.get('config'):
      cfg = next((c for t in getattr(mod, 'CONFIGS', {}).values() for c in t if c['name'] == rp['config']), None)
      if cfg is None:
        print(f"unknown configuration {rp['config']!r} in replay file")
        return 2
    shards = [(rp['shard'], rp['nshards'], cfg)]
  else:
    n = mod.SHARDS[tier]
    shards = [(i, n, None) for i in range(n)]
    # configuration shards: CONFIGS = {tier: [{'name':..., 'env': {...}, 'shard': optional index}, ...]}
    for j, cfg in enumerate(getattr(mod, 'CONFIGS', {}).get(tier, [])):
      shards.append((cfg.get('shard', j) % n, n, cfg))

  env = dict(os.environ)
  env.setdefault('JAX_PLATFORMS', 'cpu')
  env['PYTHONHASHSEED'] = '0'
  env.setdefault('TF_CPP_MIN_LOG_LEVEL', '3')
  env['OMP_NUM_THREADS'] = '1'
  env['OPENBLAS_NUM_THREADS'] = '1'
  env['MKL_NUM_THREADS'] = '1'
  env['TF_NUM_INTRAOP_THREADS'] = '1'
  env['TF_NUM_INTEROP_THREADS'] = '1'
  xla = '--xla_cpu_multi_thread_eigen=false'
  env['XLA_FLAGS'] = (xla + ' ' + env.get('XLA_FLAGS', '')).strip()
  for k, v in getattr(mod, 'ENV', {}).items():
    if k == 'XLA_FLAGS':
      env['XLA_FLAGS'] = (env['XLA_FLAGS'] + ' ' + v).strip()
    else:
      env[k] = v
  env['FEDJAX_REPO'] = REPO_ROOT
  env['PYTHONPATH'] = VERIF_ROOT + os.pathsep + env.get('PYTHONPATH', '')

  work = tempfile.mkdtemp(prefix=f'vmon-{prop}-')
  env['VMON_WORK'] = work
  timeout = mod.SHARD_TIMEOUT[tier]
  jobs = args.jobs or min(len(shards), max(1, (os.cpu_count() or 2) - 2))
  results, pending, running = [], list(shards), []
  harness_problems = []
  try:
    while pending or running:
      while pending and len(running) < jobs:
        s, n, cfg = pending.pop(0)
        out = os.path.join(work, f"shard{s}{'-' + cfg['name'] if cfg else ''}.json")
        p, log = _spawn(prop, tier, seed, s, n, out, env, case, cfg)
        running.append((p, log, out, s, time.time()))
      time.sleep(0.05)
      still = []
      for p, log, out, s, st in running:
        rc = p.poll()
        if rc is None:
          if time.time() - st > timeout:
            p.kill()
            p.wait()
            log.close()
            harness_problems.append(f'shard {s}: watchdog fired after {timeout}s')
          else:
            still.append((p, log, out, s, st))
          continue
        log.close()
        if os.path.exists(out):
          with open(out) as f:
            results.append(json.load(f))
        else:
          tail = ''
          try:
            with open(out + '.log') as f:
              tail = f.read()[-1500:]
          except OSError:
            pass
          harness_problems.append(f'shard {s}: exited rc={rc} without a result; log tail: {tail}')
      running = still
  finally:
    for p, log, *_ in running:
      p.kill()
    keep_logs = os.environ.get('VMON_KEEP_WORK')
    if not keep_logs:
      shutil.rmtree(work, ignore_errors=True)
    else:
      print(f'(work dir kept: {work})')

  # ------------------------------------------------------------------ merge
  evaluations = sum(r['evaluations'] for r in results)
  nontrivial = set()
  counters, classes, samples, violations, vkeys, inconcl, notes = {}, {}, [], [], {}, [], {}
  for r in sorted(results, key=lambda r: r['shard']):
    nontrivial.update(r['nontrivial'])
    for k, v in r['counters'].items():
      counters[k] = counters.get(k, 0) + v
    for k, v in r['classes'].items():
      classes[k] = classes.get(k, 0) + v
    for k, v in r['violation_keys'].items():
      vkeys[k] = vkeys.get(k, 0) + v
    samples.extend(r['samples'][:max(1, core.MAX_SAMPLES // max(1, len(results)))])
    violations.extend(r['violations'])
    inconcl.extend(r['inconclusive'])
    for k, v in r.get('notes', {}).items():
      notes.setdefault(k, v)
    if r.get('status') != 'ok':
      harness_problems.append(f"shard {r['shard']}: status {r.get('status')}")
  samples = samples[:core.MAX_SAMPLES]
  cfgs = sorted({r.get('config') for r in results if r.get('config')})
  if cfgs:
    notes['configuration_shards'] = {c['name']: c['env'] for c in getattr(mod, 'CONFIGS', {}).get(tier, []) if c['name'] in cfgs}

  known = core.load_known_findings(prop)
  unknown_v = [v for v in violations if v['key'] not in known]
  known_seen = {}
  for k, n in vkeys.items():
    if k in known:
      known_seen[k] = n
  unknown_keys = {k: n for k, n in vkeys.items() if k not in known}

  # MIN_HITS: deciding monitors must have been reached.
  if not args.replay:
    for cfg in getattr(mod, 'CONFIGS', {}).get(tier, []):
      if counters.get(f"config:{cfg['name']}", 0) <= 0:
        harness_problems.append(f"configuration shard {cfg['name']!r} evaluated no case")
    for name, need in getattr(mod, 'MIN_HITS', {}).get(tier, {}).items():
      got = counters.get(name, classes.get(name, 0))
      if got < need:
        harness_problems.append(f'monitor/class {name!r} reached {got} < required {need}')

  replay_paths = []
  if unknown_v and not args.replay:
    os.makedirs(os.path.join(VERIF_ROOT, 'replays'), exist_ok=True)
    seen = set()
    for i, v in enumerate(unknown_v):
      if v['key'] in seen:
        continue
      seen.add(v['key'])
      path = os.path.join(VERIF_ROOT, 'replays', f'{prop}-{tier}-{seed}-{len(seen)}.json')
      with open(path, 'w') as f:
        json.dump(
            {
                'property': prop,
                'tier': tier,
                'seed': seed,
                'shard': v['shard'],
                'nshards': v['nshards'],
                'case': v['case'],
                'config': v.get('config'),
                'key': v['key'],
                'what': v['what'],
                'witness': v['witness'],
            },
            f,
            indent=1)
      replay_paths.append((v, path))

  head, dirty = _repo_state()
  wall = time.time() - t0
  level = mod.LEVEL
  coverage = {
      'evaluations': int(evaluations),
      'distinct_nontrivial': len(nontrivial),
      'rule': mod.RULE,
      'samples': samples,
      'exhaustive': bool(getattr(mod, 'EXHAUSTIVE', {}).get(tier, False)),
      'monitor_hits': {k: v for k, v in sorted(counters.items())},
      'case_classes': {k: v for k, v in sorted(classes.items())},
      'shards': len(results),
      'notes': notes,
  }
  evidence = {
      'property_id': prop,
      'tier': tier,
      'seed': int(seed),
      'level': level,
      'coverage': coverage,
      'assumptions': list(getattr(mod, 'ASSUMPTIONS', [])),
      'wall_s': round(wall, 2),
      'violations': int(sum(unknown_keys.values())),
      'violation_keys': unknown_keys,
      'known_findings_observed': known_seen,
      'inconclusive': harness_problems + inconcl[:10],
      'repo_head': head,
      'repo_dirty': dirty,
      'verdict': None,
  }

  if unknown_keys:
    verdict, rc = 'violated', 1
  elif harness_problems or inconcl:
    verdict, rc = 'inconclusive', 2
  else:
    verdict, rc = 'held-on-observed', 0
  evidence['verdict'] = verdict

  if not args.replay and not os.environ.get('VMON_NO_EVIDENCE'):
    with open('/root/.vp/EVIDENCE.schema.json' if os.path.exists('/root/.vp/EVIDENCE.schema.json') else os.path.join(
        VERIF_ROOT, 'schemas', 'EVIDENCE.schema.json')) as f:
      schema = json.load(f)
    try:
      jsonschema.validate(evidence, schema)
    except jsonschema.ValidationError as e:
      # Too few cases to form valid evidence is inconclusive, never "held".
      print(f'evidence does not validate: {e.message}')
      if rc == 0:
        rc, verdict = 2, 'inconclusive'
        evidence['verdict'] = verdict
    os.makedirs(os.path.join(VERIF_ROOT, 'evidence'), exist_ok=True)
    path = os.path.join(VERIF_ROOT, 'evidence', f'{prop}.json')
    with open(path + '.tmp', 'w') as f:
      json.dump(evidence, f, indent=1, sort_keys=True)
    os.replace(path + '.tmp', path)

  # ------------------------------------------------------------------ report
  print(f'{prop} tier={tier} seed={seed} evaluations={evaluations} distinct_nontrivial={len(nontrivial)} '
        f'shards={len(results)} wall={wall:.1f}s')
  hits = ' '.join(f'{k}={v}' for k, v in sorted(counters.items()))
  print(f'  monitor hits: {hits}')
  print('  classes: ' + ' '.join(f'{k}={v}' for k, v in sorted(classes.items())))
  for k, n in sorted(known_seen.items()):
    print(f"KNOWN-FINDING: property={prop} {known[k]['what']} [key={k} observed={n}]")
  if args.replay:
    for v in violations:
      print(f"  replayed violation key={v['key']}: {v['what']}")
      print('   ' + json.dumps(v['witness'])[:2000])
  for v, path in replay_paths:
    print(f"  violation key={v['key']} case={v['case']}: {v['what']}")
    print(f'VIOLATION property={prop} replay={path}')
  shown = set()
  for p in inconcl[:6] + harness_problems + inconcl[6:]:
    short = p if len(p) < 700 else p[:250] + ' ... ' + p[-400:]
    sig = short.split(':', 1)[-1][:200]
    if sig in shown or len(shown) > 12:
      continue
    shown.add(sig)
    print(f'INCONCLUSIVE property={prop} reason={short}')
  print(f'verdict: {verdict}')
  return rc


if __name__ == '__main__':
  sys.exit(main())
