"""C07 — Aggregation is the exact weighted mean and never harms its inputs.

Runs the real tree_sum / tree_mean / mean_aggregator().apply / tree_clip_by_global_norm on generated
client trees and judges every call with a float64 NumPy oracle plus the donation sanitizer
(vmon/sanitize.py, alias check on).
"""
import numpy as np

from vmon import gen
from vmon import sanitize

PROPERTY = 'C07'
LEVEL = 'exploration'
RULE = ('Seeded random cases. family "mean": a tree structure from a per-run pool of generated pytrees (nested dict/list/'
        'tuple, leaf shapes () (1,) (3,) (2,2) (4,1) (5,) (1,1,2)), 1..7 clients, float32 leaves with a magnitude class '
        '(1e-3..1e12, mixed, zero leaves, leaves equal across clients), a weight class (floats, ints, all-zero, '
        'single-non-zero, some-zero, equal) and weight type (float/int/np.float32/jax scalar), leaves as jax.Array, '
        'read-only NumPy or mixed; every case calls tree_mean (list, generator, permuted order), '
        'mean_aggregator().apply (list or generator of (id, params, weight)) and tree_sum (list/tuple, generator, '
        'permuted). family "clip": same pool, clip bound below / at / above / far above the float64 norm, zero trees, '
        'bound as float/np.float32/jax scalar/int. Non-trivial: >=2 clients with >=2 distinct positive weights, or zero '
        'total weight, or a single client, or (clip) a non-zero tree; distinct by (structure, n, classes, leaf kind, '
        'value digest).')
ASSUMPTIONS = [
    'weights are finite, >= 0 and either 0 or in [1e-9, 1e9] (classes tiny/huge included); leaf magnitudes <= 4e12 (products and squares stay '
    'inside float32 range); no NaN/Inf inputs',
    'clip bounds are > 0 (max_norm = 0 on a zero tree is outside the domain, DESIGN A14); non-zero leaves have '
    'magnitude >= 1e-6 so that squares do not underflow',
    'rounding allowance: (2n+10) float32 ulps of sum(w|p|)/sum(w) for the mean, (n+2) ulps of sum|p| for the sum, '
    '(elements+16) ulps for clipping',
    'unsafe_buffer_pointer() of a live single-device CPU jax.Array identifies its buffer',
]
SHARDS = {'quick': 4, 'thorough': 8}
SHARD_TIMEOUT = {'quick': 600, 'thorough': 2400}
EXHAUSTIVE = {'quick': False, 'thorough': False}
MIN_HITS = {
    'quick': {
        'mon:mean': 1500, 'mon:zero': 100, 'mon:nan': 1500, 'mon:hull': 500, 'mon:order': 500, 'mon:generator': 900,
        'mon:donation': 5000, 'mon:readonly': 300, 'mon:structure': 1500, 'mon:sum': 500, 'mon:aggstate': 300,
        'mon:clipnorm': 300, 'mon:clipdir': 300, 'mon:clipident': 100, 'jax-leaves': 100, 'np-leaves': 50,
        'single-client': 20, 'clip-below': 50, 'clip-zero-tree': 5, 'hook:tree_mean': 2, 'class:many-trees': 15, 'class:int32-weights-total-above-2^31': 8, 'class:int32-leaves-in-one-client': 15, 'class:infinite-clip-bound': 10,
        'hook:tree_sum': 1, 'hook:tree_clip_by_global_norm': 1,
    },
    'thorough': {
        'mon:mean': 30000, 'mon:zero': 5000, 'mon:nan': 60000, 'mon:hull': 30000, 'mon:order': 15000,
        'mon:generator': 40000, 'mon:donation': 500000, 'mon:readonly': 100000, 'mon:structure': 40000, 'mon:sum': 20000,
        'mon:aggstate': 12000, 'mon:clipnorm': 8000, 'mon:clipdir': 12000, 'mon:clipident': 3000,
        'jax-leaves': 5000, 'np-leaves': 5000, 'single-client': 2000, 'clip-below': 2000,
        'clip-zero-tree': 200, 'hook:tree_mean': 2, 'hook:tree_sum': 1, 'hook:tree_clip_by_global_norm': 1,
    },
}
TECHNIQUE = ('runtime monitoring: float64 weighted-mean / sum / clip oracle + donation-and-alias sanitizer on every call, '
             'one-pass generator inputs, permutation differential; repo tests re-run under the same monitors')
LEVEL_TEXT = ('Each generated client set is pushed through the real tree_sum, tree_mean, mean_aggregator and '
              'tree_clip_by_global_norm; every result is compared leaf by leaf with a float64 reference, checked against the '
              'coordinate hull, a permuted order and a one-pass generator input, and every caller-owned array is checked '
              'for deletion, value change and buffer sharing with the output. Held on the executions listed, not a proof.')
LEVEL_NOTE = ('Trusts NumPy float64 arithmetic, jax.Array.is_deleted()/unsafe_buffer_pointer() on the CPU backend and the '
              'a-priori rounding bounds stated in the assumptions.')

EPS32 = float(np.finfo(np.float32).eps)
TINY = 1e-36


# ------------------------------------------------------------------ generation
def leaf_paths(tree, prefix=''):
  """Deterministic (path, leaf) list of a dict/list/tuple template (harness side, no jax)."""
  if isinstance(tree, dict):
    out = []
    for k in sorted(tree):
      out += leaf_paths(tree[k], f'{prefix}/{k}')
    return out
  if isinstance(tree, (list, tuple)):
    out = []
    for i, v in enumerate(tree):
      out += leaf_paths(v, f'{prefix}[{i}]')
    return out
  return [(prefix, tree)]


def rebuild(template, leaves_iter):
  if isinstance(template, dict):
    return {k: rebuild(template[k], leaves_iter) for k in sorted(template)}
  if isinstance(template, list):
    return [rebuild(v, leaves_iter) for v in template]
  if isinstance(template, tuple):
    return tuple(rebuild(v, leaves_iter) for v in template)
  return next(leaves_iter)


def describe(template):
  if isinstance(template, dict):
    return '{' + ','.join(f'{k}:{describe(template[k])}' for k in sorted(template)) + '}'
  if isinstance(template, list):
    return '[' + ','.join(describe(v) for v in template) + ']'
  if isinstance(template, tuple):
    return '(' + ','.join(describe(v) for v in template) + ',)'
  return 'f32' + str(list(template.shape))


def _template_leaf(r):
  shape = [(), (1,), (3,), (2, 2), (4, 1), (5,), (1, 1, 2)][r.randint(7)]
  return np.zeros(shape, np.float32)


def build_pool(ctx, size):
  """Tree templates shared by all shards and cases (bounds the number of XLA compilations)."""
  pool = [np.zeros((3,), np.float32), {'w': np.zeros((2, 2), np.float32), 'b': np.zeros((), np.float32)}]
  k = 0
  while len(pool) < size:
    t = gen.pytree(ctx.rng('pool', k), leaf=_template_leaf)
    k += 1
    if isinstance(t, np.ndarray):
      continue          # one bare-array tree (pool[0]) is enough; the rest are containers
    if any(describe(t) == describe(p) for p in pool):
      continue
    pool.append(t)
  return pool


MAG_CLASSES = ['unit', 'milli', 'kilo', 'mega', '1e12', 'mixed', 'micro']
WEIGHT_CLASSES = ['floats', 'ints', 'all-zero', 'single-nonzero', 'some-zero', 'equal', 'tiny', 'huge']
WEIGHT_TYPES = ['float', 'int', 'np.float32', 'jax', 'np0d', 'jax-int32', 'np-int32']   # np0d: a (mutable) 0-d np.ndarray, e.g. np.asarray(n)
LEAF_KINDS = ['jax', 'np', 'mixed']


def make_values(rng, template, n, mag):
  """n lists of float32 leaf values for the template's leaves."""
  shapes = [l.shape for _, l in leaf_paths(template)]
  scale_of = {'unit': 1.0, 'milli': 1e-3, 'kilo': 1e3, 'mega': 1e6, '1e12': 1e12, 'micro': 1e-8}
  out = [[] for _ in range(n)]
  for shp in shapes:
    s = scale_of.get(mag) or float(10.0**rng.randint(-3, 13))
    mode = rng.rand()
    base = np.asarray(rng.standard_normal(size=shp) * s, dtype=np.float32)
    for i in range(n):
      if mode < 0.08:
        v = np.zeros(shp, np.float32)            # a zero leaf everywhere
      elif mode < 0.2:
        v = base.copy()                          # identical across clients: hull is a point
      else:
        v = np.asarray(rng.standard_normal(size=shp) * s, dtype=np.float32)
        if rng.rand() < 0.1:
          v = np.zeros(shp, np.float32)
        # keep non-zero magnitudes away from the sub-normal range (class 'micro' is ~1e-8: squares ~1e-16, still normal)
        floor = np.float32(1e-10 if mag == 'micro' else 1e-6)
        v = np.where((v != 0) & (np.abs(v) < floor), floor, v).astype(np.float32)
      out[i].append(np.clip(v, -4e12, 4e12).astype(np.float32))
  return out


def make_weights(rng, n, wclass, wtype):
  if wclass == 'floats':
    w = np.exp(rng.uniform(np.log(1e-3), np.log(1e4), size=n))
  elif wclass == 'ints':
    w = rng.randint(1, 2000, size=n).astype(np.float64)
  elif wclass == 'tiny':
    # positive weights whose TOTAL can lie below float32 eps (1.19e-7): still a perfectly good weighted mean
    w = np.exp(rng.uniform(np.log(1e-9), np.log(6e-8), size=n))
  elif wclass == 'huge':
    w = np.exp(rng.uniform(np.log(1e6), np.log(1e9), size=n))
  elif wclass == 'all-zero':
    w = np.zeros(n)
  elif wclass == 'single-nonzero':
    w = np.zeros(n)
    w[rng.randint(n)] = float(rng.randint(1, 50)) if rng.rand() < 0.5 else float(rng.uniform(0.01, 30))
  elif wclass == 'some-zero':
    w = rng.uniform(0.1, 20, size=n)
    w[rng.rand(n) < 0.5] = 0.0
  else:
    w = np.full(n, float(rng.choice([1.0, 3.0, 0.25, 7.5])))
  if wtype in ('jax-int32', 'np-int32') and wclass == 'huge':
    # int32 example / token counts whose TOTAL exceeds 2**31 - 1 although every single one fits
    w = rng.uniform(8e8, 2.1e9, size=n)
  if wtype in ('int', 'jax-int32', 'np-int32'):
    w = np.round(w)
    if wclass == 'tiny':
      w = np.exp(rng.uniform(np.log(1e-9), np.log(6e-8), size=n))   # 'int' weights cannot be tiny: keep floats
    elif wclass not in ('all-zero', 'single-nonzero', 'some-zero'):
      w = np.maximum(w, 1)
  if wtype in ('np.float32', 'jax'):
    w = w.astype(np.float32).astype(np.float64)   # the value actually handed over
  return [float(x) for x in w]


def typed_weight(jnp, w, wtype):
  if wtype == 'float':
    return float(w)
  if wtype == 'int':
    return int(w)
  if wtype == 'np.float32':
    return np.float32(w)
  if wtype == 'np0d':
    return np.array(w, dtype=np.float64)
  if wtype == 'jax-int32':
    return jnp.asarray(int(w), dtype=jnp.int32) if float(w) == int(w) else jnp.asarray(w, dtype=jnp.float32)
  if wtype == 'np-int32':
    return np.int32(int(w)) if float(w) == int(w) else np.float32(w)
  return jnp.asarray(w, dtype=jnp.float32)


def materialise(jnp, rng, template, values, kind):
  """Builds one client tree; leaves are fresh caller-owned arrays."""
  leaves = []
  for v in values:
    as_jax = kind == 'jax' or (kind == 'mixed' and rng.rand() < 0.5)
    leaves.append(jnp.array(v) if as_jax else np.array(v, copy=True))
  return rebuild(template, iter(leaves))


def digest_values(values, weights):
  import hashlib
  m = hashlib.sha256()
  for vs in values:
    for v in vs:
      m.update(v.tobytes())
  m.update(repr(weights).encode())
  return m.hexdigest()[:16]


class OnePass:
  """A real generator over items that records how it was consumed."""

  def __init__(self, items):
    self.pulled = []
    self.finished = False
    self.n = len(items)

    def g():
      for i, x in enumerate(items):
        self.pulled.append(i)
        yield x
      self.finished = True

    self.gen = g()

  def consumed_exactly_once(self):
    if self.pulled != list(range(self.n)):
      return False
    # the generator is either finished or parked after the last element; never restarted
    return next(self.gen, None) is None


# ---------------------------------------------------------------------- oracle
def tree_struct_ok(jax, out, template):
  """Same container structure, leaf shapes; float32 leaves."""
  try:
    got = leaf_paths_generic(jax, out)
  except Exception:  # pylint: disable=broad-except
    return False, 'output is not a tree of arrays'
  exp = leaf_paths(template)
  if jax.tree_util.tree_structure(out) != jax.tree_util.tree_structure(template):
    return False, f'tree structure {jax.tree_util.tree_structure(out)} != input structure'
  for (p, e), g in zip(exp, got):
    if tuple(np.shape(g)) != tuple(e.shape):
      return False, f'leaf {p}: shape {np.shape(g)} != {e.shape}'
    if np.asarray(g).dtype != np.float32:
      return False, f'leaf {p}: dtype {np.asarray(g).dtype} != float32'
  return True, ''


def leaf_paths_generic(jax, tree):
  return jax.tree_util.tree_leaves(tree)


def out_leaves(jax, out):
  return [np.asarray(l).astype(np.float64) for l in jax.tree_util.tree_leaves(out)]


def judge_mean(ctx, jax, site, out, template, values, weights, wit, n_terms=None):
  """All value monitors for a weighted mean result. values: per client list of f32 leaves."""
  n = len(values)
  W = float(np.sum(np.asarray(weights, np.float64)))
  ok_s, why = tree_struct_ok(jax, out, template)
  if not ctx.check(ok_s, f'structure/{site}', f'{site}: {why}', wit):
    return False
  got = out_leaves(jax, out)
  paths = [p for p, _ in leaf_paths(template)]
  all_ok = True
  for li, (path, g) in enumerate(zip(paths, got)):
    ps = np.stack([values[i][li].astype(np.float64) for i in range(n)])          # (n, *shape)
    w = np.asarray(weights, np.float64).reshape((n,) + (1,) * (ps.ndim - 1))
    w_ = {**wit, 'leaf': path, 'observed': g, 'inputs': [values[i][li] for i in range(n)]}
    has_nan = bool(np.isnan(g).any() or np.isinf(g).any())
    if W == 0:
      ctx.check(not has_nan, f'nan/{site}:zero-weight-nan', f'{site}: NaN/Inf in leaf {path} for zero total weight', w_)
      if not ctx.check(bool(np.all(g == 0)), f'zero/{site}:not-zeros',
                       f'{site}: zero total weight must give all zeros in leaf {path}', {**w_, 'expected': 0}):
        all_ok = False
      continue
    if not ctx.check(not has_nan, f'nan/{site}:nan', f'{site}: NaN/Inf in leaf {path}', w_):
      all_ok = False
      continue
    exact = (w * ps).sum(axis=0) / W
    A = (w * np.abs(ps)).sum(axis=0) / W
    tol = (2 * n + 10) * EPS32 * A + TINY
    err = np.abs(g - exact)
    if not ctx.check(bool(np.all(err <= tol)), f'mean/{site}:value-mismatch',
                     f'{site}: leaf {path} differs from sum(w*p)/sum(w); max err {float(err.max()):.3g} > tol '
                     f'{float(tol.flat[int(np.argmax(err - tol))]):.3g}', {**w_, 'expected': exact}):
      all_ok = False
    lo, hi = ps.min(axis=0), ps.max(axis=0)
    eh = (2 * n + 10) * EPS32 * np.abs(ps).max(axis=0) + TINY
    if not ctx.check(bool(np.all(g >= lo - eh) and np.all(g <= hi + eh)), f'hull/{site}:outside-hull',
                     f'{site}: leaf {path} leaves the coordinate-wise [min,max] of the inputs', {**w_, 'lo': lo, 'hi': hi}):
      all_ok = False
  return all_ok


def judge_sum(ctx, jax, site, out, template, values, wit):
  n = len(values)
  ok_s, why = tree_struct_ok(jax, out, template)
  if not ctx.check(ok_s, f'structure/{site}', f'{site}: {why}', wit):
    return False
  got = out_leaves(jax, out)
  paths = [p for p, _ in leaf_paths(template)]
  all_ok = True
  for li, (path, g) in enumerate(zip(paths, got)):
    ps = np.stack([values[i][li].astype(np.float64) for i in range(n)])
    exact = ps.sum(axis=0)
    tol = (n + 2) * EPS32 * np.abs(ps).sum(axis=0) + TINY
    w_ = {**wit, 'leaf': path, 'observed': g, 'expected': exact}
    if not ctx.check(not bool(np.isnan(g).any()), f'nan/{site}:nan', f'{site}: NaN in leaf {path}', w_):
      all_ok = False
      continue
    if not ctx.check(bool(np.all(np.abs(g - exact) <= tol)), f'sum/{site}:value-mismatch',
                     f'{site}: leaf {path} differs from the sum of the inputs', w_):
      all_ok = False
  return all_ok


def trees_close(jax, a, b, values, weights, factor):
  """Order differential: |a-b| <= factor * rounding allowance."""
  n = len(values)
  W = float(np.sum(weights)) if weights is not None else None
  la, lb = out_leaves(jax, a), out_leaves(jax, b)
  if len(la) != len(lb):
    return False
  for li, (x, y) in enumerate(zip(la, lb)):
    ps = np.stack([values[i][li].astype(np.float64) for i in range(n)])
    if weights is None:
      tol = (n + 2) * EPS32 * np.abs(ps).sum(axis=0)
    elif W == 0:
      tol = np.zeros(ps.shape[1:])
    else:
      w = np.asarray(weights, np.float64).reshape((n,) + (1,) * (ps.ndim - 1))
      tol = (2 * n + 10) * EPS32 * (w * np.abs(ps)).sum(axis=0) / W
    if x.shape != y.shape or not np.all(np.abs(x - y) <= factor * tol + TINY):
      return False
  return True


def trees_bit_equal(jax, a, b):
  la, lb = jax.tree_util.tree_leaves(a), jax.tree_util.tree_leaves(b)
  if len(la) != len(lb):
    return False
  return all(
      np.asarray(x).dtype == np.asarray(y).dtype and np.asarray(x).shape == np.asarray(y).shape and
      np.asarray(x).tobytes() == np.asarray(y).tobytes() for x, y in zip(la, lb))


# ------------------------------------------------------------------- mean case
def mean_case(ctx, mods, pool, rng):
  jax, jnp, tree_util, aggregator = mods
  si = int(rng.randint(len(pool)))
  template = pool[si]
  n = int(rng.choice([1, 1, 2, 2, 3, 3, 4, 5, 6, 7]))
  if rng.rand() < 0.05:
    # many clients: counts around powers of two (any internal chunking of the running sum) up to a few hundred
    n = int(rng.choice([31, 33, 63, 64, 65, 66, 127, 129, 130, 200, 257, 513]))
    ctx.count('class:many-trees')
  mag = MAG_CLASSES[rng.randint(len(MAG_CLASSES))]
  wclass = WEIGHT_CLASSES[rng.randint(len(WEIGHT_CLASSES))]
  wtype = WEIGHT_TYPES[rng.randint(len(WEIGHT_TYPES))]
  kind = LEAF_KINDS[rng.randint(len(LEAF_KINDS))]
  if wclass == 'tiny' and wtype in ('int', 'jax-int32', 'np-int32'):
    wtype = 'float'   # an int cannot hold a tiny positive weight
  if wtype in ('jax-int32', 'np-int32') and wclass == 'huge' and n >= 2:
    ctx.count('class:int32-weights-total-above-2^31')
  values = make_values(rng, template, n, mag)
  weights = make_weights(rng, n, wclass, wtype)
  # mixed leaf dtypes across clients: one client (first, middle or last in the list) holds int32 leaves with integer values where
  # the others hold float32 -- the sum / mean is still the real-number one, whatever the order
  int_client = None
  if n >= 2 and mag in ('unit', 'kilo') and rng.rand() < 0.15:
    cand = int([0, n - 1, n // 2][rng.randint(3)])
    iv = [np.round(v).astype(np.float32) for v in values[cand]]
    # integer arithmetic must stay exact: weight * value and their sum have to fit int32 comfortably
    if max([float(np.max(np.abs(v))) if v.size else 0.0 for v in iv] + [0.0]) * max(weights + [1.0]) * n < 5e8:
      int_client = cand
      values[int_client] = iv
      ctx.count('class:int32-leaves-in-one-client')
  wit = {'structure': describe(template), 'n_clients': n, 'magnitude': mag, 'weight_class': wclass, 'int32_client': int_client,
         'weight_type': wtype, 'leaf_kind': kind, 'weights': weights}

  def fresh(order=None):
    """Fresh caller-owned (tree, weight) pairs, optionally permuted."""
    idx = list(range(n)) if order is None else list(order)
    r = np.random.RandomState(rng.randint(2**31 - 1))
    def tree_of(i):
      t = materialise(jnp, r, template, values[i], kind)
      if i == int_client:
        t = jax.tree_util.tree_map(lambda l: l.astype(np.int32) if isinstance(l, np.ndarray) else jnp.asarray(l, jnp.int32), t)
      return t

    return [(tree_of(i), typed_weight(jnp, weights[i], wtype)) for i in idx], idx

  def run_guarded(site, fn, inputs, witness):
    """Snapshot -> call -> sanitizer (alias on). Returns the output or None.

    `site` may carry a variant suffix 'fn(variant)'; mechanism keys use the bare function name and
    the variant goes into the witness."""
    if '(' in site:
      site, variant = site.split('(', 1)
      witness = {**witness, 'variant': variant.rstrip(')')}
    snap = sanitize.snapshot_tree(inputs)
    r = ctx.call(site, fn, witness=witness)
    ctx.count('mon:readonly', snap.n_np)   # each frozen NumPy leaf survived a call without a write error
    if not r.ok:
      if snap.n_np and isinstance(r.exc, ValueError) and 'read-only' in str(r.exc):
        ctx.violation(f'readonly/{site}:writes-into-numpy-input', f'{site} wrote into a caller-owned NumPy array', witness)
      sanitize.verify_tree(ctx, snap, f'donation/{site}', witness=witness)
      return None
    sanitize.verify_tree(ctx, snap, f'donation/{site}', outputs=r.value, check_alias=True, witness=witness)
    return r.value

  # ---- tree_mean, list input
  pairs, _ = fresh()
  out_list = run_guarded('tree_mean', lambda: tree_util.tree_mean(pairs), pairs, wit)
  if out_list is not None:
    judge_mean(ctx, jax, 'tree_mean', out_list, template, values, weights, wit)

  # ---- tree_mean, one-pass generator input: same arithmetic, consumed exactly once
  pairs_g, _ = fresh()
  op = OnePass(pairs_g)
  out_gen = run_guarded('tree_mean(generator)', lambda: tree_util.tree_mean(op.gen), pairs_g, {**wit, 'input': 'generator'})
  if out_gen is not None:
    ctx.check(op.consumed_exactly_once(), 'generator/tree_mean:not-consumed-once',
              f'generator input pulled {op.pulled} of {n} elements', wit)
    if out_list is not None:
      ctx.check(trees_bit_equal(jax, out_gen, out_list), 'generator/tree_mean:differs-from-list',
                'tree_mean(generator) differs from tree_mean(list) on equal values', wit)

  # ---- tree_mean, permuted order (tuple container)
  if n >= 2 and out_list is not None:
    perm = rng.permutation(n)
    pairs_p, idx = fresh(perm)
    out_perm = run_guarded('tree_mean(permuted)', lambda: tree_util.tree_mean(tuple(pairs_p)), pairs_p,
                           {**wit, 'order': idx})
    if out_perm is not None:
      ctx.check(trees_close(jax, out_perm, out_list, values, weights, 2.0), 'order/tree_mean:order-dependent',
                'tree_mean changes beyond rounding when the clients are permuted', {**wit, 'order': idx})

  # ---- mean_aggregator().apply, list or generator of (client_id, params, weight)
  agg = aggregator.mean_aggregator()
  state = agg.init()
  pairs_a, _ = fresh()
  ids = gen.hostile_client_ids(rng, n)
  triples = [(ids[i], p, w) for i, (p, w) in enumerate(pairs_a)]
  use_gen = rng.rand() < 0.5
  opa = OnePass(triples)
  arg = opa.gen if use_gen else triples
  site = 'mean_aggregator.apply(generator)' if use_gen else 'mean_aggregator.apply'
  res = run_guarded(site, lambda: agg.apply(arg, state), [p for p in pairs_a], {**wit, 'input': 'generator' if use_gen else 'list'})
  if res is not None:
    ok_pair = isinstance(res, tuple) and len(res) == 2
    ctx.check(ok_pair and type(res[1]) is type(state) and jax.tree_util.tree_leaves(res[1]) == [],
              'aggstate/mean_aggregator:state-changed', 'mean_aggregator.apply did not return (params, unchanged empty state)', wit)
    if ok_pair:
      judge_mean(ctx, jax, 'mean_aggregator.apply', res[0], template, values, weights, wit)
      if use_gen:
        ctx.check(opa.consumed_exactly_once(), 'generator/mean_aggregator:not-consumed-once',
                  f'generator input pulled {opa.pulled} of {n} elements', wit)

  # ---- tree_sum: list/tuple, generator, permuted
  trees = [materialise(jnp, rng, template, values[i], kind) for i in range(n)]
  cont = tuple(trees) if rng.rand() < 0.5 else trees
  out_sum = run_guarded('tree_sum', lambda: tree_util.tree_sum(cont), trees, wit)
  if out_sum is not None:
    judge_sum(ctx, jax, 'tree_sum', out_sum, template, values, wit)
  trees_g = [materialise(jnp, rng, template, values[i], kind) for i in range(n)]
  ops = OnePass(trees_g)
  out_sum_g = run_guarded('tree_sum(generator)', lambda: tree_util.tree_sum(ops.gen), trees_g, {**wit, 'input': 'generator'})
  if out_sum_g is not None:
    ctx.check(ops.consumed_exactly_once(), 'generator/tree_sum:not-consumed-once',
              f'generator input pulled {ops.pulled} of {n} elements', wit)
    if out_sum is not None:
      ctx.check(trees_bit_equal(jax, out_sum_g, out_sum), 'generator/tree_sum:differs-from-list',
                'tree_sum(generator) differs from tree_sum(list) on equal values', wit)
  if n >= 2 and out_sum is not None:
    perm = rng.permutation(n)
    trees_p = [materialise(jnp, rng, template, values[i], kind) for i in perm]
    out_sum_p = run_guarded('tree_sum(permuted)', lambda: tree_util.tree_sum(trees_p), trees_p, {**wit, 'order': list(perm)})
    if out_sum_p is not None:
      ctx.check(trees_close(jax, out_sum_p, out_sum, values, None, 2.0), 'order/tree_sum:order-dependent',
                'tree_sum changes beyond rounding when the inputs are permuted', {**wit, 'order': list(perm)})

  pos = sorted({w for w in weights if w > 0})
  W = sum(weights)
  nontrivial = n == 1 or W == 0 or (n >= 2 and len(pos) >= 2)
  klass = [f'{kind}-leaves', f'weights:{wclass}', f'wtype:{wtype}', f'mag:{mag}', f'n={n}']
  if n == 1:
    klass.append('single-client')
  if W == 0:
    klass.append('zero-total-weight')
  key = (si, n, mag, wclass, wtype, kind, digest_values(values, weights)) if nontrivial else None
  ctx.case_done(key, sample={**wit, 'first_client_leaves': values[0][:3]}, klass=klass)


# ------------------------------------------------------------------- clip case
BOUND_CLASSES = ['below', 'below', 'at', 'above', 'far-above']
BOUND_TYPES = ['float', 'np.float32', 'jax', 'int']


def clip_case(ctx, mods, pool, rng):
  jax, jnp, tree_util, _ = mods
  si = int(rng.randint(len(pool)))
  template = pool[si]
  mag = MAG_CLASSES[rng.randint(len(MAG_CLASSES))]
  kind = LEAF_KINDS[rng.randint(len(LEAF_KINDS))]
  values = make_values(rng, template, 1, mag)[0]
  zero_tree = rng.rand() < 0.06
  if zero_tree:
    values = [np.zeros_like(v) for v in values]
  flat = np.concatenate([v.astype(np.float64).ravel() for v in values])
  nelem = flat.size
  norm = float(np.sqrt(np.sum(flat * flat)))
  bclass = BOUND_CLASSES[rng.randint(len(BOUND_CLASSES))]
  btype = BOUND_TYPES[rng.randint(len(BOUND_TYPES))]
  if norm == 0:
    bclass = 'zero-tree'
    bound = float(np.exp(rng.uniform(np.log(1e-3), np.log(1e3))))
  elif bclass == 'below':
    bound = norm * float(rng.uniform(0.02, 0.9))
  elif bclass == 'at':
    bound = float(np.float32(norm))
  elif bclass == 'above':
    bound = norm * float(rng.uniform(1.1, 10))
  else:
    bound = norm * 1e4
  if btype == 'int':
    bound = float(max(1, int(round(bound))))
    if bound > 2e9:
      btype = 'float'
  bound = float(np.float32(bound)) if btype in ('np.float32', 'jax') else bound
  if bound < 1e-30 or bound > 1e30:
    bound = float(np.clip(bound, 1e-30, 1e30))
  if norm == 0:
    bclass = 'zero-tree'
  elif bound < norm * (1 - 1e-3):
    bclass = 'below'
  elif bound <= norm * (1 + 1e-3):
    bclass = 'at'
  else:
    bclass = 'far-above' if bound > 100 * norm else 'above'
  typed = {'float': float(bound), 'np.float32': np.float32(bound), 'int': int(bound) if btype == 'int' else bound,
           'jax': jnp.asarray(bound, jnp.float32)}[btype]
  if rng.rand() < 0.06:
    # "no clipping": an infinite bound (or a Python float beyond the float32 range) -- every finite tree is below it
    bound = float('inf')
    bclass, btype = ('zero-tree' if norm == 0 else 'infinite'), ['float', 'np.float32', 'jax', 'float>f32max'][rng.randint(4)]
    typed = {'float': float('inf'), 'np.float32': np.float32('inf'), 'jax': jnp.asarray(np.inf, jnp.float32), 'float>f32max': 1e40}[btype]
    ctx.count('class:infinite-clip-bound')
  tree = materialise(jnp, rng, template, values, kind)
  wit = {'structure': describe(template), 'magnitude': mag, 'leaf_kind': kind, 'bound_class': bclass, 'bound_type': btype,
         'max_norm': bound, 'norm64': norm, 'leaves': values[:4]}
  site = 'tree_clip_by_global_norm'
  inputs = (tree, typed)
  snap = sanitize.snapshot_tree(inputs)
  r = ctx.call(site, lambda: tree_util.tree_clip_by_global_norm(tree, typed), witness=wit)
  ctx.count('mon:readonly', snap.n_np)
  if r.ok:
    out = r.value
    sanitize.verify_tree(ctx, snap, f'donation/{site}', outputs=out, check_alias=True, witness=wit)
    ok_s, why = tree_struct_ok(jax, out, template)
    if ctx.check(ok_s, f'structure/{site}', f'{site}: {why}', wit):
      got = out_leaves(jax, out)
      gflat = np.concatenate([g.ravel() for g in got])
      eps_c = (nelem + 16) * EPS32
      finite = bool(np.all(np.isfinite(gflat)))
      ctx.check(finite, 'nan/tree_clip:nan', 'clipped tree contains NaN/Inf', {**wit, 'observed': gflat})
      if finite:
        onorm = float(np.sqrt(np.sum(gflat * gflat)))
        ctx.check(onorm <= bound * (1 + eps_c) + TINY, 'clipnorm/norm-exceeds-bound',
                  f'clipped norm {onorm!r} > max_norm {bound!r} (1+{eps_c:.2g})', {**wit, 'observed_norm': onorm})
        s = 1.0 if norm == 0 else min(1.0, bound / norm)
        exp = s * flat
        if norm > 0:
          denom = onorm * norm
          cos = float(np.dot(gflat, flat) / denom) if denom > 0 else 0.0
          if not ctx.check(cos >= 1 - 1e-5, 'clipdir/direction-changed',
                           f'clipped tree is not a positive multiple of the input (cosine {cos!r})',
                           {**wit, 'observed': gflat, 'expected': exp}):
            pass
          else:
            ctx.check(bool(np.all(np.abs(gflat - exp) <= eps_c * np.abs(exp) + TINY)), 'clipdir/scale-not-min(1,bound/norm)',
                      'clipped tree differs from min(1, max_norm/norm) * input', {**wit, 'observed': gflat, 'expected': exp})
        else:
          ctx.check(bool(np.all(gflat == 0)), 'clipdir/zero-tree-not-zero', 'clipping a zero tree did not return zeros',
                    {**wit, 'observed': gflat})
        if norm * (1 + eps_c) < bound:
          same = all(g.astype(np.float32).tobytes() == v.tobytes() for g, v in zip(got, values))
          ctx.check(same, 'clipident/changed-below-bound', 'tree with norm below the bound is not returned bit-identical',
                    {**wit, 'observed': gflat})
  else:
    sanitize.verify_tree(ctx, snap, f'donation/{site}', witness=wit)
  klass = [f'clip-{bclass}', f'{kind}-leaves', f'btype:{btype}']
  key = (si, mag, kind, bclass, btype, digest_values([values], [bound])) if norm > 0 else None
  ctx.case_done(key, sample=wit, klass=klass)


# -------------------------------------------------- repo tests under the monitors
def run_repo_tests_under_monitors(ctx, mods):
  """DESIGN §2.9: tree_util_test / aggregator_test with the oracle + sanitizer attached through
  module-attribute wrapping. A monitor that fires here marks the run inconclusive (the direct
  families above are the deciding ones); zero hook hits is inconclusive through MIN_HITS."""
  import importlib
  import io
  import unittest
  jax, jnp, tree_util, aggregator = mods
  fired = []

  class Probe:
    """Minimal ctx stand-in that collects failures instead of recording violations."""

    def check(self, cond, key, what, witness=None):
      if not cond:
        fired.append(f'{key}: {what}')
      return bool(cond)

  probe = Probe()
  orig = {name: getattr(tree_util, name) for name in ('tree_mean', 'tree_sum', 'tree_clip_by_global_norm')}

  def f64(tree):
    return [np.asarray(l).astype(np.float64) for l in jax.tree_util.tree_leaves(tree)]

  def mon_mean(pytrees_and_weights):
    items = list(pytrees_and_weights)
    ctx.count('hook:tree_mean')
    snap = sanitize.snapshot_tree(items, freeze_numpy=False)
    out = orig['tree_mean'](iter(items))
    sanitize.verify_tree(probe, snap, 'hook/tree_mean', outputs=out, check_alias=True)
    ws = np.asarray([float(w) for _, w in items], np.float64)
    if items and ws.sum() > 0:
      per = [f64(t) for t, _ in items]
      for li, g in enumerate(f64(out)):
        ps = np.stack([p[li] for p in per])
        w = ws.reshape((len(items),) + (1,) * (ps.ndim - 1))
        exact = (w * ps).sum(0) / ws.sum()
        tol = (2 * len(items) + 10) * EPS32 * (w * np.abs(ps)).sum(0) / ws.sum() + TINY
        probe.check(bool(np.all(np.abs(g - exact) <= tol)), 'hook/tree_mean:value-mismatch', f'leaf {li}: {g} != {exact}')
    return out

  def mon_sum(pytrees):
    items = list(pytrees)
    ctx.count('hook:tree_sum')
    snap = sanitize.snapshot_tree(items, freeze_numpy=False)
    out = orig['tree_sum'](iter(items))
    sanitize.verify_tree(probe, snap, 'hook/tree_sum', outputs=out, check_alias=True)
    if items:
      per = [f64(t) for t in items]
      for li, g in enumerate(f64(out)):
        ps = np.stack([p[li] for p in per])
        tol = (len(items) + 2) * EPS32 * np.abs(ps).sum(0) + TINY
        probe.check(bool(np.all(np.abs(g - ps.sum(0)) <= tol)), 'hook/tree_sum:value-mismatch', f'leaf {li}: {g} != {ps.sum(0)}')
    return out

  def mon_clip(pytree, max_norm):
    ctx.count('hook:tree_clip_by_global_norm')
    snap = sanitize.snapshot_tree(pytree, freeze_numpy=False)
    out = orig['tree_clip_by_global_norm'](pytree, max_norm)
    sanitize.verify_tree(probe, snap, 'hook/tree_clip', outputs=out, check_alias=True)
    x = np.concatenate([l.ravel() for l in f64(pytree)])
    y = np.concatenate([l.ravel() for l in f64(out)])
    nrm = float(np.sqrt((x * x).sum()))
    if nrm > 0 and float(max_norm) > 0:
      s = min(1.0, float(max_norm) / nrm)
      probe.check(bool(np.all(np.abs(y - s * x) <= (x.size + 16) * EPS32 * np.abs(s * x) + TINY)), 'hook/tree_clip:value-mismatch',
                  f'{y} != {s}*{x}')
    return out

  tree_util.tree_mean, tree_util.tree_sum, tree_util.tree_clip_by_global_norm = mon_mean, mon_sum, mon_clip
  try:
    suite = unittest.TestSuite()
    for modname in ('fedjax.core.tree_util_test', 'fedjax.aggregators.aggregator_test'):
      suite.addTests(unittest.defaultTestLoader.loadTestsFromModule(importlib.import_module(modname)))
    buf = io.StringIO()
    res = unittest.TextTestRunner(stream=buf, verbosity=0).run(suite)
    ctx.count('repo_tests:run', res.testsRun)
    ctx.count('repo_tests:failed', len(res.failures) + len(res.errors))
    ctx.notes['repo_tests'] = (f'tree_util_test+aggregator_test under monitors: run={res.testsRun} '
                               f'failed={len(res.failures) + len(res.errors)} monitor_firings={len(fired)}')
  finally:
    for name, f in orig.items():
      setattr(tree_util, name, f)
  for f in fired[:5]:
    ctx.inconclusive_because(f'monitor fired while running the repository tests: {f}')


# ------------------------------------------------------------------------- run
def run(ctx):
  import jax
  import jax.numpy as jnp
  from fedjax.core import tree_util
  from fedjax.aggregators import aggregator
  import fedjax
  # the public aliases must be the functions under test
  if fedjax.tree_util.tree_mean is not tree_util.tree_mean or fedjax.aggregators.mean_aggregator is not aggregator.mean_aggregator:
    raise RuntimeError('fedjax public aliases do not point at fedjax.core.tree_util / aggregators.aggregator')
  mods = (jax, jnp, tree_util, aggregator)
  pool = build_pool(ctx, 8 if ctx.quick else 14)
  ctx.notes['structure_pool'] = [describe(t) for t in pool]
  n_mean, n_clip = (900, 700) if ctx.quick else (24000, 16000)
  if ctx.shard == 0 and ctx.replay_case is None:
    ctx.cur_case = 'repo_tests'
    run_repo_tests_under_monitors(ctx, mods)
    ctx.cur_case = None
  for _, rng in ctx.cases('mean', n_mean):
    mean_case(ctx, mods, pool, rng)
  for _, rng in ctx.cases('clip', n_clip):
    clip_case(ctx, mods, pool, rng)
