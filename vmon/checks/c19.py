"""C19 — Downloaded and decompressed cache files appear only when complete (fault enumeration).

The real `maybe_download`, `maybe_lzma_decompress` and `cifar100.load_split` run against an in-process fake of
`requests.get` inside throw-away cache directories while the harness interrupts them in every way it can enumerate:

  status   raise_for_status() fails                    get      requests.get itself fails
  read i   IOError from raw.read at block index i      open     the output file cannot be created
  write j  error at write call j of an output file (nothing written / half written / killed half-way)
  srcread  I/O error at read call i of the compressed source during decompression
  rename   os.rename fails                             crash k  failpoint.Crash at dynamic line event k
  stale    `.partial` leftovers of every prefix-length class planted before the call

After every interruption two durable images are judged: the *kill image* (files as the operating system holds them at
the instant of the fault, read from inside the failpoint callback; unflushed user-space buffers are absent, exactly
as after a real kill) and the *exception image* (after the interrupted frames unwound). A sample of crash points is
re-executed as real `os._exit` kills in sub-processes to validate the emulation. Then a clean call must return a
complete file, and one more call must be served from the cache without any fake-network access.

Oracle: byte equality with the payload the harness serves / the harness's own lzma.decompress / the derived SQLite
of an uninterrupted build (plus the harness's own synthetic examples for the data `load_split` returns).
"""
import builtins
import contextlib
import errno
import hashlib
import importlib.util
import json
import lzma
import os
import shutil
import sqlite3
import subprocess
import sys
import tempfile

import numpy as np

from vmon import core
from vmon import failpoint

PROPERTY = 'C19'
LEVEL = 'fault_enumeration'
RULE = ('Payloads: sizes {0,1,B-1,B,B+1,3B+7} (B=256 KiB transfer block; thorough adds 2B and 5B+1) x {incompressible, '
        'compressible}. For maybe_download and maybe_lzma_decompress EVERY single fault of the recorded fault space of every '
        'payload is executed (every dynamic line event of downloads.py [+ shutil.copyfileobj], every block read, every '
        'output write call in 3 modes, every source read of the compressed file, status/get/open/rename failures), each '
        'with and without stale .partial files of every prefix-length class, plus seeded random sequences of 1-3 faults; '
        'every scenario ends with a clean call and a cache-reuse call. cifar100.load_split runs the same enumeration on a '
        'synthetic 5-client TFF SQLite (quick: every 3rd line event; thorough: all). A sample of crash points is repeated as '
        'real os._exit kills. Non-trivial: the interrupted call left at least one file of its own in the cache directory, '
        'or a stale file was present, or >=2 faults; distinct by (operation, payload, stale class, fault sequence).')
RULE += (" Wave-4 additions: every body-read fault is raised as each of OSError, requests ConnectionError/Timeout/ChunkedEncodingError, urllib3 ProtocolError/ReadTimeoutError, http.client.IncompleteRead; fault kind 'stderr broken from its k-th write on'.")
# Configuration shards (vmon.run): the cases of the plain shard with the given index are run once more in a process started
# under an environment the library is supposed to be indifferent to.
CONFIGS = {'quick': [{'name': 'python-O', 'env': {'PYTHONOPTIMIZE': '1'}, 'shard': 0}], 'thorough': [{'name': 'python-O', 'env': {'PYTHONOPTIMIZE': '1'}, 'shard': 0}, {'name': 'python-O-b', 'env': {'PYTHONOPTIMIZE': '1'}, 'shard': 5}]}
ASSUMPTIONS = [
    'the fake requests.get delivers full blocks and an honest content-length; silent short reads are out of scope',
    'a Crash exception unwinding through `with` blocks plus the kill image read at the fault instant bracket the durable '
    'states a real interruption can leave; validated on a sample by real os._exit kills (page-cache loss on power '
    'failure is not modelled)',
    'the derived CIFAR-100 SQLite of an uninterrupted build is byte-deterministic (self-checked each run; the module '
    'itself relies on it for its sha256 validation)',
    'expected size/hash constants of cifar100.py are patched in the harness process to those of the synthetic files',
]
SHARDS = {'quick': 4, 'thorough': 8}
SHARD_TIMEOUT = {'quick': 600, 'thorough': 1800}
EXHAUSTIVE = {'quick': False, 'thorough': True}
MIN_HITS = {
    'quick': {
        'mon:download': 3000, 'mon:decompress': 2500, 'mon:load_split': 600,
        'oracle:kill-image': 800, 'oracle:exception-image': 1500, 'oracle:rename-instant': 300,
        'oracle:later-call': 1500, 'oracle:reuse-no-network': 1200, 'oracle:real-kill': 6,
        'fired:crash': 800, 'fired:read': 300, 'fired:stderr': 60, 'fired:write': 100, 'big-payload-scenario': 10, 'fired:srcread': 20, 'fired:status': 20,
        'fired:get': 10, 'fired:rename': 10, 'fired:open': 10, 'stale-planted': 150, 'seq:len2': 30, 'seq:len3': 30,
        'load_split:crash-fired': 40, 'oracle:invalid-download': 6,
    },
    'thorough': {
        'mon:download': 20000, 'mon:decompress': 15000, 'mon:load_split': 4000,
        'oracle:kill-image': 5000, 'oracle:exception-image': 9000, 'oracle:rename-instant': 2000,
        'oracle:later-call': 9000, 'oracle:reuse-no-network': 8000, 'oracle:real-kill': 60,
        'fired:crash': 5000, 'fired:read': 300, 'fired:write': 800, 'fired:srcread': 300, 'fired:status': 100,
        'fired:get': 50, 'fired:rename': 50, 'fired:open': 50, 'stale-planted': 1000, 'seq:len2': 1000,
        'seq:len3': 1000, 'load_split:crash-fired': 250, 'oracle:invalid-download': 6,
    },
}
TECHNIQUE = ('runtime monitoring with fault injection: sys.monitoring failpoints at every executed line, fake HTTP layer '
             'failing at every block, write/read/rename error injection, stale-file planting, real kills; byte-equality '
             'oracle on the cache directory at every fault instant and after repair')
LEVEL_TEXT = ('Every single interruption point the harness can enumerate for the listed payloads (every executed line, every '
              'block read, every write, every source read, each collaborator failure) is actually executed against the real '
              'code, and the cache directory is judged by byte equality at the fault instant (kill and exception image), '
              'after a clean retry and after a reuse call; multi-fault sequences are sampled. Held-on-observed for the '
              'enumerated space, not a proof for other payload sizes, file systems or power loss.')
LEVEL_NOTE = ('Trusts the harness fake of requests.get, CPython file objects, lzma.compress/decompress of the standard library '
              'as the reference, and the sys.monitoring failpoint engine (vmon/failpoint.py, self-tested for event numbering).')

BLOCK = 1 << 18
_real_open = builtins.open
_real_rename = os.rename
_real_replace = os.replace


# ------------------------------------------------------------------ payloads
def make_payload(seed, size, kind):
  rng = np.random.RandomState(core.seed_from('C19-payload', seed, size, kind))
  if kind == 'rand':
    return rng.bytes(size)
  words = [b'federated', b'cache', b'block', b'sqlite', b'cifar', b'shakespeare', b'0123456789', b'\n', b' ', b'\x00\x00']
  out = bytearray()
  while len(out) < size:
    out += words[rng.randint(len(words))] * int(rng.randint(1, 6))
  return bytes(out[:size])


def sizes_for(tier):
  s = [0, 1, BLOCK - 1, BLOCK, BLOCK + 1, 3 * BLOCK + 7]
  if tier != 'quick':
    s += [2 * BLOCK, 5 * BLOCK + 1]
  return s


def first_diff(a, b):
  n = min(len(a), len(b))
  if a[:n] == b[:n]:
    return n
  lo, hi = 0, n
  while hi - lo > 1:
    mid = (lo + hi) // 2
    if a[:mid] == b[:mid]:
      lo = mid
    else:
      hi = mid
  return lo


# ---------------------------------------------------------- fake collaborators
class _Raw:

  def __init__(self, env, data):
    self.env, self.data, self.pos = env, data, 0

  def read(self, n=-1, **kw):
    env = self.env
    i = env.n_read
    env.n_read += 1
    f = env.fault
    if getattr(self, 'dead', False):
      return b''          # a body stream that has failed does not resume: later reads see a closed connection
    if f['kind'] == 'read' and f['i'] == i and not env.fired:
      env.fired = True
      self.dead = True
      raise read_exception(f.get('exc', 'OSError'), i)
    if n is None or n < 0:
      n = len(self.data) - self.pos
    b = self.data[self.pos:self.pos + n]
    self.pos += len(b)
    return b


# What a dropped / stalled connection looks like to the caller of response.raw.read(): urllib3 raises its own classes there,
# requests wraps some of them, the socket layer raises OSError.
READ_EXCS = ('OSError', 'TimeoutError', 'requests.ConnectionError', 'requests.Timeout', 'requests.ReadTimeout', 'requests.ChunkedEncodingError',
             'urllib3.ProtocolError', 'urllib3.ReadTimeoutError', 'http.IncompleteRead')


def read_exception(kind, i):
  msg = f'injected: connection lost while reading block {i}'
  if kind == 'OSError':
    return IOError(errno.ECONNRESET, msg)
  if kind == 'TimeoutError':
    return TimeoutError(errno.ETIMEDOUT, msg)
  if kind.startswith('requests.'):
    import requests
    return getattr(requests.exceptions, kind.split('.')[1])(msg)
  if kind == 'urllib3.ProtocolError':
    import urllib3
    return urllib3.exceptions.ProtocolError(msg)
  if kind == 'urllib3.ReadTimeoutError':
    import urllib3
    return urllib3.exceptions.ReadTimeoutError(None, 'https://fake.invalid/', msg)
  if kind == 'http.IncompleteRead':
    import http.client
    return http.client.IncompleteRead(b'', 1)
  raise core.HarnessError(f'unknown read exception kind {kind}')


class _BrokenStderr:
  """sys.stderr of a process whose terminal / pipe goes away: every write from call index k on raises EPIPE."""

  def __init__(self, env, sink):
    self.env, self.sink = env, sink

  def write(self, text):
    env = self.env
    idx = env.n_err
    env.n_err += 1
    f = env.fault
    if f['kind'] == 'stderr' and idx >= f['k']:
      env.fired = True
      raise BrokenPipeError(errno.EPIPE, 'injected: Broken pipe (stderr)')
    return self.sink.write(text)

  def flush(self):
    pass

  def isatty(self):
    return False


class _Response:

  def __init__(self, env, data, status=200):
    self.env = env
    self.headers = {'content-length': str(len(data)), 'Content-Length': str(len(data))}
    if getattr(env, 'headerless', False):
      self.headers = {}       # a server that sends no content-length (close-delimited body)
    self.raw = _Raw(env, data)
    self.status_code = status
    self.ok = status < 400

  def raise_for_status(self):
    if self.status_code >= 400:
      raise self.env.requests.HTTPError(f'injected: {self.status_code} Server Error')

  def close(self):
    pass

  def __enter__(self):
    return self

  def __exit__(self, *a):
    return False


class _WriteProxy:
  """Output file whose write() can fail at call index j (counted over all output files of one call)."""

  def __init__(self, f, env, path):
    self._f, self._env, self._path = f, env, path

  def write(self, data):
    env = self._env
    j = env.n_write
    env.n_write += 1
    f = env.fault
    if f['kind'] == 'write' and f['j'] == j and not env.fired:
      env.fired = True
      if f['mode'] != 'before':
        self._f.write(bytes(data)[:len(data) // 2])
        self._f.flush()
      if f['mode'] == 'kill':
        env.take_kill_image()
        raise failpoint.Crash(failpoint.Event(self._path, 0, 'write', j))
      raise OSError(errno.ENOSPC, 'injected: No space left on device')
    return self._f.write(data)

  def __enter__(self):
    self._f.__enter__()
    return self

  def __exit__(self, *a):
    return self._f.__exit__(*a)

  def __iter__(self):
    return iter(self._f)

  def __getattr__(self, name):
    return getattr(self._f, name)


class _ReadProxy:
  """Compressed source whose read() fails at call index i."""

  def __init__(self, f, env):
    self._f, self._env = f, env

  def _tick(self):
    env = self._env
    i = env.n_srcread
    env.n_srcread += 1
    f = env.fault
    if f['kind'] == 'srcread' and f['i'] == i and not env.fired:
      env.fired = True
      raise OSError(errno.EIO, f'injected: I/O error reading compressed source (read call {i})')

  def read(self, *a):
    self._tick()
    return self._f.read(*a)

  def readinto(self, b):
    self._tick()
    return self._f.readinto(b)

  def __enter__(self):
    self._f.__enter__()
    return self

  def __exit__(self, *a):
    return self._f.__exit__(*a)

  def __getattr__(self, name):
    return getattr(self._f, name)


NO_FAULT = {'kind': 'none'}
ERROR_BODY = b'<html><body><h1>503 Service Unavailable</h1></body></html>\n'


class Env:
  """Fake network and I/O fault hooks of one process; all hooks are harness-side (nothing in the repo is edited)."""

  def __init__(self):
    import requests
    self.requests = requests
    self.served = {}
    self.net_calls = 0
    self.stray_calls = 0
    self.active = False
    self.fault = NO_FAULT
    self.fired = False
    self.n_read = self.n_write = self.n_srcread = self.n_err = 0
    self.root = None
    self.watch = {}
    self.rename_log = []
    self.kill_image = None
    requests.get = self.fake_get
    requests.api.get = self.fake_get
    requests.Session.request = self.stray
    self.devnull = _real_open(os.devnull, 'w')

  # network
  def fake_get(self, url, *a, **kw):
    import urllib.parse
    self.net_calls += 1
    if self.fault['kind'] == 'get' and not self.fired:
      self.fired = True
      raise self.requests.ConnectionError('injected: connection refused')
    name = os.path.basename(urllib.parse.urlparse(url).path)
    if name not in self.served:
      raise core.HarnessError(f'fake network has no payload for {url!r}')
    if self.fault['kind'] == 'status' and not self.fired:
      # The server answers 503 with an error page (and that page's own content-length), as real servers do.
      self.fired = True
      return _Response(self, ERROR_BODY, status=503)
    return _Response(self, self.served[name])

  def stray(self, *a, **kw):
    self.net_calls += 1
    self.stray_calls += 1
    raise self.requests.ConnectionError('offline sandbox: unexpected real network access')

  # file hooks
  def _inside(self, path):
    try:
      path = os.fspath(path)
    except TypeError:
      return None
    if isinstance(path, bytes):
      path = os.fsdecode(path)
    path = os.path.abspath(path)
    return path if self.root and path.startswith(self.root + os.sep) else None

  def hooked_open(self, file, mode='r', *a, **kw):
    path = self._inside(file) if self.active else None
    if path is None:
      return _real_open(file, mode, *a, **kw)
    if any(c in mode for c in 'wax+'):
      if self.fault['kind'] == 'open' and not self.fired:
        self.fired = True
        raise OSError(errno.ENOSPC, 'injected: cannot create file', path)
      return _WriteProxy(_real_open(file, mode, *a, **kw), self, path)
    if self.fault['kind'] == 'srcread' and path.endswith('.lzma') and 'b' in mode:
      return _ReadProxy(_real_open(file, mode, *a, **kw), self)
    return _real_open(file, mode, *a, **kw)

  def _hooked_mv(self, real, src, dst, *a, **kw):
    path = self._inside(dst) if self.active else None
    if path is not None and self.fault['kind'] == 'rename' and not self.fired:
      self.fired = True
      raise OSError(errno.EIO, 'injected: rename failed', path)
    r = real(src, dst, *a, **kw)
    if path is not None and path in self.watch:
      # rename-instant monitor: what is durable under the final name at the very moment it appears
      self.rename_log.append((path, read_file(path)))
    return r

  def hooked_rename(self, src, dst, *a, **kw):
    return self._hooked_mv(_real_rename, src, dst, *a, **kw)

  def hooked_replace(self, src, dst, *a, **kw):
    return self._hooked_mv(_real_replace, src, dst, *a, **kw)

  def snapshot(self):
    return {p: read_file(p) for p in self.watch}

  def take_kill_image(self, ev=None):
    self.kill_image = self.snapshot()

  @contextlib.contextmanager
  def scope(self, fault):
    self.fault = fault or NO_FAULT
    self.fired = False
    self.n_read = self.n_write = self.n_srcread = self.n_err = 0
    self.rename_log = []
    self.kill_image = None
    builtins.open = self.hooked_open
    os.rename = self.hooked_rename
    os.replace = self.hooked_replace
    old_err = sys.stderr
    sys.stderr = _BrokenStderr(self, self.devnull)
    self.active = True
    try:
      yield
    finally:
      self.active = False
      sys.stderr = old_err
      builtins.open = _real_open
      os.rename = _real_rename
      os.replace = _real_replace


def read_file(path):
  try:
    with _real_open(path, 'rb') as f:
      return f.read()
  except FileNotFoundError:
    return None
  except IsADirectoryError:
    return b'<directory>'


def write_file(path, data):
  with _real_open(path, 'wb') as f:
    f.write(data)


# ------------------------------------------------------------------ operations
class DownloadOp:
  name = 'download'

  def __init__(self, downloads, env, label, payload):
    self.dl, self.env, self.label, self.payload = downloads, env, label, payload
    self.fname = f'{label}.bin'
    self.url = f'https://fake.invalid/bucket/sub.dir/{self.fname}?generation=7&alt=media#frag'
    self.targets = [downloads.__file__]
    self.stale_name = self.fname + '.partial'
    self.stale_ref = payload

  def prepare(self, d):
    self.env.served[self.fname] = self.payload

  def watch(self, d):
    return {os.path.join(d, self.fname): ('download', self.payload)}

  def inputs(self):
    return set()

  def call(self, d):
    return self.dl.maybe_download(self.url, d)

  def returned_ok(self, d, ret):
    got = read_file(ret) if isinstance(ret, (str, bytes, os.PathLike)) else None
    return got == self.payload, {'returned': repr(ret)[:200], 'observed_len': None if got is None else len(got),
                                 'expected_len': len(self.payload)}

  def preseed(self, d):
    write_file(os.path.join(d, self.fname), self.payload)


class DecompressOp:
  name = 'decompress'

  def __init__(self, downloads, env, label, payload, compressed):
    self.dl, self.env, self.label, self.payload, self.compressed = downloads, env, label, payload, compressed
    self.fname = f'{label}.sqlite'
    self.targets = [downloads.__file__, (shutil.__file__, ['copyfileobj'])]
    self.stale_name = self.fname + '.partial'
    self.stale_ref = payload

  def prepare(self, d):
    write_file(os.path.join(d, self.fname + '.lzma'), self.compressed)

  def watch(self, d):
    return {os.path.join(d, self.fname): ('decompressed', self.payload),
            os.path.join(d, self.fname + '.lzma'): ('compressed-source', self.compressed)}

  def inputs(self):
    return {self.fname + '.lzma'}

  def call(self, d):
    return self.dl.maybe_lzma_decompress(os.path.join(d, self.fname + '.lzma'))

  def returned_ok(self, d, ret):
    got = read_file(ret) if isinstance(ret, (str, bytes, os.PathLike)) else None
    return got == self.payload, {'returned': repr(ret)[:200], 'observed_len': None if got is None else len(got),
                                 'expected_len': len(self.payload)}

  def preseed(self, d):
    write_file(os.path.join(d, self.fname), self.payload)


# -------------------------------------------------- composed path: load_split
def synth_cifar(seed):
  """{split: {client id (str): examples}}; 3 train + 2 test clients, unique images."""
  rng = np.random.RandomState(core.seed_from('C19-cifar', seed))
  out = {}
  for split, ids, n in (('train', ['7', '12', '3'], (20, 16, 22)), ('test', ['12', '40'], (6, 8))):
    out[split] = {}
    for cid, k in zip(ids, n):
      out[split][cid] = {
          'image': rng.randint(0, 256, size=(k, 32, 32, 3)).astype(np.uint8),
          'label': rng.randint(0, 100, size=(k,)).astype(np.int64),
          'coarse_label': rng.randint(0, 20, size=(k,)).astype(np.int64),
      }
  return out


def build_tff_db(path, data):
  import tensorflow as tf
  conn = sqlite3.connect(path)
  conn.executescript("""
    CREATE TABLE examples (split_name TEXT NOT NULL, client_id TEXT NOT NULL, serialized_example_proto BLOB NOT NULL);
    CREATE INDEX idx_examples_client_id ON examples (client_id);
    CREATE INDEX idx_examples_client_id_split ON examples (split_name, client_id);
    CREATE TABLE client_metadata (client_id TEXT NOT NULL, split_name TEXT NOT NULL, num_examples INTEGER NOT NULL);
    CREATE INDEX idx_metadata_client_id ON client_metadata (client_id);
  """)
  rows = []
  for split, clients in data.items():
    for cid, ex in clients.items():
      n = len(ex['label'])
      conn.execute('INSERT INTO client_metadata VALUES (?, ?, ?)', (cid, split, n))
      for i in range(n):
        feat = {
            'coarse_label': tf.train.Feature(int64_list=tf.train.Int64List(value=[int(ex['coarse_label'][i])])),
            'label': tf.train.Feature(int64_list=tf.train.Int64List(value=[int(ex['label'][i])])),
            'image': tf.train.Feature(int64_list=tf.train.Int64List(value=ex['image'][i].ravel().astype(np.int64).tolist())),
        }
        proto = tf.train.Example(features=tf.train.Features(feature=feat)).SerializeToString()
        rows.append((i, split, cid, proto))
  rows.sort(key=lambda r: (r[0], r[1], r[2]))   # interleave clients so that per-client row order matters
  conn.executemany('INSERT INTO examples VALUES (?, ?, ?)', [r[1:] for r in rows])
  conn.commit()
  conn.close()


class LoadSplitOp:
  name = 'load_split'
  COMP = 'cifar100.sqlite.lzma'
  DEC = 'cifar100.sqlite'

  def __init__(self, downloads, cifar100, sqlite_fd, env, seed, scratch):
    self.dl, self.c100, self.env = downloads, cifar100, env
    self.label = 'cifar-synth'
    self.data = synth_cifar(seed)
    tmp = tempfile.mkdtemp(prefix='c19-tff-', dir=scratch)
    try:
      p = os.path.join(tmp, 'tff.sqlite')
      build_tff_db(p, self.data)
      self.db = read_file(p)
    finally:
      shutil.rmtree(tmp, ignore_errors=True)
    self.compressed = lzma.compress(self.db, preset=0)
    self.targets = [downloads.__file__, cifar100.__file__, sqlite_fd.__file__, (shutil.__file__, ['copyfileobj'])]
    self.stale_name = self.COMP + '.partial'
    self.stale_ref = self.compressed
    self.split = 'train'
    self.ref = {}
    cifar100._TFF_SQLITE_COMPRESSED_NUM_BYTES = len(self.compressed)
    cifar100._TFF_SQLITE_COMPRESSED_HEXDIGEST = hashlib.sha256(self.compressed).hexdigest()
    env.served[self.COMP] = self.compressed
    # Reference derived files from an uninterrupted build. The expected constants are unknown before the first build,
    # so for these two calls only, validate_file is replaced by a recorder (whatever name the file is validated under).
    real_validate = downloads.validate_file
    d0 = tempfile.mkdtemp(prefix='c19-ref-', dir=scratch)
    try:
      env.root, env.watch = d0, {}
      for split in ('train', 'test'):
        seen = []
        downloads.validate_file = lambda path, n, h, seen=seen: seen.append((os.path.basename(path), read_file(path)))
        try:
          with env.scope(None):
            cifar100.load_split(split, cache_dir=d0)
        finally:
          downloads.validate_file = real_validate
        produced = [b for name, b in seen if b is not None and b != self.compressed]
        if split == 'train' and not any(b == self.compressed for _, b in seen):
          raise core.Inconclusive('load_split no longer validates the downloaded file through downloads.validate_file')
        if len(produced) != 1 or not produced[0]:
          raise core.Inconclusive(f'reference build: expected one validated derived file, saw {[n for n, _ in seen]}')
        b = produced[0]
        self.ref[split] = b
        cifar100._FEDJAX_SQLITE_NUM_BYTES[split] = len(b)
        cifar100._FEDJAX_SQLITE_HEXDIGEST[split] = hashlib.sha256(b).hexdigest()
    finally:
      downloads.validate_file = real_validate
      shutil.rmtree(d0, ignore_errors=True)
    # self-check: a clean build validates (=> byte-deterministic) and returns the synthetic data
    d1 = tempfile.mkdtemp(prefix='c19-ref-', dir=scratch)
    try:
      env.root, env.watch = d1, {}
      for split in ('train', 'test'):
        self.split = split
        with env.scope(None):
          ret = self.call(d1)
        ok, detail = self.returned_ok(d1, ret)
        if not ok:
          raise core.Inconclusive(f'oracle self-check: uninterrupted load_split({split}) != synthetic data: {detail}')
        if read_file(os.path.join(d1, f'federated_cifar100_{split}.sqlite')) != self.ref[split]:
          raise core.Inconclusive('derived SQLite is not byte-deterministic')
      if read_file(os.path.join(d1, self.DEC)) != self.db:
        raise core.Inconclusive('oracle self-check: decompressed file differs from the synthetic database')
    finally:
      shutil.rmtree(d1, ignore_errors=True)
    self.split = 'train'

  def prepare(self, d):
    self.env.served[self.COMP] = self.compressed

  def watch(self, d):
    return {
        os.path.join(d, self.COMP): ('download', self.compressed),
        os.path.join(d, self.DEC): ('decompressed', self.db),
        os.path.join(d, 'federated_cifar100_train.sqlite'): ('derived', self.ref['train']),
        os.path.join(d, 'federated_cifar100_test.sqlite'): ('derived', self.ref['test']),
    }

  def inputs(self):
    return set()

  def call(self, d):
    fd = self.c100.load_split(self.split, cache_dir=d)
    # Materialise what the caller gets, then drop the connection.
    got = [(cid, ds.all_examples()) for cid, ds in fd.clients()]
    del fd
    return (self.split, got)

  def returned_ok(self, d, ret):
    split, got = ret
    exp = self.data[split]
    norm = lambda c: c if isinstance(c, bytes) else str(c).encode()
    exp_ids = sorted(norm(c) for c in exp)
    got_ids = [norm(c) for c, _ in got]
    if got_ids != exp_ids:
      return False, {'split': split, 'client_ids': got_ids, 'expected_client_ids': exp_ids}
    by_id = {norm(c): e for c, e in exp.items()}
    for cid, ex in got:
      e = by_id[norm(cid)]
      if set(ex) != set(e):
        return False, {'split': split, 'client': cid, 'features': sorted(ex)}
      for k in e:
        if not core.bit_equal(np.asarray(ex[k]), e[k]):
          return False, {'split': split, 'client': cid, 'feature': k, 'shape': list(np.shape(ex[k]))}
    return True, {'split': split, 'clients': len(got)}

  def preseed(self, d):
    write_file(os.path.join(d, self.COMP), self.compressed)
    write_file(os.path.join(d, self.DEC), self.db)
    write_file(os.path.join(d, f'federated_cifar100_{self.split}.sqlite'), self.ref[self.split])


# ------------------------------------------------------------ fault machinery
def fault_label(f):
  k = f['kind']
  if k == 'crash':
    return f'crash@{f["k"]}'
  if k == 'read':
    return f'read@{f["i"]}' + (f':{f["exc"]}' if f.get('exc', 'OSError') != 'OSError' else '')
  if k == 'stderr':
    return f'stderr-broken-from-write@{f["k"]}'
  if k == 'write':
    return f'write@{f["j"]}:{f["mode"]}'
  if k == 'srcread':
    return f'srcread@{f["i"]}'
  return k


def run_call(env, op, d, fault):
  """One call of the operation under one fault. Returns dict(outcome, value|exc, fired, kill_image, rename_log, event)."""
  res = {'outcome': None, 'fired': False, 'kill_image': None, 'event': None}
  with env.scope(fault):
    try:
      if fault is not None and fault['kind'] == 'crash':
        with failpoint.Injector(op.targets, fault['k'], on_fire=env.take_kill_image) as inj:
          try:
            res['value'] = op.call(d)
          finally:
            env.fired = inj.fired
            res['event'] = inj.event
      else:
        res['value'] = op.call(d)
      res['outcome'] = 'returned'
    except failpoint.Crash as e:
      res['outcome'], res['exc'] = 'crash', e
    except (core.HarnessError, core.Inconclusive):
      raise
    except Exception as e:  # pylint: disable=broad-except
      res['outcome'], res['exc'] = 'raised', e
    res['fired'] = env.fired
    res['kill_image'] = env.kill_image
    res['rename_log'] = env.rename_log
    res['counts'] = (env.n_read, env.n_write, env.n_srcread)
  return res


def record_space(ctx, env, op, scratch):
  """Clean recorded run: the fault space of one (operation, payload)."""
  d = tempfile.mkdtemp(prefix='c19-rec-', dir=scratch)
  try:
    env.root, env.watch = d, op.watch(d)
    op.prepare(d)
    wit = {'operation': op.name, 'payload': op.label, 'stale': None, 'faults': [], 'preseeded': False,
           'stage': 'recording run on an empty cache'}
    with env.scope({'kind': 'srcread', 'i': -1}):   # arms the read proxy so source reads are counted
      try:
        with failpoint.Recorder(op.targets) as rec:
          ret = op.call(d)
      except (core.HarnessError, core.Inconclusive):
        raise
      except Exception as e:  # pylint: disable=broad-except
        frames = core.fedjax_frames(e)
        if not frames:
          raise
        ctx.violation(f'call/{op.name}-raises-on-consistent-cache',
                      f'a fault-free call on an empty cache raised {type(e).__name__}: {str(e)[:160]}',
                      {**wit, 'frames': [f'{f}:{l}:{n}' for f, l, n in frames[-5:]]})
        return None
      counts = (env.n_read, env.n_write, env.n_srcread, env.n_err)
    ok, detail = op.returned_ok(d, ret)
    if not ok:
      ctx.violation(f'call/{op.name}-returns-incomplete-from-consistent-cache',
                    'a fault-free call on an empty cache returned incomplete/wrong content', {**wit, **detail})
      return None
    return {'events': rec.events, 'reads': counts[0], 'writes': counts[1], 'srcreads': counts[2], 'errwrites': counts[3]}
  finally:
    shutil.rmtree(d, ignore_errors=True)


def single_faults(op, space, crash_stride=1):
  fs = [{'kind': 'status'}, {'kind': 'get'}, {'kind': 'open'}, {'kind': 'rename'}]
  if op.name == 'decompress':
    fs = [{'kind': 'open'}, {'kind': 'rename'}]
  fs += [{'kind': 'read', 'i': i, 'exc': e} for i in range(space['reads']) for e in READ_EXCS]
  # the progress display writes to stderr while blocks are being transferred: a terminal / pipe that goes away mid-transfer
  fs += [{'kind': 'stderr', 'k': k} for k in range(space.get('errwrites', 0))]
  fs += [{'kind': 'write', 'j': j, 'mode': m} for j in range(space['writes']) for m in ('before', 'torn', 'kill')]
  nsrc = space['srcreads']
  fs += [{'kind': 'srcread', 'i': i} for i in range(nsrc)]
  n = len(space['events'])
  fs += [{'kind': 'crash', 'k': k} for k in range(n) if k % crash_stride == 0 or k == n - 1]
  return fs


def stale_classes(ref):
  """(class name, content) for stale leftovers of every prefix-length class of `ref`."""
  n = len(ref)
  out, seen = [], set()
  cands = [('empty', 0), ('1-byte', 1), ('block-1', BLOCK - 1), ('block', BLOCK), ('block+1', BLOCK + 1),
           ('half', n // 2), ('len-1', n - 1), ('complete', n)]
  for name, ln in cands:
    if 0 <= ln <= n and (ln == n) == (name == 'complete') and ln not in seen:
      seen.add(ln)
      out.append((name, ref[:ln]))
  out.append(('longer', ref + b'STALE-TAIL'))
  out.append(('garbage', bytes((b ^ 0x5A) for b in ref[:min(n, 4096)]) + b'\x01'))
  return out


class Judge:
  """All monitors of one scenario.

  Mechanism keys (stage / image / fault are witness fields, never part of a key):
    final-name/<role>-incomplete               a cache file exists under its final name with wrong/partial content.
                                               Consequences observed later in the same scenario (a call that returns that
                                               content, or fails on it) are attributed to this key, per bad role.
    final-name/<role>-renamed-before-complete  moved into place while its durable content was still incomplete
    call/<op>-returns-incomplete-from-consistent-cache, call/<op>-raises-on-consistent-cache
    network/<op>-access-with-complete-cache
  roles: download, decompressed, derived, compressed-source.
  """

  def __init__(self, ctx, env, op, wit):
    self.ctx, self.env, self.op, self.wit = ctx, env, op, wit

  def _mon(self, ok, key, what, wit):
    self.ctx.count('mon:' + self.op.name)
    if not ok:
      self.ctx.violation(key, what, wit)
    return ok

  def bad_roles(self, snap):
    return sorted({role for p, (role, exp) in self.env.watch.items() if snap.get(p) is not None and snap[p] != exp})

  def files(self, snap, stage, oracle, extra=None):
    for p, (role, exp) in self.env.watch.items():
      got = snap.get(p)
      self.ctx.count('oracle:' + oracle)
      ok = got is None or got == exp
      w = None
      if not ok:
        w = {**self.wit, 'monitor': 'file-state', 'stage': stage, 'file': os.path.basename(p), 'image': oracle,
             'observed_len': len(got), 'expected_len': len(exp), 'first_difference_at': first_diff(got, exp),
             **(extra or {})}
      self._mon(ok, f'final-name/{role}-incomplete',
                f'{os.path.basename(p)} exists under its final name with incomplete/wrong content ({oracle}, {stage})', w)

  def interruption(self, res, flabel):
    extra = {'fault': flabel, 'event': None if res['event'] is None else
             f'{os.path.basename(res["event"].file)}:{res["event"].line}:{res["event"].func}'}
    if res['kill_image'] is not None:
      self.files(res['kill_image'], 'interruption', 'kill-image', extra)
    self.files(self.env.snapshot(), 'interruption', 'exception-image', extra)
    self.renames(res, extra)

  def renames(self, res, extra=None):
    for p, got in res.get('rename_log', ()):
      role, exp = self.env.watch[p]
      self.ctx.count('oracle:rename-instant')
      ok = got == exp
      w = None
      if not ok:
        w = {**self.wit, 'file': os.path.basename(p), 'image': 'rename-instant',
             'observed_len': None if got is None else len(got), 'expected_len': len(exp), **(extra or {})}
      self._mon(ok, f'final-name/{role}-renamed-before-complete',
                f'{os.path.basename(p)} was moved to its final name while its durable content was still incomplete '
                '(a kill right after the rename leaves a truncated cache file)', w)

  def outcome(self, d, res, bad, stage, extra=None):
    """Judges what a call handed back: complete content, or (fault-free calls only) no exception."""
    op = self.op
    if res['outcome'] == 'raised':
      e = res['exc']
      frames = core.fedjax_frames(e)
      if not frames:
        raise core.HarnessError(f'{op.name} {stage}: {type(e).__name__}: {e}') from e
      w = {**self.wit, 'monitor': 'fault-free-call-raised', 'stage': stage, 'bad_cache_files_before_call': bad,
           'exception': f'{type(e).__name__}: {str(e)[:200]}', 'frames': [f'{f}:{l}:{n}' for f, l, n in frames[-5:]]}
      what = f'a fault-free call ({stage}) raised {type(e).__name__}: {str(e)[:120]}'
      if bad:
        for role in bad:
          self._mon(False, f'final-name/{role}-incomplete', what + f' because the cached {role} file is incomplete', w)
      else:
        self._mon(False, f'call/{op.name}-raises-on-consistent-cache', what, w)
      return
    if res['outcome'] != 'returned':
      return
    ok, detail = op.returned_ok(d, res['value'])
    if ok:
      self._mon(True, '', '', None)
      return
    w = {**self.wit, 'monitor': 'call-returned-incomplete', 'stage': stage, 'bad_cache_files_before_call': bad, **detail,
         **(extra or {})}
    what = f'a call ({stage}) returned incomplete/wrong content'
    if bad:
      for role in bad:
        self._mon(False, f'final-name/{role}-incomplete', what + f': the incomplete cached {role} file was reused', w)
    else:
      self._mon(False, f'call/{op.name}-returns-incomplete-from-consistent-cache', what, w)

  def later_call(self, d, stage='later-call'):
    """A clean call after the interruptions: must return complete content and leave a consistent cache."""
    env = self.env
    bad = self.bad_roles(env.snapshot())
    res = run_call(env, self.op, d, None)
    self.ctx.count('oracle:later-call')
    self.outcome(d, res, bad, stage)
    self.files(env.snapshot(), stage, 'after-later-call')
    self.renames(res)
    return res

  def reuse(self, d):
    """The download is cached completely: one more call must not touch the network."""
    env, op = self.env, self.op
    before = env.snapshot()
    bad = self.bad_roles(before)
    dl = [p for p, (role, exp) in env.watch.items() if role == 'download']
    cached = all(before.get(p) == env.watch[p][1] for p in dl)
    n0 = env.net_calls
    res = run_call(env, op, d, None)
    if cached:
      self.ctx.count('oracle:reuse-no-network')
      used = env.net_calls - n0
      self._mon(used == 0, f'network/{op.name}-access-with-complete-cache',
                f'{used} network request(s) although the complete file was cached',
                None if used == 0 else {**self.wit, 'requests': used})
    self.outcome(d, res, bad, 'reuse-call')
    self.files(env.snapshot(), 'reuse-call', 'after-reuse')
    self.renames(res)


def run_scenario(ctx, env, op, scratch, stale, faults, preseed=False, other_split=False):
  wit = {'operation': op.name, 'payload': op.label, 'stale': None if stale is None else stale[0],
         'faults': [fault_label(f) for f in faults], 'preseeded': preseed}
  d = tempfile.mkdtemp(prefix='c19-', dir=scratch)
  nontrivial = stale is not None or len(faults) >= 2
  klass = [f'op:{op.name}']
  try:
    env.root, env.watch = d, op.watch(d)
    op.prepare(d)
    if preseed:
      op.preseed(d)
      klass.append('preseeded-complete')
    if stale is not None:
      write_file(os.path.join(d, op.stale_name), stale[1])
      ctx.count('stale-planted')
      klass.append('stale:' + stale[0])
    j = Judge(ctx, env, op, wit)
    if preseed:
      j.reuse(d)
    for f in faults:
      bad_before = j.bad_roles(env.snapshot())
      res = run_call(env, op, d, f)
      lab = fault_label(f)
      if res['fired']:
        ctx.count('fired:' + f['kind'])
        if op.name == 'load_split' and f['kind'] == 'crash':
          ctx.count('load_split:crash-fired')
        klass.append('fault:' + f['kind'])
        if res['outcome'] == 'returned':
          klass.append('fault-swallowed')
      else:
        ctx.count('fault-not-reached')
      if res['outcome'] == 'returned':
        j.outcome(d, res, bad_before, 'faulted-call', {'fault': lab})
      j.interruption(res, lab)
      left = set(os.listdir(d)) - op.inputs() - ({op.stale_name} if stale is not None else set())
      if res['fired'] and left:
        nontrivial = True
        klass.append('interrupted-with-own-files-on-disk')
    j.later_call(d)
    if other_split:
      op.split = 'test'
      try:
        j.reuse(d)
      finally:
        op.split = 'train'
    j.reuse(d)
    if len(faults) >= 2:
      ctx.count(f'seq:len{len(faults)}')
  finally:
    shutil.rmtree(d, ignore_errors=True)
  key = (op.name, op.label, wit['stale'], tuple(wit['faults']), preseed) if nontrivial else None
  ctx.case_done(key, sample=wit, klass=sorted(set(klass)))


def run_headerless(ctx, env, op, scratch, fault):
  wit = {'operation': op.name, 'payload': op.label, 'server': 'no content-length header',
         'faults': [fault_label(fault)] if fault else []}
  d = tempfile.mkdtemp(prefix='c19-', dir=scratch)
  try:
    env.root, env.watch = d, op.watch(d)
    op.prepare(d)
    j = Judge(ctx, env, op, wit)
    env.headerless = True
    try:
      res = run_call(env, op, d, fault)
    finally:
      env.headerless = False
    if res['outcome'] == 'returned':
      j.outcome(d, res, [], 'headerless-call', {'fault': fault_label(fault) if fault else None})
    j.interruption(res, fault_label(fault) if fault else 'none')
    ctx.count('headerless-server')
    j.later_call(d)          # an ordinary server again: the cache must be repaired / complete
    j.reuse(d)
  finally:
    env.headerless = False
    shutil.rmtree(d, ignore_errors=True)
  ctx.case_done((op.name, op.label, 'headerless', fault_label(fault) if fault else None), sample=wit, klass=['headerless-server'])


def run_invalid_download(ctx, env, lop, scratch, cls):
  """load_split on a cache whose downloaded file is present but invalid (truncated / same-size garbage).

  The module's own size+sha256 validation is the mechanism that keeps such a file from being consumed, on reuse as
  much as after a fresh download: the only acceptable outcomes are the documented ValueError of validate_file or
  complete data, and no decompressed / derived file may be produced from it.
  """
  name, content = cls
  wit = {'operation': lop.name, 'payload': lop.label, 'stale': None, 'faults': [], 'preseeded': False,
         'invalid_cached_download': name, 'observed_len': len(content), 'expected_len': len(lop.compressed)}
  d = tempfile.mkdtemp(prefix='c19-', dir=scratch)
  try:
    env.root = d
    env.watch = {p: v for p, v in lop.watch(d).items() if v[0] != 'download'}
    lop.prepare(d)
    write_file(os.path.join(d, lop.COMP), content)
    j = Judge(ctx, env, lop, wit)
    res = run_call(env, lop, d, None)
    ctx.count('oracle:invalid-download')
    ok, what = True, ''
    if res['outcome'] == 'raised':
      e = res['exc']
      frames = core.fedjax_frames(e)
      if not frames:
        raise core.HarnessError(f'load_split on invalid download: {type(e).__name__}: {e}') from e
      refused = isinstance(e, ValueError) and frames[-1][2] == 'validate_file'
      ctx.klass('invalid-download-refused' if refused else 'invalid-download-consumed')
      if not refused:
        ok, what = False, f'raised {type(e).__name__}: {str(e)[:160]} instead of the validation error'
        wit = {**wit, 'frames': [f'{f}:{l}:{n}' for f, l, n in frames[-5:]]}
    else:
      good, detail = lop.returned_ok(d, res['value'])
      if not good:
        ok, what = False, 'returned incomplete data'
        wit = {**wit, **detail}
    j._mon(ok, 'validation/load_split-consumes-invalid-download',
           f'load_split consumed a cached download that fails size/sha256 validation: {what}', None if ok else wit)
    j.files(env.snapshot(), 'invalid-download', 'after-invalid-download')
  finally:
    shutil.rmtree(d, ignore_errors=True)
  ctx.case_done((lop.name, 'invalid-download', name), sample=wit, klass=['op:load_split', 'invalid-cached-download'])


# ------------------------------------------------------------------ real kills
def load_standalone_downloads(repo):
  path = os.path.join(repo, 'fedjax', 'datasets', 'downloads.py')
  spec = importlib.util.spec_from_file_location('c19_standalone_downloads', path)
  mod = importlib.util.module_from_spec(spec)
  spec.loader.exec_module(mod)
  return mod


def kill_child(argv):
  """Sub-process body: runs one operation and dies with os._exit(77) at line event k. No fedjax package import."""
  spec = json.loads(argv)
  dl = load_standalone_downloads(spec['repo'])
  env = Env()
  payload = make_payload(spec['seed'], spec['size'], spec['kind'])
  if spec['op'] == 'download':
    op = DownloadOp(dl, env, spec['label'], payload)
  else:
    op = DecompressOp(dl, env, spec['label'], payload, b'')
  d = spec['dir']
  env.root, env.watch = d, {}
  env.served[getattr(op, 'fname', '')] = payload
  with env.scope(None):
    with failpoint.Injector(op.targets, spec['k'], kill=True):
      op.call(d)
  sys.exit(0)


def real_kill_case(ctx, env, op, space, scratch, k, size, kind):
  wit = {'operation': op.name, 'payload': op.label, 'stale': None, 'faults': [f'real-kill@{k}'], 'preseeded': False}
  d = tempfile.mkdtemp(prefix='c19-kill-', dir=scratch)
  try:
    env.root, env.watch = d, op.watch(d)
    op.prepare(d)
    spec = {'repo': core.REPO_ROOT, 'op': op.name, 'size': size, 'kind': kind, 'seed': ctx.seed, 'label': op.label,
            'dir': d, 'k': k}
    p = subprocess.run([sys.executable, '-m', 'vmon.checks.c19', '--kill-child', json.dumps(spec)], timeout=120,
                       capture_output=True, text=True, cwd=core.VERIF_ROOT)
    if p.returncode != failpoint.KILL_EXIT_CODE:
      raise core.HarnessError(f'kill child exited {p.returncode}: {p.stderr[-800:]}')
    j = Judge(ctx, env, op, wit)
    real = env.snapshot()
    ev = space['events'][k]
    j.files(real, 'interruption', 'real-kill', {'fault': f'real-kill@{k}',
                                                'event': f'{os.path.basename(ev.file)}:{ev.line}:{ev.func}'})
    # emulation cross-check: the in-process kill image at the same event must equal the real one
    d2 = tempfile.mkdtemp(prefix='c19-kill-', dir=scratch)
    try:
      env.root, env.watch = d2, op.watch(d2)
      op.prepare(d2)
      res = run_call(env, op, d2, {'kind': 'crash', 'k': k})
      emu = res['kill_image'] or {}
      same = all(emu.get(os.path.join(d2, os.path.basename(p_))) == v for p_, v in real.items())
      ctx.klass('kill-emulation-agrees' if same else 'kill-emulation-differs')
    finally:
      shutil.rmtree(d2, ignore_errors=True)
      env.root, env.watch = d, op.watch(d)
    j.later_call(d)
    j.reuse(d)
  finally:
    shutil.rmtree(d, ignore_errors=True)
  ctx.case_done((op.name, op.label, 'real-kill', k), sample=wit, klass=[f'op:{op.name}', 'real-kill'])


# ------------------------------------------------------------------------ run
def run(ctx):
  from fedjax.core import sqlite_federated_data
  from fedjax.datasets import cifar100
  from fedjax.datasets import downloads

  scratch = tempfile.mkdtemp(prefix='c19-scratch-')
  env = Env()
  try:
    _run(ctx, env, scratch, downloads, cifar100, sqlite_federated_data)
  finally:
    shutil.rmtree(scratch, ignore_errors=True)
  if env.stray_calls:
    ctx.violation('network/real-network-attempt', f'{env.stray_calls} request(s) bypassed requests.get', None)
  left = failpoint.active_tool_ids()
  if left:
    raise core.HarnessError(f'failpoint tool ids leaked: {left}')


def _run(ctx, env, scratch, downloads, cifar100, sqlite_fd):
  quick = ctx.quick
  ops = []
  for size in sizes_for(ctx.tier):
    for kind in ('rand', 'text'):
      payload = make_payload(ctx.seed, size, kind)
      label = f'{size}B-{kind}'
      ops.append((DownloadOp(downloads, env, label, payload), size, kind))
      ops.append((DecompressOp(downloads, env, label, payload, lzma.compress(payload, preset=0)), size, kind))
  spaces = {}
  for op, size, kind in list(ops):
    ctx.cur_case = f'record/{op.name}:{op.label}'
    sp = record_space(ctx, env, op, scratch)
    if sp is None:     # the fault-free call itself is broken: reported above; nothing to enumerate for it
      ops.remove((op, size, kind))
      continue
    spaces[(op.name, op.label)] = sp
  ctx.cur_case = None
  if not ops:
    return
  ctx.notes['fault_space'] = {
      f'{name}:{label}': {'line_events': len(sp['events']), 'distinct_lines': len({(e.file, e.line) for e in sp['events']}),
                          'block_reads': sp['reads'], 'writes': sp['writes'], 'source_reads': sp['srcreads']}
      for (name, label), sp in sorted(spaces.items())
  }

  # ---- (1) every single fault, clean, preseeded, stale x {clean + selected faults}
  scen = []
  for op, size, kind in ops:
    sp = spaces[(op.name, op.label)]
    faults = single_faults(op, sp)
    scen.append((op, None, [], False))
    scen.append((op, None, [], True))
    for f in faults:
      scen.append((op, None, [f], False))
    n = len(sp['events'])
    picks = [f for f in faults if f['kind'] in ('status', 'get', 'rename')]
    picks += [f for f in faults if f['kind'] == 'read' and f['i'] in (0, sp['reads'] - 1)]
    picks += [f for f in faults if f['kind'] == 'write' and f['j'] in (0, sp['writes'] - 1) and f['mode'] != 'before']
    picks += [f for f in faults if f['kind'] == 'crash' and f['k'] in {n // 4, n // 2, (3 * n) // 4, n - 3, n - 2, n - 1}]
    for st in stale_classes(op.stale_ref):
      scen.append((op, st, [], False))
      for f in picks:
        scen.append((op, st, [f], False))
  for cid, (op, st, faults, pre) in ctx.enum('single', scen):
    run_scenario(ctx, env, op, scratch, st, faults, preseed=pre)

  # ---- (1a) a payload of more than 16 MiB (any size threshold in the transfer code: pre-allocation, chunking, progress): a
  #      selection of faults in the middle of the transfer, each followed by a healthy call and a reuse call
  big = make_payload(ctx.seed + 1, (1 << 24) + 3 * BLOCK + 5, 'rand')
  bop = DownloadOp(downloads, env, f'{len(big)}B-big', big)
  bscen = []
  if True:
    ctx.cur_case = f'record/{bop.name}:{bop.label}'
    bsp = record_space(ctx, env, bop, scratch)
    ctx.cur_case = None
    if bsp is not None:
      nb, ne = bsp['reads'], len(bsp['events'])
      bscen = [[]] + [[{'kind': 'read', 'i': i, 'exc': e}] for i, e in ((0, 'OSError'), (3, 'urllib3.ProtocolError'), (nb // 2, 'OSError'),
                                                                    (nb - 1, 'requests.ConnectionError'))]
      bscen += [[{'kind': 'write', 'j': j, 'mode': m}] for j, m in ((2, 'torn'), (nb // 2, 'kill'), (nb - 1, 'before'))]
      bscen += [[{'kind': 'crash', 'k': k}] for k in (ne // 3, (2 * ne) // 3, ne - 2)]
      bscen += [[{'kind': 'read', 'i': 5, 'exc': 'OSError'}, {'kind': 'read', 'i': nb - 2, 'exc': 'OSError'}]]
      if not quick:
        bscen += [[{'kind': 'read', 'i': i, 'exc': 'OSError'}] for i in range(1, nb, 7)]
  for cid, faults in ctx.enum('bigpayload', bscen):
    ctx.count('big-payload-scenario')
    run_scenario(ctx, env, bop, scratch, None, faults)

  # ---- (1b) a server that sends NO content-length header: whatever the call does (today it raises KeyError and
  #      publishes nothing), a connection error at any block must never publish a truncated file
  hscen = []
  for op, size, kind in ops:
    if op.name != 'download':
      continue
    sp = spaces[(op.name, op.label)]
    hscen.append((op, None))
    for f in single_faults(op, sp):
      if f['kind'] == 'read':
        hscen.append((op, f))
  for cid, (op, f) in ctx.enum('headerless', hscen):
    run_headerless(ctx, env, op, scratch, f)

  # ---- (2) seeded random sequences of 1-3 faults (+ optional stale start)
  nseq = 400 if quick else 20000
  for cid, rng in ctx.cases('seq', nseq):
    op, size, kind = ops[rng.randint(len(ops))]
    sp = spaces[(op.name, op.label)]
    faults = single_faults(op, sp)
    crashes = [f for f in faults if f['kind'] == 'crash']
    others = [f for f in faults if f['kind'] != 'crash']
    ln = 1 + int(rng.randint(3)) if rng.rand() < 0.85 else 3
    seq = []
    for _ in range(ln):
      pool = crashes if (rng.rand() < 0.5 or not others) else others
      seq.append(pool[rng.randint(len(pool))])
    st = None
    if rng.rand() < 0.3:
      cl = stale_classes(op.stale_ref)
      st = cl[rng.randint(len(cl))]
    run_scenario(ctx, env, op, scratch, st, seq)

  # ---- (3) real kills in sub-processes
  kills = []
  for op, size, kind in ops:
    if size in (1, BLOCK + 1, 3 * BLOCK + 7) and (kind == 'rand' or not quick):
      sp = spaces[(op.name, op.label)]
      n = len(sp['events'])
      ks = sorted({n // 3, n // 2, n - 4, n - 3, n - 2}) if not quick else sorted({n // 2, n - 3})
      if not quick and size == 3 * BLOCK + 7:
        ks = sorted(set(ks) | set(range(0, n, 4)))
      for k in ks:
        if 0 <= k < n:
          kills.append((op, size, kind, k))
  for cid, (op, size, kind, k) in ctx.enum('realkill', kills):
    real_kill_case(ctx, env, op, spaces[(op.name, op.label)], scratch, k, size, kind)

  # ---- (4) composed path cifar100.load_split
  ctx.cur_case = 'record/load_split'
  try:
    lop = LoadSplitOp(downloads, cifar100, sqlite_fd, env, ctx.seed, scratch)
  except (core.HarnessError, core.Inconclusive):
    raise
  except Exception as e:  # pylint: disable=broad-except
    frames = core.fedjax_frames(e)
    if not frames:
      raise
    ctx.violation('call/load_split-raises-on-consistent-cache',
                  f'an uninterrupted load_split on an empty cache raised {type(e).__name__}: {str(e)[:160]}',
                  {'operation': 'load_split', 'stage': 'reference build', 'frames': [f'{f}:{l}:{n}' for f, l, n in frames[-5:]]})
    return
  lsp = record_space(ctx, env, lop, scratch)
  if lsp is None:
    return
  ctx.notes['fault_space_load_split'] = {
      'line_events': len(lsp['events']), 'distinct_lines': len({(e.file, e.line) for e in lsp['events']}),
      'block_reads': lsp['reads'], 'writes': lsp['writes'], 'source_reads': lsp['srcreads'],
      'compressed_bytes': len(lop.compressed), 'tff_db_bytes': len(lop.db)}
  lf = single_faults(lop, lsp, crash_stride=3 if quick else 1)
  if quick:
    src = [f for f in lf if f['kind'] == 'srcread']
    keep_src = {f['i'] for f in src[::max(1, len(src) // 6)]} | ({src[-1]['i']} if src else set())
    lf = [f for f in lf if f['kind'] != 'srcread' or f['i'] in keep_src]
  lscen = [(None, [], False), (None, [], True)] + [(None, [f], False) for f in lf]
  stale_l = stale_classes(lop.stale_ref)
  for st in (stale_l if not quick else stale_l[::3]):
    lscen.append((st, [], False))
    lscen.append((st, [{'kind': 'read', 'i': 0}], False))
  for cid, (st, faults, pre) in ctx.enum('load_split', lscen):
    run_scenario(ctx, env, lop, scratch, st, faults, preseed=pre, other_split=True)
  n = len(lop.compressed)
  invalid = [('empty', b''), ('1-byte', lop.compressed[:1]), ('half', lop.compressed[:n // 2]),
             ('len-1', lop.compressed[:-1]), ('same-size-garbage', lop.compressed[:-9] + bytes(9)),
             ('longer', lop.compressed + b'\x00')]
  for cid, cls in ctx.enum('invalid_download', invalid):
    run_invalid_download(ctx, env, lop, scratch, cls)
  nl = 25 if quick else 1500
  crashes = [f for f in single_faults(lop, lsp) if f['kind'] == 'crash']
  others = [f for f in single_faults(lop, lsp) if f['kind'] != 'crash']
  for cid, rng in ctx.cases('load_split_seq', nl):
    seq = []
    for _ in range(2 + int(rng.randint(2))):
      pool = crashes if rng.rand() < 0.6 else others
      seq.append(pool[rng.randint(len(pool))])
    run_scenario(ctx, env, lop, scratch, None, seq, other_split=bool(rng.rand() < 0.5))



if __name__ == '__main__':
  if len(sys.argv) >= 3 and sys.argv[1] == '--kill-child':
    kill_child(sys.argv[2])

TECHNIQUE += '; configuration shard python -O; connection-loss exception classes with a dead stream afterwards; stderr loss; 16 MiB payloads'
