"""C20 — Packaged dataset preprocessors and models agree with each other.

Families (every one judged by an oracle that shares no code with fedjax):
  shk        Shakespeare preprocess_client vs a byte-level label-stream reference (BOS, table[bytes], EOS per snippet)
  cifar-eval preprocess_image_tff(distort=False) vs tf.image.per_image_standardization(resize_with_crop_or_pad(...))
  crop       training crops (TFF style and pad-4 style) must be (possibly flipped) sub-windows of the requested shape
  emnist     domain_id over every well-formed client id (both id shapes, str and bytes, numeric part 0..9999)
  xcheck     eval metrics / train loss of the packaged models, fed with the packaged dataset's output and hand-made
             logits, vs float64 reference metrics computed with the DATASET's PAD/BOS/EOS/OOV/VOCAB_SIZE
  tasks      the same cross-check on the (train, test, model) triples returned by training.tasks.get_task, with the
             data files served by a fake requests.get (E2: no network; Stack Overflow default vocabulary replaced)
  rowindep   batch evaluation vs single-row evaluation, and invariance of a row to changes of the other rows
"""
import os
import shutil
import tempfile

import numpy as np

from vmon import core
from vmon.core import close

PROPERTY = 'C20'
LEVEL = 'exploration'
RULE = ('Seeded generators per family. shk: snippet lists (0-6 snippets, empty snippets, all 256 byte values, total stream '
        'lengths forced to k*L-1, k*L, k*L+1) x L in 2..9 and 80. cifar-eval: every square crop 1..32 plus random '
        'rectangles x image classes {random, natural-like, low-contrast(std<1), one-pixel-off, constant}. crop: random crop '
        'shapes 1..32 on unique-pixel images, all <=2*33^2 candidate windows enumerated. emnist: exhaustive over numeric '
        'part 0..9999 x 2 id shapes x {str, bytes}. xcheck/tasks: dataset output x hand-made logits (design pattern: wrong '
        'exactly on EOS / OOV / highest character label; random pattern: top-1 drawn from {target, PAD, BOS, EOS, OOV, '
        'highest label}). rowindep: 7 packaged models. Non-trivial: shk case with >=1 non-empty snippet; image case '
        'whose crop has >=2 distinct values; xcheck case whose targets contain EOS and (OOV or highest label) and PAD; '
        'emnist id at distance <=1 of a range boundary or first of its hundred; distinct by the generated parameters.')
ASSUMPTIONS = [
    'the Shakespeare vocabulary string is the one of the TFF text-generation tutorial (harness holds its own copy)',
    'tf.image.per_image_standardization and tf.image.resize_with_crop_or_pad (TensorFlow 2.21) are the stated reference',
    'image comparison tolerance 1e-4 + 4*eps32*max|pixel|/adjusted_std (float32 conditioning of the mean subtraction)',
    'EMNIST documented ranges: writers f2100..f2599 are HIGH_SCHOOL (0), all others CENSUS (1) (NIST SD19 hsf_4)',
    'Stack Overflow default vocabulary (gs://, unreachable) is replaced by a harness vocabulary of the same size (E2)',
    'tasks: data files are synthetic SQLite files built with fedjax.SQLiteFederatedDataBuilder and served by a fake '
    'requests.get; cifar100 size/hash validation is disabled in the harness process for this check only',
    'row independence is judged with tolerance 1e-4*(1+|p|) across batch sizes (XLA may pick different kernels)',
]
SHARDS = {'quick': 4, 'thorough': 8}
SHARD_TIMEOUT = {'quick': 900, 'thorough': 2400}
EXHAUSTIVE = {'quick': False, 'thorough': False}
MIN_HITS = {
    'quick': {'mon:shk': 3000, 'mon:cifar-eval': 300, 'mon:crop': 300, 'mon:emnist': 40000, 'mon:xcheck': 400,
              'mon:tasks': 150, 'mon:loss': 100, 'mon:rowindep': 40, 'img:low-contrast': 60, 'img:constant': 60,
              'img:one-pixel-off': 60, 'xcheck:targets-with-eos': 50, 'xcheck:targets-with-oov': 50,
              'xcheck:targets-with-highest-label': 30, 'task:SHAKESPEARE_CHARACTER': 4, 'task:STACKOVERFLOW_WORD': 4,
              'task:CIFAR100_LOGISTIC': 4, 'task:EMNIST_CONV': 4, 'task:EMNIST_DENSE': 4, 'task:EMNIST_LOGISTIC': 4,
              'model:emnist-conv': 1, 'model:emnist-dense': 1, 'model:emnist-logistic': 1, 'model:emnist-stax': 1,
              'model:cifar100-logistic': 1, 'model:shakespeare-lstm': 1, 'model:stackoverflow-lstm': 1, 'stackoverflow-large-vocab': 8},
    'thorough': {'mon:shk': 30000, 'mon:cifar-eval': 5000, 'mon:crop': 3000, 'mon:emnist': 40000, 'mon:xcheck': 4000,
                 'mon:tasks': 800, 'mon:loss': 1000, 'mon:rowindep': 120, 'img:low-contrast': 1000,
                 'img:constant': 1000, 'img:one-pixel-off': 1000, 'xcheck:targets-with-eos': 500,
                 'xcheck:targets-with-oov': 500, 'xcheck:targets-with-highest-label': 300,
                 'task:SHAKESPEARE_CHARACTER': 4, 'task:STACKOVERFLOW_WORD': 4, 'task:CIFAR100_LOGISTIC': 4,
                 'task:EMNIST_CONV': 4, 'task:EMNIST_DENSE': 4, 'task:EMNIST_LOGISTIC': 4,
                 'model:emnist-conv': 2, 'model:emnist-dense': 2, 'model:emnist-logistic': 2, 'model:emnist-stax': 2,
                 'model:cifar100-logistic': 2, 'model:shakespeare-lstm': 2, 'model:stackoverflow-lstm': 2},
}
TECHNIQUE = ('runtime monitoring: reference label stream, TensorFlow reference standardisation, window-enumeration crop '
             'oracle, exhaustive id enumeration, dataset->model metric cross-check with hand-made logits, batch-vs-single-row '
             'differential')
LEVEL_TEXT = ('The packaged preprocessors and models are executed on generated inputs covering the boundary classes named '
              'in the property and each output is compared with an independent reference; the EMNIST id space is '
              'enumerated completely, everything else is sampled. Held-on-observed.')
LEVEL_NOTE = ('Trusts TensorFlow for the image reference, NumPy float64 for the metric references, and '
              'SQLiteFederatedDataBuilder/SQLiteFederatedData (subject of C08) for serving synthetic files to get_task.')

# The vocabulary of the TFF text-generation tutorial (harness copy).
SHK_VOCAB = b'dhlptx@DHLPTX $(,048cgkoswCGKOSW[_#\'/37;?bfjnrvzBFJNRVZ"&*.26:\naeimquyAEIMQUY]!%)-159\r'
SHK_RESERVED = 3


def shk_ref_label(byte):
  i = SHK_VOCAB.rfind(bytes([byte]))
  return SHK_RESERVED + (i if i >= 0 else len(SHK_VOCAB))


# =============================================================== Shakespeare
def gen_snippets(rng, L, force_total=None):
  """Snippet list; optionally forces the x/y stream length (= sum(len+2) - 1) to `force_total`."""
  n = int(rng.randint(0, 7))
  if force_total is not None:
    n = max(1, min(n, (force_total + 1) // 2))
  out = []
  for _ in range(n):
    kind = rng.randint(6)
    if kind == 0:
      ln = 0
    elif kind == 1:
      ln = int(rng.randint(1, 4))
    else:
      ln = int(rng.randint(1, 3 * L + 2))
    mode = rng.randint(4)
    if mode == 0:
      b = rng.randint(0, 256, size=ln)                                  # any byte, mostly OOV
    elif mode == 1:
      b = np.frombuffer(SHK_VOCAB, np.uint8)[rng.randint(0, len(SHK_VOCAB), size=ln)]
    elif mode == 2:
      b = np.array(list(b'\r9 \n\x00\xffAz'), np.uint8)[rng.randint(0, 8, size=ln)]   # extremes of the table
    else:
      b = rng.randint(32, 127, size=ln)
    out.append(bytes(np.asarray(b, np.uint8)))
  if force_total is not None:
    # stream length = sum(len_i + 2) - 1  => adjust the last snippet
    cur = sum(len(s) + 2 for s in out) - 1
    last = len(out[-1]) + (force_total - cur)
    if last < 0:
      out = [bytes(rng.randint(0, 256, size=max(force_total - 1, 0)).astype(np.uint8))]
    else:
      out[-1] = (out[-1] + bytes(rng.randint(0, 256, size=max(last, 0)).astype(np.uint8)))[:last]
  return out


def obj_array(items):
  a = np.empty((len(items),), dtype=object)
  for i, v in enumerate(items):
    a[i] = v
  return a


def check_shk(ctx, ds, snippets, L, klass):
  wit = {'snippets': [s.hex() for s in snippets[:8]], 'num_snippets': len(snippets), 'sequence_length': L}
  r = ctx.call('shakespeare.preprocess_client', ds.preprocess_client, b'client', {'snippets': obj_array(snippets)}, L,
               witness=wit)
  nontrivial = any(len(s) for s in snippets)
  if not r.ok:
    ctx.case_done((tuple(snippets), L) if nontrivial else None, sample=wit, klass=klass)
    return None
  out = r.value
  x, y = np.asarray(out['x']), np.asarray(out['y'])
  joined = []
  for s in snippets:
    joined += [ds.BOS] + [shk_ref_label(b) for b in s] + [ds.EOS]
  n = max(len(joined) - 1, 0)
  rows = -(-n // L)
  ok = (set(out) == {'x', 'y'} and x.dtype == np.int32 and y.dtype == np.int32 and x.ndim == 2 and x.shape == y.shape and
        x.shape[1] == L)
  ctx.check(ok, 'shk/shape-dtype', f'x {x.dtype}{x.shape} y {y.dtype}{y.shape}, expected int32 [M,{L}]', wit)
  if ok:
    ctx.check(x.shape[0] == rows, 'shk/padded-length', f'{x.shape[0]} rows for a stream of {n} labels, expected {rows} '
              '(padding must be the minimum reaching a multiple of the sequence length)', wit)
    xf, yf = x.ravel().tolist(), y.ravel().tolist()
    ctx.check(len(xf) >= n and xf[:n] == joined[:-1], 'shk/input-stream', 'un-padded input labels differ from BOS,table[bytes],EOS per snippet',
              {**wit, 'got_head': xf[:24], 'expected_head': joined[:-1][:24]})
    ctx.check(len(yf) >= n and yf[:n] == joined[1:] and all(v == ds.PAD for v in yf[n:]), 'shk/target-stream', 'un-padded target labels differ from the reference stream shifted by one',
              {**wit, 'got_head': yf[:24], 'expected_head': joined[1:][:24]})
    ctx.check(all(v == ds.PAD for v in xf[n:]), 'shk/padding-value', 'padding positions of x are not PAD', wit)
    ctx.check(yf[:max(n - 1, 0)] == xf[1:n], 'shk/shift-by-one', 'y is not x shifted by one position', wit)
    allv = xf + yf
    ctx.check(all(0 <= v < ds.VOCAB_SIZE for v in allv), 'shk/label-range',
              f'label outside [0, VOCAB_SIZE={ds.VOCAB_SIZE})', {**wit, 'min': min(allv, default=0), 'max': max(allv, default=0)})
  ctx.check(ds.PAD not in joined, 'shk/pad-id-collides', 'PAD id is produced for a real token', wit)
  ctx.case_done((tuple(snippets), L) if nontrivial else None, sample=wit, klass=klass)
  return out


def run_shk(ctx, ds):
  quick = ctx.quick
  # constants the docs promise
  ctx.check(ds.VOCAB_SIZE == len(SHK_VOCAB) + 4 and ds.OOV == ds.VOCAB_SIZE - 1 and
            len({ds.PAD, ds.BOS, ds.EOS, ds.OOV}) == 4 and max(ds.PAD, ds.BOS, ds.EOS) < SHK_RESERVED, 'shk/constants',
            f'PAD/BOS/EOS/OOV/VOCAB_SIZE = {ds.PAD},{ds.BOS},{ds.EOS},{ds.OOV},{ds.VOCAB_SIZE}', None)
  fixed = [([], 3), ([b''], 2), ([b'', b''], 2), ([b'ABCD', b'E'], 3), ([bytes(range(256))], 80), ([bytes(range(256))], 7),
           ([b'a'], 2), ([b'\r'], 2), ([b'\r9', b'', b'\xff'], 4)]
  for cid, (sn, L) in ctx.enum('shk-fixed', fixed):
    check_shk(ctx, ds, sn, L, ['shk', 'fixed'])
  Ls = list(range(2, 10)) + [80]
  boundary = [(L, k, dlt) for L in Ls for k in (1, 2, 3) for dlt in (-1, 0, 1)]
  reps = 2 if quick else 12
  for cid, (L, k, dlt, rep) in ctx.enum('shk-boundary', [(L, k, d, r) for (L, k, d) in boundary for r in range(reps)]):
    rng = ctx.rng('shk-boundary', L, k, dlt, rep)
    total = k * L + dlt
    sn = gen_snippets(rng, L, force_total=total)
    check_shk(ctx, ds, sn, L, ['shk', f'total=kL{dlt:+d}'])
  for cid, rng in ctx.cases('shk', 500 if quick else 20000):
    L = Ls[rng.randint(len(Ls))]
    sn = gen_snippets(rng, L)
    kl = ['shk', 'random']
    if any(len(s) == 0 for s in sn):
      kl.append('has-empty-snippet')
    if not sn:
      kl.append('no-snippets')
    check_shk(ctx, ds, sn, L, kl)


# ===================================================================== CIFAR
IMG_KINDS = ('random', 'natural-like', 'low-contrast', 'one-pixel-off', 'constant')


def make_image(rng, kind):
  if kind == 'random':
    return rng.randint(0, 256, size=(32, 32, 3)).astype(np.uint8)
  if kind == 'natural-like':
    gx, gy = np.meshgrid(np.linspace(0, 1, 32), np.linspace(0, 1, 32))
    base = rng.randint(40, 180) + rng.randint(10, 60) * gx[..., None] + rng.randint(10, 60) * gy[..., None]
    return np.clip(base + rng.randn(32, 32, 3) * rng.randint(2, 12), 0, 255).astype(np.uint8)
  if kind == 'low-contrast':
    return (rng.randint(0, 254) + rng.randint(0, 3, size=(32, 32, 3))).astype(np.uint8)     # std < 1
  if kind == 'one-pixel-off':
    a = np.full((32, 32, 3), rng.randint(1, 255), np.uint8)
    a[rng.randint(12, 20), rng.randint(12, 20), rng.randint(3)] += 1                             # std ~ 1/sqrt(N) or 0 in crop
    return a
  return np.full((32, 32, 3), rng.randint(0, 256), np.uint8)


def center_crop(img, ch, cw):
  ho, wo = (32 - ch) // 2, (32 - cw) // 2
  return img[..., ho:ho + ch, wo:wo + cw, :]


def np_standardize(crop):
  c = crop.astype(np.float64)
  n = c.size
  return (c - c.mean()) / max(c.std(), 1.0 / np.sqrt(n))


def image_tol(crop):
  c = crop.astype(np.float64)
  adj = max(c.std(), 1.0 / np.sqrt(c.size))
  return 1e-4 + 4 * np.finfo(np.float32).eps * max(float(c.max()), 1.0) / adj


def run_cifar_eval(ctx, dc, tf):
  quick = ctx.quick

  def tf_ref(batch, ch, cw):
    return tf.image.per_image_standardization(tf.image.resize_with_crop_or_pad(tf.constant(batch), ch, cw)).numpy()

  # oracle self-check: TensorFlow agrees with the textbook formula on the harness's centre crop
  r0 = np.random.RandomState(7)
  probe = np.stack([make_image(r0, k) for k in IMG_KINDS])
  for ch, cw in ((24, 24), (1, 1), (32, 5), (7, 32)):
    t = tf_ref(probe, ch, cw)
    for i in range(len(probe)):
      crop = center_crop(probe[i], ch, cw)
      if np.abs(t[i] - np_standardize(crop)).max() > image_tol(crop):
        raise core.Inconclusive(f'oracle self-check: tf.image.per_image_standardization != formula at crop {ch}x{cw}')

  shapes = [(s, s) for s in range(1, 33)]
  cases = [(ch, cw, rep) for (ch, cw) in shapes for rep in range(1 if quick else 6)]
  def one(rng, ch, cw, via_batch):
    kinds = list(IMG_KINDS)
    batch = np.stack([make_image(rng, k) for k in kinds])
    batch.flags.writeable = False
    wit0 = {'crop_height': ch, 'crop_width': cw, 'via': 'preprocess_batch_tff' if via_batch else 'preprocess_image_tff'}
    if via_batch:
      labels = np.arange(len(kinds), dtype=np.int32)
      r = ctx.call('cifar100.preprocess_batch_tff',
                   lambda: dc.preprocess_batch_tff({'x': batch, 'y': labels}, crop_height=ch, crop_width=cw), witness=wit0)
      got = None if not r.ok else r.value['x']
      if r.ok:
        ctx.check(set(r.value) == {'x', 'y'} and np.array_equal(r.value['y'], labels), 'cifar-eval/labels-changed',
                  'preprocess_batch_tff altered the labels', wit0)
    else:
      r = ctx.call('cifar100.preprocess_image_tff', dc.preprocess_image_tff, batch, ch, cw, False, witness=wit0)
      got = None if not r.ok else r.value
    if got is None:
      ctx.case_done(None, sample=wit0, klass=['cifar-eval'])
      return
    got = np.asarray(got)
    ref = tf_ref(batch, ch, cw)
    ok_shape = got.shape == ref.shape and got.dtype == np.float32
    ctx.check(ok_shape, 'cifar-eval/shape-dtype', f'{got.dtype}{got.shape}, expected float32{ref.shape}', wit0)
    nontrivial = False
    if ok_shape:
      for i, kind in enumerate(kinds):
        crop = center_crop(batch[i], ch, cw)
        c64 = crop.astype(np.float64)
        ctx.count('img:' + kind)
        if len(np.unique(crop)) >= 2:
          nontrivial = True
        tol = image_tol(crop)
        err = float(np.abs(got[i].astype(np.float64) - ref[i]).max())
        if err <= tol and np.all(np.isfinite(got[i])):
          ctx.check(True, 'cifar-eval/ok', '', None)
          continue
        std, n = float(c64.std()), c64.size
        wit = {**wit0, 'image_class': kind, 'crop_std': std, 'num_values': n, 'max_abs_diff': err, 'tolerance': tol,
               'image_min': int(crop.min()), 'image_max': int(crop.max()),
               'got_head': got[i].ravel()[:6], 'tf_head': ref[i].ravel()[:6]}
        alt = (c64 - c64.mean()) / max(std, np.sqrt(n))
        if std < np.sqrt(n) and np.abs(got[i] - alt).max() <= tol:
          ctx.check(False, 'cifar-eval/std-floor-sqrtN-instead-of-rsqrtN',
                    'output equals (x-mean)/max(std, sqrt(N)) whereas tf.image.per_image_standardization divides by '
                    f'max(std, 1/sqrt(N)); max abs diff {err:.4g} on a {kind} image (crop std {std:.4g}, sqrt(N)={np.sqrt(n):.4g})',
                    wit)
        else:
          ctx.check(False, 'cifar-eval/differs-from-tf-reference',
                    f'max abs diff {err:.4g} vs tf.image.per_image_standardization(centre crop) on a {kind} image', wit)
    ctx.case_done((ch, cw, via_batch, tuple(int(b[0, 0, 0]) for b in batch)) if nontrivial else None, sample=wit0,
                  klass=['cifar-eval', 'square-crop' if ch == cw else 'rect-crop'])

  for cid, (ch, cw, rep) in ctx.enum('cifar-eval-square', cases):
    one(ctx.rng('cifar-eval-square', ch, cw, rep), ch, cw, via_batch=False)
  for cid, rng in ctx.cases('cifar-eval', 60 if quick else 3000):
    if rng.rand() < 0.25:
      one(rng, 24, 24, via_batch=True)     # the defaults used by tasks.get_task
    else:
      one(rng, int(rng.randint(1, 33)), int(rng.randint(1, 33)), via_batch=bool(rng.rand() < 0.3))


def find_window(out, img, ch, cw, tol=2e-3):
  """Is `out` [ch,cw,3] a positive affine image of some (possibly flipped) ch x cw window of `img` [H,W,3]?"""
  from numpy.lib.stride_tricks import sliding_window_view
  win = sliding_window_view(img.astype(np.float64), (ch, cw, 3))[:, :, 0]      # [H-ch+1, W-cw+1, ch, cw, 3]
  wc = win - win.mean(axis=(2, 3, 4), keepdims=True)
  den = (wc * wc).sum(axis=(2, 3, 4))
  for flip in (False, True):
    o = out[:, ::-1, :] if flip else out
    o = o.astype(np.float64)
    oc = o - o.mean()
    num = (wc * oc).sum(axis=(2, 3, 4))
    a = np.where(den > 0, num / np.where(den > 0, den, 1), 0.0)
    res = np.abs(oc[None, None] - a[..., None, None, None] * wc).max(axis=(2, 3, 4))
    scale = max(1e-9, float(np.abs(oc).max()))
    okm = (res <= tol * scale) & ((a > 0) | (den == 0))
    if okm.any():
      i, j = np.argwhere(okm)[0]
      return int(i), int(j), flip
  return None


def run_crop(ctx, dc):
  quick = ctx.quick
  for cid, rng in ctx.cases('crop', 150 if quick else 3000):
    ch, cw = int(rng.randint(1, 33)), int(rng.randint(1, 33))
    if rng.rand() < 0.15:
      ch = cw = 24
    if rng.rand() < 0.1:
      ch, cw = (32, 32) if rng.rand() < 0.5 else (1, int(rng.randint(1, 33)))
    batch = rng.randint(0, 256, size=(2, 32, 32, 3)).astype(np.uint8)
    batch.flags.writeable = False
    seed = int(rng.randint(0, 2**31 - 1))
    wit = {'crop_height': ch, 'crop_width': cw, 'np_random_seed': seed, 'style': 'tff'}
    np.random.seed(seed)
    r = ctx.call('cifar100.preprocess_image_tff', dc.preprocess_image_tff, batch, ch, cw, True, witness=wit)
    if r.ok:
      got = np.asarray(r.value)
      okshape = got.shape == (2, ch, cw, 3) and got.dtype == np.float32
      ctx.check(okshape, 'crop/shape-dtype', f'{got.dtype}{got.shape}, expected float32 (2,{ch},{cw},3)', wit)
      if okshape:
        for i in range(2):
          w = find_window(got[i], batch[i], ch, cw)
          ctx.check(w is not None, 'crop/not-a-sub-window',
                    'training output is not the (positively scaled, centred) image of any window of the requested shape, '
                    'flipped or not', {**wit, 'image': i})
          if w is not None:
            ctx.klass('crop:flipped' if w[2] else 'crop:unflipped')
    ctx.case_done((ch, cw, seed), sample=wit, klass=['crop', 'tff-style'])
  # pad-4 / random 32x32 crop / flip style
  mean = np.array([0.4914, 0.4822, 0.4465])
  inv = 1 / np.array([0.2023, 0.1994, 0.2010])
  for cid, rng in ctx.cases('crop-pad4', 60 if quick else 600):
    batch = rng.randint(0, 256, size=(2, 32, 32, 3)).astype(np.uint8)
    batch.flags.writeable = False
    seed = int(rng.randint(0, 2**31 - 1))
    wit = {'np_random_seed': seed, 'style': 'pad4'}
    np.random.seed(seed)
    r = ctx.call('cifar100.preprocess_image', dc.preprocess_image, batch, True, witness=wit)
    if r.ok:
      got = np.asarray(r.value)
      okshape = got.shape == (2, 32, 32, 3) and got.dtype == np.float32
      ctx.check(okshape, 'crop/shape-dtype', f'{got.dtype}{got.shape}, expected float32 (2,32,32,3)', wit)
      if okshape:
        for i in range(2):
          rec = (got[i].astype(np.float64) / inv + mean) * 255
          padded = np.pad(batch[i], [(4, 4), (4, 4), (0, 0)])
          found = False
          if np.abs(rec - np.rint(rec)).max() < 1e-2:
            recu = np.rint(rec)
            for flip in (False, True):
              o = recu[:, ::-1, :] if flip else recu
              for a in range(9):
                for b in range(9):
                  if np.array_equal(o, padded[a:a + 32, b:b + 32, :]):
                    found = True
          ctx.check(found, 'crop/not-a-sub-window', 'pad-4 training output is not a normalised 32x32 window of the zero-padded '
                    'image, flipped or not', {**wit, 'image': i})
    ctx.case_done((seed, 'pad4'), sample=wit, klass=['crop', 'pad4-style'])


# ==================================================================== EMNIST
def run_emnist(ctx, de):
  def ref(n):
    return 0 if 2100 <= n <= 2599 else 1

  items = [(n, form) for n in range(10000) for form in ('short-str', 'short-bytes', 'long-str', 'long-bytes')]
  for cid, (n, form) in ctx.enum('emnist', items):
    rng = ctx.rng('emnist', n)
    tail = f'f{n:04d}_{int(rng.randint(0, 100)):02d}'
    cidv = tail if form.startswith('short') else ''.join('0123456789abcdef'[k] for k in rng.randint(0, 16, size=16)) + ':' + tail
    if form.endswith('bytes'):
      cidv = cidv.encode()
    wit = {'client_id': repr(cidv), 'numeric_part': n}
    r = ctx.call('emnist.domain_id', de.domain_id, cidv, witness=wit)
    if r.ok:
      d = r.value
      ctx.check(isinstance(d, (int, np.integer)) and int(d) == ref(n), 'emnist/domain-id',
                f'domain_id={d!r}, documented id ranges give {ref(n)}', wit)
      if n % 41 == 0:
        lab = np.arange(3, dtype=np.int32)
        ex = {'pixels': np.zeros((3, 28, 28), np.float32), 'label': lab}
        r2 = ctx.call('emnist.preprocess_client', de.preprocess_client, cidv, ex, witness=wit)
        if r2.ok:
          col = np.asarray(r2.value.get('domain_id'))
          ctx.check(col.shape == (3,) and col.dtype == np.int32 and np.all(col == ref(n)) and
                    np.array_equal(r2.value['label'], lab), 'emnist/domain-column',
                    f'preprocess_client domain_id column {col.dtype}{col.shape} values {col.tolist()[:3]}', wit)
    boundary = min(abs(n - b) for b in (2099, 2100, 2599, 2600, 0, 9999)) <= 1 or n % 100 == 0
    ctx.case_done((n, form) if boundary else None, sample=wit if boundary else None,
                  klass=['emnist', form, 'high-school' if ref(n) == 0 else 'census'])


# ============================================================ metric references
def log_softmax(z):
  z = z - z.max(-1, keepdims=True)
  return z - np.log(np.exp(z).sum(-1, keepdims=True))


def ref_lm_metrics(y, logits, c, truncation):
  y = np.asarray(y, np.int64)
  z = np.asarray(logits, np.float64)
  nonpad = y != c['pad']
  noeos = nonpad & (y != c['eos'])
  ce = -np.take_along_axis(log_softmax(z), y[..., None], -1)[..., 0]
  mask = np.zeros(c['V'])
  for k in ('pad', 'bos', 'eos', 'oov'):
    mask[c[k]] = -np.inf
  pred, pred_iv = z.argmax(-1), (z + mask).argmax(-1)
  nonempty = nonpad.any(1)
  out = {}
  div = lambda a, b: None if b == 0 else a / b
  out['accuracy_in_vocab'] = div(((pred_iv == y) & noeos).sum(), noeos.sum())
  out['accuracy_no_eos'] = div(((pred == y) & noeos).sum(), noeos.sum())
  out['num_tokens'] = float(nonpad.sum())
  out['sequence_length'] = div(nonpad.sum(), nonempty.sum())
  out['sequence_loss'] = div((ce * nonpad).sum(), nonempty.sum())
  out['token_loss'] = div((ce * nonpad).sum(), nonpad.sum())
  out['token_oov_rate'] = div(((y == c['oov']) & nonpad).sum(), nonpad.sum())
  if truncation:
    out['truncation_rate'] = div(((~(y == c['eos']).any(1)) & nonempty).sum(), nonempty.sum())
  return out


def ref_cls_metrics(y, logits):
  z = np.asarray(logits, np.float64)
  y = np.asarray(y, np.int64)
  ce = -np.take_along_axis(log_softmax(z), y[:, None], -1)[:, 0]
  return {'loss': float(ce.mean()), 'accuracy': float((z.argmax(-1) == y).mean())}


def make_lm_logits(rng, y, c, design):
  """Hand-made logits [M,L,V]; unique maxima everywhere (no argmax ties, also after masking)."""
  m, l = y.shape
  v = c['V']
  hi = c['oov'] - 1                     # highest character / word label
  z = rng.uniform(-2.0, -1.0, size=(m, l, v)) + np.linspace(0, 0.5, v)
  for a in range(m):
    for b in range(l):
      t = int(y[a, b])
      z[a, b, t] = 4.0
      if design:
        if t in (c['eos'], c['oov'], hi):          # disagree with the target exactly here
          other = 3 if t != 3 else 4
          z[a, b, other] = 6.0
      else:
        top = [None, c['pad'], c['bos'], c['eos'], c['oov'], hi, int(rng.randint(3, c['oov']))][rng.randint(7)]
        if top is not None and top != t:
          z[a, b, top] = 6.0
          if rng.rand() < 0.3:                     # third place: an in-vocab wrong label above the target
            w = int(rng.randint(3, c['oov']))
            if w not in (t, top):
              z[a, b, w] = 5.0
  return z.astype(np.float32)


def eval_packaged_metrics(ctx, fedjax, model, batch, preds, entry, wit):
  got = {}
  for name, metric in model.eval_metrics.items():
    r = ctx.call(f'{entry}.eval_metrics[{name}]', lambda: fedjax.metrics.evaluate_batch(metric, batch, preds).result(),
                 witness=wit)
    if r.ok:
      got[name] = float(np.asarray(r.value))
  return got


def compare_metrics(ctx, fam, kind, got, ref, wit, alt_ref=None, alt_key=None):
  """fam: counter family ('xcheck' / 'tasks'). Mismatches explained completely by alt_ref get alt_key."""
  bad = []
  for name, exp in ref.items():
    if name not in got:
      ctx.count('metric-not-in-model:' + name)
      continue
    if exp is None:
      ctx.count('skipped-degenerate-denominator')
      continue
    ok = close(got[name], exp, rtol=3e-4, atol=2e-5)
    if ok:
      ctx.check(True, f'{fam}/ok', '', None)
    else:
      bad.append(name)
  for name in got:
    if name not in ref:
      ctx.count('metric-without-reference:' + name)
  if not bad:
    return
  if alt_ref is not None and all(
      (alt_ref.get(n) is None and ref.get(n) is None) or
      (alt_ref.get(n) is not None and close(got[n], alt_ref[n], rtol=3e-4, atol=2e-5)) for n in got if n in ref):
    ctx.count('mon:' + fam)
    ctx.violation(alt_key,
              f'{kind}: packaged model metrics {bad} differ from the reference computed with the dataset constants and equal '
              'the reference computed with the ids the model file assumes',
              {**wit, 'metrics': {n: {'model': got[n], 'reference': ref[n], 'with_model_ids': alt_ref.get(n)} for n in bad}})
    return
  for n in bad:
    ctx.check(False, f'{fam}/{kind}-{n}', f'{kind}: packaged metric {n} = {got[n]!r}, reference with the dataset constants = '
              f'{ref[n]!r}', {**wit, 'metric': n, 'model': got[n], 'reference': ref[n]})


def count_target_classes(ctx, y, c):
  y = np.asarray(y)
  has = {'eos': bool((y == c['eos']).any()), 'oov': bool((y == c['oov']).any()), 'pad': bool((y == c['pad']).any()),
         'highest-label': bool((y == c['oov'] - 1).any()), 'bos': bool((y == c['bos']).any())}
  for k, v in has.items():
    if v:
      ctx.count('xcheck:targets-with-' + k)
  return has


def lm_xcheck(ctx, fedjax, fam, kind, model, batch, c, rng, truncation, wit, alt=None, alt_key=None, entry=None):
  y = np.asarray(batch['y'])
  has = count_target_classes(ctx, y, c)
  lo = min(int(y.min(initial=0)), int(np.min(batch['x'], initial=0)))
  hi = max(int(y.max(initial=0)), int(np.max(batch['x'], initial=0)))
  if not ctx.check(0 <= lo and hi < c['V'], f'{fam}/{kind}-label-outside-vocabulary',
                   f'{kind}: dataset output contains labels in [{lo}, {hi}], vocabulary size is {c["V"]}',
                   {**wit, 'constants': c}):
    return has
  design = bool(rng.rand() < 0.5)
  z = make_lm_logits(rng, y, c, design)
  wit = {**wit, 'pattern': 'design' if design else 'random', 'y': y, 'constants': c}
  got = eval_packaged_metrics(ctx, fedjax, model, {'x': batch['x'], 'y': batch['y']}, z, entry or f'models.{kind}', wit)
  ref = ref_lm_metrics(y, z, c, truncation)
  alt_ref = ref_lm_metrics(y, z, {**c, **alt}, truncation) if alt else None
  compare_metrics(ctx, fam, kind, got, ref, wit, alt_ref, alt_key)
  # train loss: PAD targets must not count, every other target must
  pad_pos = y == c['pad']
  r0 = ctx.call(f'models.{kind}.train_loss', lambda: np.asarray(model.train_loss(batch, z)), witness=wit)
  if r0.ok and r0.value.shape == (y.shape[0],):
    base = r0.value.astype(np.float64)
    if pad_pos.any():
      z2 = z.copy()
      z2[pad_pos] = rng.uniform(-3, 3, size=z2[pad_pos].shape).astype(np.float32)
      l2 = np.asarray(model.train_loss(batch, z2)).astype(np.float64)
      ctx.check(close(l2, base, rtol=1e-5, atol=1e-6), 'loss/pad-targets-counted',
                f'{kind}: train_loss changes when only the logits at PAD-target positions change', wit)
    for name in ('eos', 'bos', 'oov'):
      pos = y == c[name]
      if pos.any():
        z3 = z.copy()
        z3[pos] = z3[pos][..., ::-1]
        l3 = np.asarray(model.train_loss(batch, z3)).astype(np.float64)
        rows = pos.any(1)
        ctx.check(bool(np.all(np.abs(l3 - base)[rows] > 1e-6)), f'loss/{name}-targets-ignored',
                  f'{kind}: train_loss does not react to the logits at {name.upper()}-target positions '
                  f'(dataset {name.upper()} id = {c[name]})', wit)
  return has


def run_xcheck(ctx, fedjax, tf):
  from fedjax.datasets import cifar100 as dc
  from fedjax.datasets import emnist as de
  from fedjax.datasets import shakespeare as dsh
  from fedjax.datasets import stackoverflow as dso
  from fedjax.models import cifar100 as mc
  from fedjax.models import emnist as me
  from fedjax.models import shakespeare as msh
  from fedjax.models import stackoverflow as mso
  quick = ctx.quick
  # ---- Shakespeare: tokenizer output -> model metrics
  c_sh = {'pad': dsh.PAD, 'bos': dsh.BOS, 'eos': dsh.EOS, 'oov': dsh.OOV, 'V': dsh.VOCAB_SIZE}
  m_sh = msh.create_lstm_model(embed_size=4, lstm_hidden_size=8, lstm_num_layers=1)    # default vocab_size: as packaged
  # ids written in models/shakespeare.py for its default vocab_size (used only to NAME the mechanism of a mismatch)
  alt_sh = {'bos': c_sh['V'] - 3, 'eos': c_sh['V'] - 2}
  shape_checked = set()
  for cid, rng in ctx.cases('xcheck-shakespeare', 40 if quick else 1000):
    L = [4, 7][rng.randint(2)] if (quick or rng.rand() < 0.8) else 80
    sn = [bytes(np.asarray(rng.choice(list(b'\r9ab \xff\x00Z'), size=rng.randint(0, L + 2)), np.uint8)) for _ in range(6)]
    sn.append(b'\r\xff')                                   # highest character label and an OOV byte are always present
    out = dsh.preprocess_client(b'c', {'snippets': obj_array(sn)}, L)
    if out['x'].shape[0] < 3:
      continue
    batch = {'x': out['x'][-3:], 'y': out['y'][-3:]}
    wit = {'task': 'shakespeare', 'sequence_length': L, 'snippets': [s.hex() for s in sn]}
    has = lm_xcheck(ctx, fedjax, 'xcheck', 'shakespeare', m_sh, batch, c_sh, rng, False, wit, alt_sh,
                    'ids/shakespeare-model-bos-eos-differ-from-dataset')
    if L not in shape_checked and L < 80:
      shape_checked.add(L)
      r = ctx.call('models.shakespeare.apply_for_eval',
                   lambda: np.asarray(m_sh.apply_for_eval(m_sh.init(fedjax_key(0)), batch)), witness=wit)
      if r.ok:
        ctx.check(r.value.shape == (3, L, c_sh['V']), 'xcheck/shakespeare-logits-width',
                  f'model output shape {r.value.shape}, dataset VOCAB_SIZE={c_sh["V"]}', wit)
    nt = has['eos'] and (has['oov'] or has['highest-label']) and has['pad']
    ctx.case_done(('sh', L, tuple(sn)) if nt else None, sample={k: v for k, v in wit.items()}, klass=['xcheck', 'shakespeare'])

  # ---- Stack Overflow: tokenizer (harness vocabulary) -> model metrics; once with a 7-word vocabulary, once with vocabularies
  #      around and above 2**15 labels (any size threshold in the model's loss)
  def so_block(vocab, ncases, family):
    tok = dso.StackoverflowTokenizer(vocab=vocab)
    index = {w: k for k, w in enumerate(vocab)}
    V = len(vocab)
    c_so = {'pad': tok.PAD, 'bos': tok.BOS, 'eos': tok.EOS, 'oov': V + 3, 'V': V + 4}
    m_so = mso.create_lstm_model(vocab_size=V, embed_size=4, lstm_hidden_size=8)
    maxlen = 6
    pre = tok.as_preprocess_batch(maxlen)
    so_shape_done = False
    for cid, rng in ctx.cases(family, ncases):
      words = (vocab if len(vocab) < 50 else vocab[:5] + vocab[-3:]) + ['zebra', 'qux']
      sents = []
      for ln in (int(rng.randint(1, 3)), int(rng.randint(3, maxlen)), maxlen - 1, int(rng.randint(maxlen, maxlen + 4))):
        sents.append(' '.join(words[k] for k in rng.randint(0, len(words), size=ln)).encode())
      sents[2] = (sents[2].decode().rsplit(' ', 1)[0] + ' ' + vocab[-1]).encode()     # ends with the highest word label
      perm = rng.permutation(4)
      sents = [sents[k] for k in perm]
      dom = (rng.rand(4) < 0.5).astype(np.int32)
      wit = {'task': 'stackoverflow', 'max_length': maxlen, 'sentences': [s.decode() for s in sents], 'vocab': vocab if len(vocab) < 50 else f'{len(vocab)} words w0..'}
      r = ctx.call('stackoverflow.tokenizer', pre, {'tokens': obj_array(sents), 'domain_id': dom}, witness=wit)
      if not r.ok:
        ctx.case_done(None, sample=wit, klass=['xcheck', 'stackoverflow'] + (['stackoverflow-large-vocab'] if len(vocab) > 1000 else []))
        continue
      out = r.value
      # reference tokenisation with the documented ids
      ex_x, ex_y = [], []
      for s in sents:
        ids = [3 + index[w] if w in index else V + 3 for w in s.decode().split(' ')]
        full = [tok.BOS] + ids + [tok.EOS]
        xs, ys = full[:-1][:maxlen], full[1:][:maxlen]
        ex_x.append(xs + [tok.PAD] * (maxlen - len(xs)))
        ex_y.append(ys + [tok.PAD] * (maxlen - len(ys)))
      ctx.check(np.array_equal(out['x'], np.array(ex_x, np.int32)) and np.array_equal(out['y'], np.array(ex_y, np.int32)) and
                out['x'].dtype == np.int32 and np.array_equal(out.get('domain_id'), dom), 'xcheck/stackoverflow-tokenizer-ids',
                'tokenizer output differs from the documented ids (PAD 0, BOS 1, EOS 2, words 3.., OOV len(vocab)+3)',
                {**wit, 'x': out['x'], 'expected_x': ex_x, 'y': out['y'], 'expected_y': ex_y})
      batch = {'x': out['x'], 'y': out['y']}
      has = lm_xcheck(ctx, fedjax, 'xcheck', 'stackoverflow', m_so, batch, c_so, rng, True, wit)
      if not so_shape_done:
        so_shape_done = True
        rr = ctx.call('models.stackoverflow.apply_for_eval',
                      lambda: np.asarray(m_so.apply_for_eval(m_so.init(fedjax_key(0)), batch)), witness=wit)
        if rr.ok:
          ctx.check(rr.value.shape == (4, maxlen, c_so['V']), 'xcheck/stackoverflow-logits-width',
                    f'model output shape {rr.value.shape}, tokenizer vocabulary size {c_so["V"]}', wit)
      nt = has['eos'] and (has['oov'] or has['highest-label']) and has['pad']
      ctx.case_done(('so', tuple(sents)) if nt else None, sample=wit, klass=['xcheck', 'stackoverflow'] + (['stackoverflow-large-vocab'] if len(vocab) > 1000 else []))

  so_block(['the', 'cat', 'sat', 'on', 'mat', 'a', 'dog'], 40 if quick else 1000, 'xcheck-stackoverflow')
  for nv in (32763, 32764, 32765, 40000):
    so_block([f'w{i}' for i in range(nv - 1)] + ['dog'], 3 if quick else 12, f'xcheck-stackoverflow-{nv}')

  # ---- classification: EMNIST and CIFAR-100 dataset output -> model metrics
  models_cls = [('emnist', me.create_logistic_model(), 62), ('emnist', me.create_conv_model(), 62),
                ('emnist', me.create_dense_model(), 62), ('emnist', me.create_stax_dense_model(), 62),
                ('cifar100', mc.create_logistic_model(), 100)]
  for cid, rng in ctx.cases('xcheck-classification', 40 if quick else 800):
    kind, model, ncls = models_cls[rng.randint(len(models_cls))]
    n = 4
    if kind == 'emnist':
      raw = {'pixels': rng.rand(n, 28, 28).astype(np.float32), 'label': rng.randint(0, ncls, size=n).astype(np.int32),
             'domain_id': np.zeros(n, np.int32)}
      raw['label'][0], raw['label'][1] = 0, ncls - 1
      batch = de.preprocess_batch(raw)
      ctx.check(batch['x'].shape == (n, 28, 28, 1) and batch['x'].dtype == np.float32 and
                close(batch['x'][..., 0], 1 - raw['pixels'], rtol=0, atol=1e-6) and np.array_equal(batch['y'], raw['label']),
                'xcheck/emnist-preprocess-batch', 'emnist.preprocess_batch output is not {x: 1-pixels[...,None], y: label}',
                {'task': 'emnist'})
    else:
      raw = {'x': rng.randint(0, 256, size=(n, 32, 32, 3)).astype(np.uint8), 'y': rng.randint(0, ncls, size=n).astype(np.int32)}
      raw['y'][0], raw['y'][1] = 0, ncls - 1
      batch = dc.preprocess_batch_tff(raw)
    y = np.asarray(batch['y'])
    z = (rng.randn(n, ncls) * 3).astype(np.float32)
    for i in range(n):
      if rng.rand() < 0.5:
        z[i, y[i]] = 20.0
    wit = {'task': kind, 'y': y, 'num_classes': ncls}
    got = eval_packaged_metrics(ctx, fedjax, model, batch, z, f'models.{kind}', wit)
    compare_metrics(ctx, 'xcheck', kind, got, ref_cls_metrics(y, z), wit)
    ctx.case_done((kind, tuple(y.tolist()), float(z[0, 0])), sample={'task': kind, 'y': y}, klass=['xcheck', kind])


def fedjax_key(i):
  import jax
  return jax.random.PRNGKey(i)


# ================================================================ tasks.get_task
def build_fd_file(path, clients):
  from fedjax.core import sqlite_federated_data
  with sqlite_federated_data.SQLiteFederatedDataBuilder(path) as b:
    b.add_many(sorted(clients.items()))


def run_tasks(ctx, fedjax, tf):
  """Cross-check on exactly the (dataset, model) pairs that training/tasks.py packages."""
  from fedjax.datasets import cifar100 as dc
  from fedjax.datasets import downloads
  from fedjax.datasets import emnist as de
  from fedjax.datasets import shakespeare as dsh
  from fedjax.datasets import stackoverflow as dso
  from fedjax.training import tasks
  from vmon.checks import c19
  quick = ctx.quick
  names = list(tasks.ALL_TASKS)
  mine = [(i, n) for i, n in enumerate(names) if ctx.replay_case is not None or i % ctx.nshards == ctx.shard]
  if not mine:
    return
  scratch = tempfile.mkdtemp(prefix='c20-tasks-')
  env = c19.Env()
  real_validate, real_vocab = downloads.validate_file, dso.default_vocab
  try:
    rng = ctx.rng('tasks-data')
    src = os.path.join(scratch, 'src')
    os.makedirs(src)
    files = {}
    # Shakespeare: 2 clients, text long enough for >=2 rows of 80
    alpha = list(b'abcdefghij \r9\xff\x00ZQ!?')
    sh = {}
    for cidb in (b'PLAY_A', b'PLAY_B'):
      sh[cidb] = {'snippets': obj_array([bytes(np.asarray(rng.choice(alpha, size=int(rng.randint(20, 70))), np.uint8))
                                         for _ in range(4)] + [b''])}
    for split in ('train', 'test'):
      files[f'shakespeare_{split}.sqlite'] = sh
    # Stack Overflow
    sent = lambda: ' '.join(f'w{int(k)}' if k < 10000 else f'unk{int(k)}' for k in
                            np.concatenate([rng.randint(0, 10000, size=int(rng.randint(1, 30))), [9999, 10500]])).encode()
    so = {}
    for cidb in (b'00000001', b'00000002'):
      n = 3
      so[cidb] = {'creation_date': obj_array([b'2018-02-28 19:06:18.34 UTC'] * n), 'title': obj_array([b't'] * n),
                  'score': np.arange(n, dtype=np.int64), 'tags': obj_array([b'a|b'] * n),
                  'tokens': obj_array([sent(), b'w9999 unk1', sent()]), 'type': obj_array([b'question', b'answer', b'answer'])}
    for split in ('train', 'held_out', 'test'):
      files[f'stackoverflow_{split}.sqlite'] = so
    # EMNIST
    em = {}
    for cidb in (b'0123456789abcdef:f2100_45', b'fedcba9876543210:f0007_01'):
      n = 4
      em[cidb] = {'pixels': rng.rand(n, 28, 28).astype(np.float32), 'label': np.array([0, 61, 10, 35], np.int32)}
    for split in ('train', 'test'):
      files[f'federated_emnist_{split}.sqlite'] = em
    for fname, clients in files.items():
      p = os.path.join(src, fname)
      build_fd_file(p, clients)
      env.served[fname] = c19.read_file(p)
    # CIFAR-100 (TFF format, lzma)
    cif = {}
    for split, ids in (('train', ['1', '2']), ('test', ['2', '9'])):
      cif[split] = {cid_: {'image': rng.randint(0, 256, size=(4, 32, 32, 3)).astype(np.uint8),
                           'label': np.array([0, 99, 17, 50], np.int64),
                           'coarse_label': rng.randint(0, 20, size=4).astype(np.int64)} for cid_ in ids}
    p = os.path.join(src, 'tff.sqlite')
    c19.build_tff_db(p, cif)
    import lzma
    env.served['cifar100.sqlite.lzma'] = lzma.compress(c19.read_file(p), preset=0)
    downloads.validate_file = lambda *a, **k: None                          # not this property's subject
    dso.default_vocab = lambda n: [f'w{i}' for i in range(n)]                # E2: gs:// unreachable
    c_sh = {'pad': dsh.PAD, 'bos': dsh.BOS, 'eos': dsh.EOS, 'oov': dsh.OOV, 'V': dsh.VOCAB_SIZE}
    alt_sh = {'bos': c_sh['V'] - 3, 'eos': c_sh['V'] - 2}
    c_so = {'pad': dso.StackoverflowTokenizer.PAD, 'bos': dso.StackoverflowTokenizer.BOS,
            'eos': dso.StackoverflowTokenizer.EOS, 'oov': 10000 + 3, 'V': 10000 + 4}
    for i, name in mine:
      ctx.cur_case = f'tasks/{name}'
      if not ctx.want(f'tasks/{name}'):
        continue
      cache = os.path.join(scratch, 'cache-' + name)
      env.root, env.watch = cache, {}
      with env.scope(None):
        r = ctx.call('tasks.get_task', tasks.get_task, name, cache_dir=cache, witness={'task': name})
      if not r.ok:
        ctx.case_done(None, sample={'task': name}, klass=['tasks'])
        continue
      train, test, model = r.value
      reps = 3 if quick else 12
      for split_name, fd in (('train', train), ('test', test)):
        rl = ctx.call(f'tasks.{name}.{split_name}.clients', lambda: [(c_, d_.all_examples()) for c_, d_ in fd.clients()],
                      witness={'task': name, 'split': split_name})
        for cidb, batch in (rl.value if rl.ok else []):
          wit = {'task': name, 'split': split_name, 'client': repr(cidb), 'batch_shapes': {k: list(np.shape(v)) for k, v in batch.items()}}
          for rep in range(reps):
            rg = ctx.rng('tasks', name, split_name, repr(cidb), rep)
            ctx.count('task:' + name)
            if name.startswith('EMNIST') or name.startswith('CIFAR'):
              ncls = 62 if name.startswith('EMNIST') else 100
              y = np.asarray(batch['y'])
              z = (rg.randn(len(y), ncls) * 3).astype(np.float32)
              z[0, y[0]] = 20.0
              got = eval_packaged_metrics(ctx, fedjax, model, batch, z, f'tasks.{name}', wit)
              compare_metrics(ctx, 'tasks', name, got, ref_cls_metrics(y, z), {**wit, 'y': y})
              if rep == 0:
                rr = ctx.call(f'tasks.{name}.apply_for_eval',
                              lambda: np.asarray(model.apply_for_eval(model.init(fedjax_key(0)), batch)), witness=wit)
                if rr.ok:
                  ctx.check(rr.value.shape == (len(y), ncls), f'tasks/{name}-logits-shape',
                            f'model output {rr.value.shape} on the packaged dataset batch, expected ({len(y)}, {ncls})', wit)
            elif name == 'SHAKESPEARE_CHARACTER':
              lm_xcheck(ctx, fedjax, 'tasks', name, model, batch, c_sh, rg, False, wit, alt_sh,
                        'ids/shakespeare-model-bos-eos-differ-from-dataset', entry=f'tasks.{name}')
            else:
              lm_xcheck(ctx, fedjax, 'tasks', name, model, batch, c_so, rg, True, wit, entry=f'tasks.{name}')
          ctx.case_done((name, split_name, repr(cidb)), sample=wit, klass=['tasks', name])
      del train, test
  finally:
    downloads.validate_file, dso.default_vocab = real_validate, real_vocab
    shutil.rmtree(scratch, ignore_errors=True)


# ============================================================ row independence
def run_rowindep(ctx, fedjax, tf):
  from fedjax.datasets import cifar100 as dc
  from fedjax.datasets import emnist as de
  from fedjax.datasets import shakespeare as dsh
  from fedjax.datasets import stackoverflow as dso
  from fedjax.models import cifar100 as mc
  from fedjax.models import emnist as me
  from fedjax.models import shakespeare as msh
  from fedjax.models import stackoverflow as mso
  quick = ctx.quick
  B = 4

  def emnist_batch(rng):
    return de.preprocess_batch({'pixels': rng.rand(B, 28, 28).astype(np.float32),
                                'label': rng.randint(0, 62, size=B).astype(np.int32), 'domain_id': np.zeros(B, np.int32)})

  def cifar_batch(rng):
    return dc.preprocess_batch_tff({'x': rng.randint(0, 256, size=(B, 32, 32, 3)).astype(np.uint8),
                                    'y': rng.randint(0, 100, size=B).astype(np.int32)})

  def shk_batch(L):
    def f(rng):
      sn = [bytes(rng.randint(0, 256, size=B * L + 5).astype(np.uint8))]
      out = dsh.preprocess_client(b'c', {'snippets': obj_array(sn)}, L)
      return {'x': out['x'][:B], 'y': out['y'][:B]}
    return f

  def so_batch(vocab, maxlen):
    tok = dso.StackoverflowTokenizer(vocab=vocab)
    pre = tok.as_preprocess_batch(maxlen)
    def f(rng):
      sents = [' '.join(vocab[k] if k < len(vocab) else 'unk' for k in rng.randint(0, len(vocab) + 2, size=rng.randint(1, maxlen + 3))).encode()
               for _ in range(B)]
      out = pre({'tokens': obj_array(sents)})
      return {'x': out['x'], 'y': out['y']}
    return f

  specs = [
      ('emnist-conv', lambda: me.create_conv_model(), emnist_batch),
      ('emnist-dense', lambda: me.create_dense_model(hidden_units=16 if quick else 200), emnist_batch),
      ('emnist-logistic', lambda: me.create_logistic_model(), emnist_batch),
      ('emnist-stax', lambda: me.create_stax_dense_model(hidden_units=16 if quick else 200), emnist_batch),
      ('cifar100-logistic', lambda: mc.create_logistic_model(), cifar_batch),
  ]
  if quick:
    specs += [('shakespeare-lstm', lambda: msh.create_lstm_model(embed_size=4, lstm_hidden_size=8, lstm_num_layers=2), shk_batch(6)),
              ('stackoverflow-lstm', lambda: mso.create_lstm_model(vocab_size=9, embed_size=4, lstm_hidden_size=8),
               so_batch([f'w{i}' for i in range(9)], 6))]
  else:
    specs += [('shakespeare-lstm', lambda: msh.create_lstm_model(), shk_batch(20)),
              ('stackoverflow-lstm', lambda: mso.create_lstm_model(), so_batch([f'w{i}' for i in range(10000)], 20))]
  reps = 1 if quick else 3
  for cid, (name, mk, mkbatch, rep) in ctx.enum('rowindep', [(n, m, b, r) for (n, m, b) in specs for r in range(reps)]):
    rng = ctx.rng('rowindep', name, rep)
    model = mk()
    wit = {'model': name, 'batch_size': B, 'rep': rep}
    r = ctx.call(f'models.{name}.init', model.init, fedjax_key(int(rng.randint(1 << 30))), witness=wit)
    if not r.ok:
      ctx.case_done(None, sample=wit, klass=['rowindep'])
      continue
    params = r.value
    batch = mkbatch(rng)
    other = mkbatch(rng)
    ctx.count('model:' + name)
    rb = ctx.call(f'models.{name}.apply_for_eval', lambda: np.asarray(model.apply_for_eval(params, batch)), witness=wit)
    if not rb.ok:
      ctx.case_done(None, sample=wit, klass=['rowindep'])
      continue
    pb = rb.value.astype(np.float64)
    tol = lambda a: 1e-4 * (1 + np.abs(a))
    ctx.check(bool(np.all(np.isfinite(pb))), 'rowindep/non-finite', f'{name}: non-finite predictions', wit)
    for i in range(B):
      single = {k: v[i:i + 1] for k, v in batch.items()}
      ps = np.asarray(model.apply_for_eval(params, single)).astype(np.float64)[0]
      ctx.check(bool(np.all(np.abs(ps - pb[i]) <= tol(pb[i]))), 'rowindep/batch-vs-single-row',
                f'{name}: prediction of row {i} evaluated alone differs from its prediction inside the batch '
                f'(max abs diff {np.abs(ps - pb[i]).max():.3g})', {**wit, 'row': i})
      # same row, all other rows replaced
      mixed = {k: np.concatenate([other[k][:i], v[i:i + 1], other[k][i + 1:]]) for k, v in batch.items()}
      pm = np.asarray(model.apply_for_eval(params, mixed)).astype(np.float64)[i]
      ctx.check(bool(np.all(np.abs(pm - pb[i]) <= tol(pb[i]))), 'rowindep/row-depends-on-other-rows',
                f'{name}: prediction of row {i} changes when the other rows of the batch change '
                f'(max abs diff {np.abs(pm - pb[i]).max():.3g})', {**wit, 'row': i})
    # metrics: batch result equals the merge of single-row results (scores are per example)
    y = batch['y']
    for mname, metric in model.eval_metrics.items():
      whole = fedjax.metrics.evaluate_batch(metric, batch, rb.value)
      parts = None
      for i in range(B):
        s = fedjax.metrics.evaluate_batch(metric, {k: v[i:i + 1] for k, v in batch.items()}, rb.value[i:i + 1])
        parts = s if parts is None else parts.merge(s)
      ctx.check(close(np.asarray(whole.result()), np.asarray(parts.result()), rtol=1e-4, atol=1e-5),
                'rowindep/metric-not-per-example', f'{name}: eval metric {mname} of the batch != merge of single-row stats',
                {**wit, 'metric': mname})
    ctx.case_done((name, rep), sample=wit, klass=['rowindep', name])


# ======================================================================= run
def run(ctx):
  import fedjax
  from fedjax.core import util
  from fedjax.datasets import cifar100 as dc
  from fedjax.datasets import emnist as de
  from fedjax.datasets import shakespeare as dsh
  tf = util.import_tf()
  run_shk(ctx, dsh)
  run_cifar_eval(ctx, dc, tf)
  run_crop(ctx, dc)
  run_emnist(ctx, de)
  run_xcheck(ctx, fedjax, tf)
  run_tasks(ctx, fedjax, tf)
  run_rowindep(ctx, fedjax, tf)
