"""C12 — Degenerate hyper-parameters reduce every algorithm to FedAvg."""
import numpy as np

from vmon import algos, core, toy

PROPERTY = 'C12'
LEVEL = 'exploration'
RULE = ('Seeded random 1-4 round histories on the linear-regression toy world (1-12 clients, sizes from '
        '{0,1,2,3,5,7,8,13}, dims 1-3, flat/nested param trees, optimizers sgd/momentum/adam/adagrad, the '
        'batch_size/num_epochs/num_steps/drop_remainder/skip_shuffle lattice with a fixed seed, learning rates in '
        '[0.01,0.3], every cohort with >=1 example, key-ignoring loss). Family "deg": real FedAvg is run next to '
        'FedProx(mu=0), HypCluster(1 cluster), APFL (global params) and - when the optimizers are SGD/SGD(1.0) - '
        'MimeLite(SGD base, server lr 1, no clipping) on identical clients/keys; every round every pair of server '
        'params is compared. Family "prox": FedProx(mu in {0.01,0.5}) against the float64 NumPy FedAvg oracle with the '
        'proximal term and against real FedAvg rebuilt every round on the loss + 0.5*mu*|w - w_server|^2. Family '
        '"mime": Mime(SGD eta, exactly one local step per client, server lr lambda) against p - lambda*eta*gradF(p), '
        'gradF the example-weighted full-batch gradient in float64 closed form. Tolerance: 3e-5*scale*sqrt(steps+1) '
        '+ 50*|oracle32-oracle64|; ill-conditioned histories (oracle gap > 1e-2*scale, Adam with |g|<1e-4) are '
        'discarded and counted. Non-trivial: some cohort has >=2 clients of different sizes and (deg/prox) a client '
        'taking >=2 local steps; distinct by (family, sizes, hparams, optimizers, mu/lambda, cohorts).')
RULE += (" Wave-4 additions: family 'reg' - HypCluster(1) / MimeLite built four times from the same loss and optimizer objects, alternately without / with an L2 regularizer, each against FedAvg on its own objective (sgd/momentum only); every chain re-reads all states it ever held at the end of the history.")
ASSUMPTIONS = [
    'the loss ignores its random key (the statement relates the algorithms only for key-independent losses)',
    'both sides of a differential receive the same ClientDataset objects, the same keys and the same '
    'ShuffleRepeatBatchHParams incl. the fixed seed, so they see identical batch streams (stream correctness is C04)',
    'NumPy optimizer re-implementations are self-checked against optax at start-up (oracle legs only)',
    'cohorts without any example are outside the statement ("same clients" with data) and are not generated',
]
SHARDS = {'quick': 8, 'thorough': 16}
ENV = {'XLA_FLAGS': '--xla_force_host_platform_device_count=8'}
SHARD_TIMEOUT = {'quick': 900, 'thorough': 3400}
MIN_HITS = {
    'quick': {'deg:zero-step-client-with-weight': 4, 'cohort-repeats-a-client': 4, 'hit:extreme-learning-rate': 8, 'fedprox0-on-pmap': 8, 'mon:fedprox0': 60, 'mon:hyp1': 60, 'mon:apfl': 60, 'mon:mimelite': 20, 'mon:proxoracle': 40,
              'mon:proxaug': 40, 'mon:mime': 40, 'leg:apfl-rounds': 60, 'hit:reg-family-round': 120, 'regularizer-observable': 8, 'mime-with-regularizer': 10},
    'thorough': {'deg:zero-step-client-with-weight': 60, 'cohort-repeats-a-client': 60, 'hit:extreme-learning-rate': 64, 'fedprox0-on-pmap': 120, 'mon:fedprox0': 1200, 'mon:hyp1': 1200, 'mon:apfl': 1200, 'mon:mimelite': 400, 'mon:proxoracle': 800,
                 'mon:proxaug': 800, 'mon:mime': 700, 'leg:apfl-rounds': 1200, 'hit:reg-family-round': 1500, 'regularizer-observable': 100, 'mime-with-regularizer': 120},
}
EXHAUSTIVE = {'quick': False, 'thorough': False}
TECHNIQUE = ('runtime monitoring: differential execution of the real algorithms against real FedAvg along seeded '
             'multi-round histories + float64 reference model (FedAvg with proximal term, closed-form Mime step)')
LEVEL_TEXT = ('Each generated history is executed round by round by the real algorithms under identical clients, keys and '
              'batching; after every round the server parameters of FedProx(0), HypCluster(1), MimeLite(SGD,1) and APFL are '
              'compared with those of real federated averaging, FedProx(mu>0) with an independent float64 oracle and with real '
              'FedAvg on the augmented loss, and Mime(SGD, one step) with the closed-form full-batch step. Held on the histories '
              'listed in the evidence; the hyper-parameter lattice is sampled, not enumerated.')
LEVEL_NOTE = ('Real-vs-real legs trust fed_avg.federated_averaging as the reference (its own agreement with the definition is C01); '
              'the conditioning estimate used for the tolerance comes from the NumPy FedAvg oracle run on the same batch streams. '
              'Only the jit for_each_client backend is exercised (backend equivalence is C02).')

SIZES = [0, 1, 2, 3, 5, 7, 8, 13]
MUS = [0.01, 0.5]


# ------------------------------------------------------------------ generation
def gen_history(rng, quick, family):
  dim = int(rng.randint(1, 4))
  kind = ['flat', 'nested'][rng.randint(2)]
  nmax = 8 if quick else 12
  n_clients = int(rng.randint(1, nmax + 1)) if rng.rand() < 0.8 else int(rng.randint(1, 4))
  sizes = [int(SIZES[rng.randint(len(SIZES))]) for _ in range(n_clients)]
  if rng.rand() < 0.15:
    sizes[rng.randint(n_clients)] = 0
  if family == 'mime':
    sizes = [max(1, s) for s in sizes]   # "a single local step" needs a batch: no empty clients
  if sum(sizes) == 0:
    sizes[0] = 3
  lr = float(np.round(rng.uniform(0.01, 0.3), 3))
  cspec = [('sgd', lr), ('momentum', lr, 0.9), ('adam', min(lr, 0.1)), ('adagrad', lr)][rng.choice(4, p=[.4, .25, .15, .2])]
  slr = float(np.round(rng.uniform(0.1, 1.5), 3))
  sspec = [('sgd', 1.0), ('sgd', slr), ('momentum', slr, 0.9), ('adam', 0.05)][rng.choice(4, p=[.35, .25, .25, .15])]
  bs = int([1, 2, 3, 4, 7, 16][rng.randint(6)])
  ne = [1, 2, None][rng.choice(3, p=[.5, .3, .2])]
  ns = [None, 0, 1, 3][rng.choice(4, p=[.6, .02, .18, .2])]
  if ne is None and ns is None:
    ns = 3
  if ne is None and 0 in sizes:
    ne = 1  # empty dataset + num_epochs=None never terminates (outside the domain)
  if cspec[0] == 'adam' and (ns is None or ns > 3):
    ns = 3
  drop = bool(rng.rand() < 0.3)
  extra = {}
  if family == 'deg' and rng.rand() < 0.35:
    cspec, sspec = ('sgd', lr), ('sgd', 1.0)      # the MimeLite leg exists only for SGD / SGD(1.0)
    if rng.rand() < 0.4 and n_clients >= 2:
      # forced class: a client that takes NO local step (smaller than the batch, remainder dropped) but still carries
      # its example count as weight, next to clients that do train
      bs, ne, drop = 4, 1, True
      ns = None if rng.rand() < 0.5 else 3
      sizes[0] = int(rng.randint(1, 4))
      sizes[1] = int(rng.choice([5, 7, 8, 13]))
      extra['zero_step_client'] = True
  if family == 'deg':
    extra['client_coefficient'] = float(np.round(rng.uniform(0.0, 1.0), 2))
    extra['grads_batch_size'] = int([1, 2, 4, 16][rng.randint(4)])
  if family == 'prox':
    extra['mu'] = float(MUS[rng.randint(len(MUS))])
  if family == 'mime':
    cspec = ('sgd', lr)
    sspec = None
    ns = 1
    if ne is not None:
      drop = False        # a client smaller than the batch would otherwise take no step
    extra['lam'] = float(np.round(rng.uniform(0.1, 1.5), 3))
    extra['grads_batch_size'] = int([1, 2, 4, 16][rng.randint(4)])
  hp = dict(batch_size=bs, num_epochs=ne, num_steps=ns, drop_remainder=drop, skip_shuffle=bool(rng.rand() < 0.2),
            seed=int(rng.randint(0, 2**31 - 1)))
  rounds = int(rng.randint(1, 5))
  cohorts = []
  for _ in range(rounds):
    for _try in range(50):
      k = int(rng.randint(1, n_clients + 1))
      c = sorted(rng.choice(n_clients, size=k, replace=False).tolist())
      if sum(sizes[i] for i in c) > 0:
        break
    else:
      c = [int(np.argmax(sizes))]
    cohorts.append(c)
  if extra.get('zero_step_client'):
    cohorts = [sorted(set(c) | {0, 1}) for c in cohorts]
  if family in ('deg', 'prox', 'reg') and n_clients >= 2 and rng.rand() < 0.12:
    # forced class: a cohort that lists a client more than once (apply() takes any sequence of clients; each listed
    # occurrence trains and carries its weight)
    r_ = int(rng.randint(rounds))
    c = list(cohorts[r_])
    j = int(np.argmax([sizes[i] for i in c]))
    c.insert(int(rng.randint(len(c) + 1)), c[j])
    if rng.rand() < 0.3:
      c.append(c[j])
    cohorts[r_] = c
    extra['repeated_client_in_cohort'] = True
  return dict(family=family, dim=dim, kind=kind, sizes=sizes, cspec=cspec, sspec=sspec, hp=hp, rounds=rounds,
              cohorts=cohorts, init_seed=int(rng.randint(0, 2**31 - 1)), **extra)


def make_world(h):
  drng = np.random.RandomState(h['init_seed'])
  w_true = drng.randn(h['dim'])
  raw, base = {}, 0
  for i, n in enumerate(h['sizes']):
    cid = b'c%02d' % i
    raw[cid] = toy.make_client(drng, n, h['dim'], w_true, idx_base=base)
    for v in raw[cid].values():
      v.flags.writeable = False
    base += n
  init = toy.make_params(drng, h['dim'], h['kind'])
  return raw, sorted(raw), init


def witness(h):
  return {k: v for k, v in h.items() if k not in ('init_seed',)}


# ------------------------------------------------------------------------ legs
class Leg:
  """One real algorithm chain; a raising leg is reported under its own key and dropped, the others go on."""

  def __init__(self, ctx, name, built, init, wit):
    self.ctx, self.name, self.built, self.alive = ctx, name, built, True
    r = ctx.call(f'{name}.init', built.init_state, init, witness=wit)
    self.state = r.value if r.ok else None
    self.alive = r.ok
    # every state this chain ever held, with a value copy of its server params taken when it was current
    self.stored = [(self.state, algos.server_params_np(self.state))] if r.ok else []

  def step(self, clients, wit, algo=None):
    if not self.alive:
      return None
    r = self.ctx.call(f'{self.name}.apply', (algo or self.built.algo).apply, self.state, clients, witness=wit)
    if not r.ok:
      self.alive = False
      return None
    self.state = r.value[0]
    self.ctx.count(f'leg:{self.name}-rounds')
    now = algos.server_params_np(self.state)
    self.stored.append((self.state, toy.tmap(np.array, now)))
    return now

  def deferred(self, key, wit):
    """Read every stored state again at the end of the history: state t still holds the round-t parameters."""
    for t, (st, snap) in enumerate(self.stored):
      later = algos.server_params_np(st)
      d = toy.max_abs_diff(later, snap)
      self.ctx.check(d == 0, f'{key}/stored-state-changed-by-later-rounds',
                     f'{self.name}: the state returned for round {t - 1 if t else "init"} holds different server parameters after '
                     f'later rounds ran (differs by {d:.3g})', {**wit, 'state_index': t, 'then': snap, 'now': later})


def compare(ctx, family_key, what, got, expected, tol, wit):
  diff = toy.max_abs_diff(got, expected)
  return ctx.check(toy.all_finite(got) and diff <= tol, family_key,
                   f'{what}: server params differ by {diff:.3g} (tol {tol:.3g})',
                   {**wit, 'got': got, 'expected': expected, 'diff': diff, 'tol': tol})


def round_inputs(fedjax, jax, h, raw, ids, dsets, rnd):
  cohort_ids = [ids[i] for i in h['cohorts'][rnd]]
  keys = jax.random.split(jax.random.PRNGKey(1000 + rnd), len(cohort_ids))
  clients = [(cid, dsets[cid], keys[i]) for i, cid in enumerate(cohort_ids)]
  hp = fedjax.ShuffleRepeatBatchHParams(**h['hp'])
  cohort = [(cid, len(raw[cid]['x']), list(dsets[cid].shuffle_repeat_batch(hp))) for cid in cohort_ids]
  return cohort_ids, clients, cohort


def is_nontrivial(cohort, need_two_steps=True):
  sizes_in = [n for _, n, _ in cohort]
  return len(set(sizes_in)) >= 2 and (not need_two_steps or max(len(b) for _, _, b in cohort) >= 2)


# ------------------------------------------------------ family deg: X == FedAvg
def run_deg(ctx, fedjax, jax, jnp, h):
  raw, ids, init = make_world(h)
  dsets = algos.make_datasets(raw)
  wit = witness(h)
  common = dict(cspec=h['cspec'], sspec=h['sspec'], hp=h['hp'])
  ref = Leg(ctx, 'fed_avg', algos.build('fed_avg', **common), init, wit)
  # FedProx(0) must equal FedAvg whatever backend its for_each_client was built on: in a third of the histories the
  # FedProx leg runs on the pmap backend (uniform batch shapes: shuffle_repeat_batch), FedAvg stays on the default backend
  nd = 1 + (h['init_seed'] % 8)
  on_pmap = h['init_seed'] % 3 == 0 and len(jax.local_devices()) >= nd
  if on_pmap:
    from fedjax.core import for_each_client as fec
    with fedjax.for_each_client_backend(fec.ForEachClientPmapBackend(jax.local_devices()[:nd])):
      prox_built = algos.build('fed_prox', proximal_weight=0.0, **common)
    ctx.count('fedprox0-on-pmap')
    wit = {**wit, 'fedprox_backend': f'pmap[{nd}]'}
  else:
    prox_built = algos.build('fed_prox', proximal_weight=0.0, **common)
  import contextlib
  # ... and in those histories the other legs are built on the pmap backend as well (it yields clients in another order
  # than it was given them; every leg must still pair each result with its own client)
  others_ctx = (fedjax.for_each_client_backend(fec.ForEachClientPmapBackend(jax.local_devices()[:nd]))
                if on_pmap else contextlib.nullcontext())
  with others_ctx:
    hyp_built = algos.build('hyp_cluster', num_clusters=1, **common)
    apfl_built = algos.build('apfl', client_coefficient=h['client_coefficient'], **common)
    mimelite_built = None
    if h['cspec'][0] == 'sgd' and h['sspec'] == ('sgd', 1.0):
      mimelite_built = algos.build('mime_lite', cspec=h['cspec'], hp=h['hp'], server_learning_rate=1.0, client_delta_clip_norm=None,
                                   grads_batch_size=h['grads_batch_size'])
  legs = {
      'fedprox0': Leg(ctx, 'fed_prox', prox_built, init, wit),
      'hyp1': Leg(ctx, 'hyp_cluster', hyp_built, init, wit),
      'apfl': Leg(ctx, 'apfl', apfl_built, init, wit),
  }
  if mimelite_built is not None:
    legs['mimelite'] = Leg(ctx, 'mime_lite', mimelite_built, init, wit)
  o64 = toy.FedAvgOracle(init, h['cspec'], h['sspec'], np.float64)
  o32 = toy.FedAvgOracle(init, h['cspec'], h['sspec'], np.float32)
  steps_total, nontrivial, discarded = 0, False, False
  for rnd in range(h['rounds']):
    cohort_ids, clients, cohort = round_inputs(fedjax, jax, h, raw, ids, dsets, rnd)
    steps_total += sum(len(b) for _, _, b in cohort)
    nontrivial = nontrivial or is_nontrivial(cohort)
    o64.round(cohort)
    o32.round(cohort)
    gap = toy.max_abs_diff(o32.params, o64.params)
    scale = max(1.0, toy.max_abs(o64.params))
    if not toy.all_finite(o64.params) or gap > 1e-2 * scale or min(o64.copt.min_abs_g, o64.sopt.min_abs_g) < 1e-4:
      discarded = True
      ctx.count('discarded-illconditioned')
      break
    tol = 3e-5 * scale * np.sqrt(steps_total + 1.0) + 50 * gap
    w = {**wit, 'round': rnd}
    expected = ref.step(clients, w)
    if expected is None:
      break
    for key, leg in legs.items():
      got = leg.step(clients, w)
      if got is not None:
        compare(ctx, f'{key}/params-differ-from-fedavg', f'round {rnd}: {leg.name} vs fed_avg', got, expected, tol, w)
  for key, leg in list(legs.items()) + [('fedavg', ref)]:
    leg.deferred(key, wit)
  klass = ['family=deg', f"copt={h['cspec'][0]}", f"sopt={h['sspec'][0]}"] + (['discarded'] if discarded else [])
  if h.get('repeated_client_in_cohort'):
    klass.append('cohort-repeats-a-client')
  if h.get('zero_step_client'):
    klass.append('deg:zero-step-client-with-weight')
  key = ('deg', tuple(h['sizes']), tuple(sorted(h['hp'].items(), key=str)), h['cspec'], h['sspec'],
         tuple(map(tuple, h['cohorts'])))
  ctx.case_done(key if (nontrivial and not discarded) else None, sample=wit, klass=klass)


# ------------------------------------------- family prox: FedProx(mu>0) legs
def augmented_grad_fn(jax, jnp, centre, mu):
  """grad of mean per-example loss + 0.5*mu*|p - centre|^2 (written without fedjax helpers)."""
  centre_leaves = jax.tree_util.tree_leaves(centre)

  def loss(p, batch, rng):
    del rng
    pen = sum(jnp.sum(jnp.square(x - c)) for x, c in zip(jax.tree_util.tree_leaves(p), centre_leaves))
    return jnp.mean(toy.jax_per_example_loss(p, batch)) + 0.5 * mu * pen

  return jax.grad(loss)


def run_prox(ctx, fedjax, jax, jnp, h):
  raw, ids, init = make_world(h)
  dsets = algos.make_datasets(raw)
  wit = witness(h)
  mu = h['mu']
  common = dict(cspec=h['cspec'], sspec=h['sspec'], hp=h['hp'])
  prox = Leg(ctx, 'fed_prox', algos.build('fed_prox', proximal_weight=mu, **common), init, wit)
  # Real FedAvg chain on the augmented loss: the state is carried, the algorithm is rebuilt every round.
  aug = Leg(ctx, 'fed_avg', algos.build('fed_avg', **common), init, wit)
  o64 = toy.FedAvgOracle(init, h['cspec'], h['sspec'], np.float64, prox_mu=mu)
  o32 = toy.FedAvgOracle(init, h['cspec'], h['sspec'], np.float32, prox_mu=mu)
  plain64 = toy.FedAvgOracle(init, h['cspec'], h['sspec'], np.float64)
  steps_total, nontrivial, discarded, felt = 0, False, False, False
  for rnd in range(h['rounds']):
    cohort_ids, clients, cohort = round_inputs(fedjax, jax, h, raw, ids, dsets, rnd)
    steps_total += sum(len(b) for _, _, b in cohort)
    nontrivial = nontrivial or is_nontrivial(cohort)
    o64.round(cohort)
    o32.round(cohort)
    plain64.round(cohort)
    gap = toy.max_abs_diff(o32.params, o64.params)
    scale = max(1.0, toy.max_abs(o64.params))
    if not toy.all_finite(o64.params) or gap > 1e-2 * scale or min(o64.copt.min_abs_g, o64.sopt.min_abs_g) < 1e-4:
      discarded = True
      ctx.count('discarded-illconditioned')
      break
    tol = 3e-5 * scale * np.sqrt(steps_total + 1.0) + 50 * gap
    if toy.max_abs_diff(plain64.params, o64.params) > 4 * tol:
      felt = True     # the proximal term is observable in this history (a dropped term would be caught)
    w = {**wit, 'round': rnd}
    got = prox.step(clients, w)
    if got is None:
      break
    compare(ctx, 'proxoracle/params-differ-from-prox-oracle', f'round {rnd}: fed_prox(mu={mu}) vs float64 oracle', got,
            o64.params, tol, w)
    if aug.alive:
      centre = aug.state.params
      algo = algos.build('fed_avg', grad_fn=augmented_grad_fn(jax, jnp, centre, mu), **common).algo
      exp = aug.step(clients, w, algo=algo)
      if exp is not None:
        compare(ctx, 'proxaug/params-differ-from-fedavg-on-augmented-loss',
                f'round {rnd}: fed_prox(mu={mu}) vs fed_avg on loss + 0.5*mu*|w-w_server|^2', got, exp, tol, w)
  klass = ['family=prox', f'mu={mu}', f"copt={h['cspec'][0]}", f"sopt={h['sspec'][0]}"]
  if h.get('repeated_client_in_cohort'):
    klass.append('cohort-repeats-a-client')
  klass += ['discarded'] if discarded else []
  klass += ['prox-term-observable'] if felt else []
  key = ('prox', mu, tuple(h['sizes']), tuple(sorted(h['hp'].items(), key=str)), h['cspec'], h['sspec'],
         tuple(map(tuple, h['cohorts'])))
  ctx.case_done(key if (nontrivial and felt and not discarded) else None, sample=wit, klass=klass)


# ------------------------------------------------ family mime: closed-form step
def run_mime(ctx, fedjax, jax, jnp, h):
  raw, ids, init = make_world(h)
  dsets = algos.make_datasets(raw)
  wit = witness(h)
  eta, lam = h['cspec'][1], h['lam']
  # optional L2 regularizer (weight rw): the full-batch step is then taken on mean loss + 0.5*rw*|p|^2
  rw = float([0.0, 0.0, 0.05, 0.5, 2.0][h['init_seed'] % 5])
  regularizer = None
  if rw:
    regularizer = lambda p: 0.5 * rw * sum(jnp.sum(jnp.square(x)) for x in jax.tree_util.tree_leaves(p))
    wit = {**wit, 'regularizer_weight': rw}
    ctx.count('mime-with-regularizer')
  leg = Leg(ctx, 'mime', algos.build('mime', cspec=h['cspec'], hp=h['hp'], server_learning_rate=lam,
                                     grads_batch_size=h['grads_batch_size'], regularizer=regularizer), init, wit)
  p64, p32 = toy.cast(init, np.float64), toy.cast(init, np.float32)
  steps_total, nontrivial, discarded = 0, False, False
  for rnd in range(h['rounds']):
    cohort_ids, clients, cohort = round_inputs(fedjax, jax, h, raw, ids, dsets, rnd)
    if any(len(b) != 1 for _, _, b in cohort):
      raise core.HarnessError(f'mime leg: a client does not take exactly one step: {[len(b) for _, _, b in cohort]}')
    steps_total += len(cohort)
    nontrivial = nontrivial or is_nontrivial(cohort, need_two_steps=False)
    full = {'x': np.concatenate([raw[c]['x'] for c in cohort_ids]), 'y': np.concatenate([raw[c]['y'] for c in cohort_ids])}
    g64 = toy.np_grad(p64, full, np.float64)
    p64 = toy.tmap(lambda p, g: p - np.float64(lam) * np.float64(eta) * (g + np.float64(rw) * p), p64, g64)
    g32 = toy.np_grad(p32, full, np.float32)
    p32 = toy.tmap(lambda p, g: (p - np.float32(lam) * np.float32(eta) * (g + np.float32(rw) * p)).astype(np.float32), p32, g32)
    gap = toy.max_abs_diff(p32, p64)
    scale = max(1.0, toy.max_abs(p64))
    if not toy.all_finite(p64) or gap > 1e-2 * scale:
      discarded = True
      ctx.count('discarded-illconditioned')
      break
    tol = 3e-5 * scale * np.sqrt(steps_total + 1.0) + 50 * gap
    w = {**wit, 'round': rnd}
    got = leg.step(clients, w)
    if got is None:
      break
    compare(ctx, 'mime/params-differ-from-full-batch-step', f'round {rnd}: mime(sgd {eta}, 1 step, server lr {lam}, L2 weight {rw}) vs '
            'p - lam*eta*(gradF(p) + rw*p)', got, p64, tol, w)
  klass = ['family=mime'] + (['discarded'] if discarded else [])
  key = ('mime', eta, lam, tuple(h['sizes']), tuple(sorted(h['hp'].items(), key=str)), tuple(map(tuple, h['cohorts'])))
  ctx.case_done(key if (nontrivial and not discarded) else None, sample=wit, klass=klass)


# ------------------------------- family reg: regularised HypCluster(1) / MimeLite next to unregularised twins
def run_reg(ctx, fedjax, jax, jnp, h):
  """Several algorithm objects built in one process from the SAME loss / optimizer objects, with and without a regularizer.

  Built in the order plain, regularised, plain: each must equal FedAvg on ITS objective (mean loss, resp. mean loss +
  regularizer), whatever was built before it.
  """
  raw, ids, init = make_world(h)
  dsets = algos.make_datasets(raw)
  wit = {**witness(h), 'reg_weight': h['reg_weight']}
  lam = h['reg_weight']
  loss = algos.per_example_loss(0.0)
  copt, sopt = toy.fedjax_optimizer(h['cspec']), toy.fedjax_optimizer(h['sspec'])
  leaves = jax.tree_util.tree_leaves

  def regularizer(p):
    return 0.5 * lam * sum(jnp.sum(jnp.square(x)) for x in leaves(p))

  shared = dict(cspec=h['cspec'], sspec=h['sspec'], hp=h['hp'], loss=loss, copt=copt, sopt=sopt)
  ref_plain = Leg(ctx, 'fed_avg', algos.build('fed_avg', **shared), init, wit)
  ref_reg = Leg(ctx, 'fed_avg', algos.build(
      'fed_avg', grad_fn=jax.grad(lambda p, b, r: jnp.mean(loss(p, b, r)) + regularizer(p)), **shared), init, wit)
  legs = []
  mimelite = h['cspec'][0] == 'sgd' and h['sspec'] == ('sgd', 1.0)
  for tag, rg in (('plain', None), ('reg', regularizer), ('plain-again', None), ('reg-again', regularizer)):
    legs.append(('hyp1', tag, rg, Leg(ctx, 'hyp_cluster', algos.build('hyp_cluster', num_clusters=1, regularizer=rg, **shared), init, wit)))
    if mimelite:
      legs.append(('mimelite', tag, rg, Leg(ctx, 'mime_lite', algos.build(
          'mime_lite', hp=h['hp'], loss=loss, copt=copt, cspec=h['cspec'], server_learning_rate=1.0, client_delta_clip_norm=None,
          grads_batch_size=h['grads_batch_size'], regularizer=rg), init, wit)))
  o64 = toy.FedAvgOracle(init, h['cspec'], h['sspec'], np.float64)
  o32 = toy.FedAvgOracle(init, h['cspec'], h['sspec'], np.float32)
  steps_total, nontrivial, discarded, felt = 0, False, False, False
  for rnd in range(h['rounds']):
    cohort_ids, clients, cohort = round_inputs(fedjax, jax, h, raw, ids, dsets, rnd)
    steps_total += sum(len(b) for _, _, b in cohort)
    nontrivial = nontrivial or is_nontrivial(cohort)
    o64.round(cohort)
    o32.round(cohort)
    gap = toy.max_abs_diff(o32.params, o64.params)
    scale = max(1.0, toy.max_abs(o64.params))
    if not toy.all_finite(o64.params) or gap > 1e-2 * scale:
      discarded = True
      ctx.count('discarded-illconditioned')
      break
    tol = 3e-5 * scale * np.sqrt(steps_total + 1.0) + 50 * gap
    w = {**wit, 'round': rnd}
    e_plain, e_reg = ref_plain.step(clients, w), ref_reg.step(clients, w)
    if e_plain is None or e_reg is None:
      break
    if toy.max_abs_diff(e_plain, e_reg) > 4 * tol:
      felt = True
    for key, tag, rg, leg in legs:
      got = leg.step(clients, w)
      if got is not None:
        ctx.count('hit:reg-family-round')
        compare(ctx, f'{key}/params-differ-from-fedavg',
                f'round {rnd}: {leg.name} [{tag}, built after twins sharing its loss and optimizer objects] vs fed_avg on '
                + ('mean loss + regularizer' if rg is not None else 'mean loss'), got, e_reg if rg is not None else e_plain, tol,
                {**w, 'instance': tag})
  for key, tag, rg, leg in legs:
    leg.deferred(key, {**wit, 'instance': tag})
  klass = ['family=reg', f"copt={h['cspec'][0]}", f"sopt={h['sspec'][0]}"] + (['discarded'] if discarded else [])
  if h.get('repeated_client_in_cohort'):
    klass.append('cohort-repeats-a-client')
  klass += ['regularizer-observable'] if felt else []
  key = ('reg', lam, tuple(h['sizes']), tuple(sorted(h['hp'].items(), key=str)), h['cspec'], h['sspec'], tuple(map(tuple, h['cohorts'])))
  ctx.case_done(key if (nontrivial and felt and not discarded) else None, sample=wit, klass=klass)


XLRS = (1e-30, 1e-12, 1e9, 1e19, 1e20, 3e24)


def run_xlr(ctx, fedjax, jax, jnp, h):
  """"For all learning rates": one round, one local SGD step per client, client learning rate from XLRS (squared update norms
  under- or overflow float32 while the updates themselves stay finite); FedProx(0), HypCluster(1) and MimeLite(SGD, 1.0) against
  FedAvg, relative to the size of FedAvg's result."""
  raw, ids, init = make_world(h)
  dsets = algos.make_datasets(raw)
  wit = witness(h)
  common = dict(cspec=h['cspec'], sspec=h['sspec'], hp=h['hp'])
  ref = Leg(ctx, 'fed_avg', algos.build('fed_avg', **common), init, wit)
  legs = {
      'fedprox0': Leg(ctx, 'fed_prox', algos.build('fed_prox', proximal_weight=0.0, **common), init, wit),
      'hyp1': Leg(ctx, 'hyp_cluster', algos.build('hyp_cluster', num_clusters=1, **common), init, wit),
      'mimelite': Leg(ctx, 'mime_lite', algos.build('mime_lite', cspec=h['cspec'], hp=h['hp'], server_learning_rate=1.0,
                                                    client_delta_clip_norm=None, grads_batch_size=h['grads_batch_size']), init, wit),
  }
  cohort_ids, clients, cohort = round_inputs(fedjax, jax, h, raw, ids, dsets, 0)
  w = {**wit, 'round': 0}
  expected = ref.step(clients, w)
  klass = ['family=xlr', f"lr={h['cspec'][1]:g}"]
  if expected is None or not toy.all_finite(expected):
    ctx.count('xlr:fedavg-not-finite')
    return ctx.case_done(None, sample=wit, klass=klass + ['discarded'])
  moved = toy.max_abs_diff(expected, init)
  tol = 2e-5 * max(toy.max_abs(expected), moved)
  ctx.count('hit:extreme-learning-rate')
  for key, leg in legs.items():
    got = leg.step(clients, w)
    if got is not None:
      compare(ctx, f'{key}/params-differ-from-fedavg', f'round 0 (client lr {h["cspec"][1]:g}): {leg.name} vs fed_avg', got, expected, tol, w)
  ctx.case_done(('xlr', h['cspec'][1], tuple(h['sizes']), tuple(h['cohorts'][0])) if len(cohort) >= 2 else None, sample=wit, klass=klass)


RUNNERS = {'deg': run_deg, 'xlr': run_xlr, 'prox': run_prox, 'mime': run_mime, 'reg': run_reg}


def run(ctx):
  import jax
  import jax.numpy as jnp
  import fedjax
  err = toy.selfcheck_optimizers()
  if err:
    raise core.Inconclusive('oracle self-check failed: ' + err)
  n = {'deg': 64, 'prox': 48, 'mime': 48, 'reg': 24} if ctx.quick else {'deg': 800, 'prox': 560, 'mime': 440, 'reg': 240}
  for family in ('deg', 'prox', 'mime', 'reg'):
    for cid, rng in ctx.cases(family, n[family]):
      h = gen_history(rng, ctx.quick, 'deg' if family == 'reg' else family)
      if family == 'reg':
        # linear, well-conditioned optimizers only; the twins are judged with the tolerance of the plain oracle
        lr = h['cspec'][1]
        if h['cspec'][0] not in ('sgd', 'momentum'):
          h['cspec'] = ('sgd', lr) if rng.rand() < 0.5 else ('momentum', lr, 0.9)
        if h['sspec'][0] not in ('sgd', 'momentum'):
          h['sspec'] = ('sgd', 1.0)
        h['family'] = 'reg'
        h['reg_weight'] = float([0.05, 0.5, 2.0][rng.randint(3)])
        h['rounds'] = max(2, h['rounds'])
        while len(h['cohorts']) < h['rounds']:
          h['cohorts'].append(h['cohorts'][-1])
      RUNNERS[family](ctx, fedjax, jax, jnp, h)
  for cid, rng in ctx.cases('xlr', 12 if ctx.quick else 96):
    h = gen_history(rng, ctx.quick, 'deg')
    h.pop('zero_step_client', None)
    h.pop('repeated_client_in_cohort', None)
    h['family'] = 'xlr'
    h['sizes'] = [max(1, s_) for s_ in h['sizes']]
    h['cspec'], h['sspec'] = ('sgd', float(XLRS[int(cid.split('/')[1]) % len(XLRS)])), ('sgd', 1.0)
    h['hp'] = dict(h['hp'], num_steps=1, num_epochs=1, drop_remainder=False)
    h['rounds'], h['cohorts'] = 1, [sorted(set(h['cohorts'][0]))]
    run_xlr(ctx, fedjax, jax, jnp, h)
TECHNIQUE += '; cohorts listing a client more than once; client learning rates 1e-30 ... 3e24'
RULE += " Wave-8 addition: 12% of deg/prox/reg histories list a client two or three times in one cohort; family xlr runs one round of one SGD step with client learning rate in {1e-30, 1e-12, 1e9, 1e19, 1e20, 3e24} (FedProx(0), HypCluster(1), MimeLite vs FedAvg, relative to the size of FedAvg's result)."
