"""C17 — Algorithm-specific invariants hold along every training history."""
import numpy as np

from vmon import core, toy

PROPERTY = 'C17'
LEVEL = 'exploration'
RULE = ('Five legs of seeded random 3-8 round histories on a linear-regression world (dim 3, 6 clients of 2-12 examples, '
        'cohorts of 1-4 clients). agnostic: 2-4 domains x window 1-3 x domain lr {0.1,0.5,1.0}, client/server optimizers '
        'sgd/momentum/adam, clients holding 1..all domains so that a domain is absent from some cohorts; apfl: client '
        'optimizers sgd(0.5)/sgd(0.1)/momentum/adam x initial coefficient {0,.25,.5,1}; hyp: 1-4 clusters, client x server '
        'optimizers sgd/momentum/adam, flat/nested trees, clusters that get no client in some rounds; mime: base optimizer '
        'sgd/momentum/adam x server lr {0.5,1,2} x clip {1e-3,1e-2,5e-2} (>=10x below the unclipped norms) plus a "mixed" '
        'clip 0.5; ignore: haiku-style two-level trees x non-trainable subsets (none, one leaf, whole module, mixed, all) x '
        'sgd/momentum/adam over 3-6 steps. Every round (step) of every history is judged by the invariant monitors and, '
        'for hyp/mime/ignore, a float64 NumPy oracle. Non-trivial: >=3 rounds (steps) with at least one round of >=2 '
        'clients (ignore: a non-empty proper subset or >=3 steps) and not discarded as ill-conditioned; distinct by '
        '(leg, configuration, population, cohorts).')
RULE += (' Wave-4 addition: APFL evaluation (eval_adaptive_personalized_federated_learning on a toy Model) between training rounds on cohorts containing never-trained clients; the training state must store participants only.')
ASSUMPTIONS = [
    'batch streams consumed by the oracles are the ones the real ClientDataset.shuffle_repeat_batch yields for the fixed '
    'seed (validated separately by C04)',
    'NumPy re-implementations of sgd/momentum/adam are self-checked against optax at start-up; the closed-form loss is '
    'self-checked against the jax per-example loss',
    'hyp/mime histories whose float32/float64 oracle gap exceeds 1e-2*scale or whose smallest Adam gradient magnitude '
    'falls below 1e-4 are discarded as ill-conditioned (counted)',
    'HypCluster argmin is judged up to 1e-4*max(1,|loss|): either side of a numerical tie is accepted',
    'the MimeLite server-step bound server_lr*clip*(1+1e-5) is widened by one float32 ulp of each parameter, the '
    'representation error of the stored sum p - lr*q',
    'per-domain example counts are computed by the harness from the domain_id column of the cohort datasets',
]
SHARDS = {'quick': 4, 'thorough': 8}
SHARD_TIMEOUT = {'quick': 900, 'thorough': 3400}
MIN_HITS = {
    'quick': {
        'm:agnostic-simplex': 150, 'm:agnostic-window-length': 150, 'm:agnostic-window-last': 150,
        'm:agnostic-window-shift': 150, 'agnostic:absent-domain-round': 20, 'agnostic:W=1': 3, 'agnostic:W=2': 3,
        'agnostic:W=3': 3, 'agnostic:dlr=1.0': 3,
        'm:apfl-coef': 100, 'm:apfl-keyset': 100, 'apfl:coef-at-boundary': 5, 'hit:apfl-eval-with-unseen-client': 30,
        'hyp:offset-loss': 15, 'ignore:value-dependent-base-optimizer': 20, 'hit:mime-clip-band-probe': 8, 'm:hyp-argmin': 300, 'm:hyp-argmin-eval': 300, 'm:hyp-oracle': 150, 'm:hyp-empty': 60, 'hyp:empty-after-update': 10, 'hyp:K=1': 2,
        'hyp:K=4': 2, 'hyp:sopt=momentum': 2, 'hyp:sopt=adam': 2,
        'm:mime-server-bound': 100, 'm:mime-diag-bound': 200, 'm:mime-oracle': 100, 'mime:all-far-clipped-round': 60,
        'm:ignore-ignored': 100, 'm:ignore-trained': 100, 'm:ignore-oracle': 100,
    },
    'thorough': {
        'm:agnostic-simplex': 3000, 'm:agnostic-window-length': 3000, 'm:agnostic-window-last': 3000,
        'm:agnostic-window-shift': 3000, 'agnostic:absent-domain-round': 500, 'agnostic:W=1': 100, 'agnostic:W=2': 100,
        'agnostic:W=3': 100, 'agnostic:dlr=1.0': 100,
        'm:apfl-coef': 5000, 'm:apfl-keyset': 1500, 'apfl:coef-at-boundary': 100, 'hit:apfl-eval-with-unseen-client': 400,
        'm:hyp-argmin': 8000, 'm:hyp-argmin-eval': 8000, 'm:hyp-oracle': 4000, 'm:hyp-empty': 3000,
        'hyp:empty-after-update': 300, 'hyp:K=1': 100, 'hyp:K=4': 100, 'hyp:sopt=momentum': 100, 'hyp:sopt=adam': 100,
        'm:mime-server-bound': 2500, 'm:mime-diag-bound': 6000, 'm:mime-oracle': 2500, 'mime:all-far-clipped-round': 1500,
        'm:ignore-ignored': 6000, 'm:ignore-trained': 6000, 'm:ignore-oracle': 6000,
    },
}
EXHAUSTIVE = {'quick': False, 'thorough': False}
TECHNIQUE = ('runtime monitoring: per-round state-invariant monitors (simplex, sliding window, unit box, key set, clip bound, '
             'bit-identity) + float64 reference-model oracles (per-cluster FedAvg, clipped weighted mean, pruned-tree '
             'optimizer) over seeded multi-round histories')
LEVEL_TEXT = ('After every apply() of every generated history the real agnostic_fed_avg / apfl / hyp_cluster / mime_lite '
              'state and diagnostics, and every ignore_grads_haiku step, are judged by monitors written from the property '
              'text: probability-vector and sliding-window monitors against harness-computed domain counts, [0,1] box and '
              'participant key-set monitors, argmin / own-clients-only / untouched-empty-cluster monitors against float64 '
              'closed-form losses and a per-cluster FedAvg oracle, clip-bound monitors plus a float64 clipped-weighted-mean '
              'oracle, bit-identity of ignored parameters and equality with the base optimizer on the pruned tree. Held on '
              'the histories listed in the evidence; configurations and populations are sampled, not enumerated.')
LEVEL_NOTE = ('Trusts optax for the per-step optimizer rules only through a start-up self-check of the NumPy oracle; trusts '
              'the batch stream of shuffle_repeat_batch (C04) and padded_batch (C03/C05). Invariants that need no oracle '
              '(simplex, window, box, key set, bit-identity) trust only NumPy comparisons.')

DIM = 3
BATCH = 4
SIZES = [2, 4, 6, 8, 12]
N_CLIENTS = 6
SGD1 = ('sgd', 1.0)


def _pel(params, batch, rng):
  """Module-level per-example loss (one function object => shared jit caches)."""
  del rng
  return toy.jax_per_example_loss(params, batch)


LOSS_OFFSET = 1000.0


def _pel_offset(params, batch, rng):
  """The same loss plus a large constant: gradients are unchanged, average losses are 1000.x (differences between clusters are
  tiny RELATIVE to the values but many float32 ulps apart)."""
  del rng
  return toy.jax_per_example_loss(params, batch) + LOSS_OFFSET


def mon(ctx, name, cond, key, what, wit):
  """Monitor assertion with its own hit counter `m:<name>` (used by MIN_HITS)."""
  ctx.count('m:' + name)
  return ctx.check(cond, key, what, wit)


LEGS = ['agnostic', 'hyp', 'mime', 'ignore', 'apfl']


def samp(ctx, leg, sample):
  """Evidence keeps the first few samples of every shard: let shard s lead with leg s so that all legs are shown."""
  if ctx.samples or LEGS[ctx.shard % len(LEGS)] == leg:
    return sample
  return None


def block_config(ctx, i, configs, reps):
  """Configuration of case i. Every shard walks the (seed-rotated) list in blocks of `reps` of its own consecutive

  cases so that one compiled algorithm object serves `reps` histories; jointly the shards cover consecutive entries.
  """
  s, j = i % ctx.nshards, i // ctx.nshards
  return configs[(s + (j // reps) * ctx.nshards + 5 * ctx.seed) % len(configs)]


class AlgoCache:
  """Keeps the few most recent algorithm objects (and their jit caches) alive."""

  def __init__(self, build, keep=2):
    self.build, self.keep, self.d = build, keep, {}

  def get(self, cfg):
    if cfg not in self.d:
      if len(self.d) >= self.keep:
        self.d.pop(next(iter(self.d)))
      self.d[cfg] = self.build(cfg)
    return self.d[cfg]


def jleaves(tree):
  import jax
  return [np.asarray(x) for x in jax.tree_util.tree_leaves(tree)]


def trees_bit_equal(a, b):
  import jax
  if jax.tree_util.tree_structure(a) != jax.tree_util.tree_structure(b):
    return False
  return all(core.bit_equal(x, y) for x, y in zip(jleaves(a), jleaves(b)))


def gen_cohorts(rng, rounds, n_clients, kmax=4, must=None, avoid=None):
  out = []
  for _ in range(rounds):
    k = int(rng.randint(1, kmax + 1))
    pool = list(range(n_clients))
    if avoid is not None and rng.rand() < 0.7:
      pool = [c for c in pool if c != avoid]
    sel = sorted(rng.choice(pool, size=min(k, len(pool)), replace=False).tolist())
    if must is not None and must not in sel:
      sel = sorted(sel[:-1] + [must]) if len(sel) == kmax else sorted(sel + [must])
    sel = [int(c) for c in sel]
    if rng.rand() < 0.5:
      rng.shuffle(sel)        # clients are handed to apply() in arbitrary (not sorted-id) order
    out.append(sel)
  return out


def freeze(raw):
  for v in raw.values():
    v.flags.writeable = False
  return raw


def cid_of(i):
  return b'c%02d' % i


# ============================================================== (a) agnostic
COPTS_A = [('sgd', 0.1), ('momentum', 0.05, 0.9), ('sgd', 0.3)]
SOPTS_A = [SGD1, ('momentum', 0.5, 0.9), ('adam', 0.05)]
DLRS = [1.0, 0.1, 0.5]


def agnostic_configs():
  out = []
  for k in range(27):
    a, b, c = k % 3, (k // 3) % 3, (k // 9) % 3
    out.append((2 + a, 1 + b, DLRS[(a + b + c) % 3], COPTS_A[(a + c) % 3], SOPTS_A[(b + 2 * c + a) % 3]))
  return out


def gen_agnostic(rng, nd):
  sizes, doms = [], []
  for i in range(N_CLIENTS):
    if i == 0:
      n = int([8, 12][rng.randint(2)])
      ids = list(range(nd)) + rng.randint(0, nd, size=n - nd).tolist()
    else:
      n = int(SIZES[rng.randint(len(SIZES))])
      ksub = 1 if rng.rand() < 0.55 else int(rng.randint(1, nd + 1))
      sub = rng.choice(nd, size=ksub, replace=False).tolist()
      ids = (sub + [sub[j] for j in rng.randint(0, ksub, size=n).tolist()])[:n]
    sizes.append(n)
    doms.append([int(d) for d in ids])
  mode = 'all-present' if rng.rand() < 0.45 else 'free'
  rounds = int(rng.randint(3, 9))
  cohorts = gen_cohorts(rng, rounds, N_CLIENTS, must=0 if mode == 'all-present' else None,
                        avoid=0 if mode == 'free' else None)
  return dict(sizes=sizes, doms=doms, mode=mode, cohorts=cohorts, data_seed=int(rng.randint(0, 2**31 - 1)))


def gen_agnostic_block(brng, nd):
  """Constructor arguments shared by the histories of one block (one compiled algorithm object)."""
  if brng.rand() < 0.5:
    init_w = [1.0 / nd] * nd
  else:
    w = brng.uniform(0.2, 1.0, size=nd)
    init_w = (w / w.sum()).tolist()
  init_win = [1.0] * nd if brng.rand() < 0.5 else [float(v) for v in brng.randint(1, 21, size=nd)]
  return tuple(init_w), tuple(init_win), int(brng.randint(0, 2**31 - 1))


def run_agnostic(ctx, fedjax, jax, jnp, cfg, h, cache):
  nd, W, dlr, cspec, sspec, init_w, init_win, _ = cfg
  init_w, init_win = list(init_w), list(init_win)
  drng = np.random.RandomState(h['data_seed'])
  w_true = drng.randn(DIM)
  raw, base = {}, 0
  for i, n in enumerate(h['sizes']):
    c = toy.make_client(drng, n, DIM, w_true + 0.5 * drng.randn(DIM), idx_base=base)
    c['domain_id'] = np.asarray(h['doms'][i], np.int32)
    raw[cid_of(i)] = freeze(c)
    base += n
  init = toy.make_params(drng, DIM, 'flat')
  algo = cache.get(cfg)
  wit = dict(num_domains=nd, window_size=W, domain_lr=dlr, copt=cspec, sopt=sspec, sizes=h['sizes'],
             domain_ids=h['doms'], cohorts=h['cohorts'], init_weights=init_w, init_window=init_win, mode=h['mode'],
             data_seed=h['data_seed'])
  r = ctx.call('agnostic.init', algo.init, toy.tmap(jnp.asarray, init), witness=wit)
  if not r.ok:
    return ctx.case_done(None, sample=wit, klass='agnostic:raised')
  state = r.value
  hw = [np.asarray(init_win, np.float64)] * W   # harness model of the window (from the property text)
  zero_mean_round = None
  first_nan_params = None
  nontrivial = False
  ctx.klass(f'agnostic:W={W}')
  ctx.klass("agnostic:domain_algorithm=" + ('none' if cfg[-1] % 4 == 0 else 'eg'))   # 'none': weights fixed, window still slides
  ctx.klass(f'agnostic:nd={nd}')
  ctx.klass(f'agnostic:dlr={dlr}')
  for rnd, cohort_idx in enumerate(h['cohorts']):
    ids = [cid_of(i) for i in cohort_idx]
    keys = jax.random.split(jax.random.PRNGKey(rnd), len(ids))
    clients = [(cid, fedjax.ClientDataset(raw[cid]), k) for cid, k in zip(ids, keys)]
    counts = np.zeros(nd, np.float64)
    for cid in ids:
      counts += np.bincount(raw[cid]['domain_id'], minlength=nd)[:nd]
    if zero_mean_round is None and np.any(np.mean(np.stack(hw), axis=0) == 0):
      zero_mean_round = rnd   # this round scales by weights / mean(window) with a zero denominator
    if np.any(counts == 0):
      ctx.klass('agnostic:absent-domain-round')
    if len(ids) >= 2 and np.sum(counts > 0) >= 2:
      nontrivial = True
    prev_window = [np.array(w) for w in state.domain_window]
    rw = {**wit, 'round': rnd, 'cohort': cohort_idx, 'counts': counts}
    r = ctx.call('agnostic.apply', algo.apply, state, clients, witness=rw)
    if not r.ok:
      return ctx.case_done(None, sample=wit, klass='agnostic:raised')
    state, _ = r.value
    w = np.asarray(state.domain_weights)
    if first_nan_params is None and not toy.all_finite(toy.to_np(state.params)):
      first_nan_params = rnd
    finite = bool(np.all(np.isfinite(w)))
    ok = finite and w.shape == (nd,) and bool(np.all(w >= 0)) and abs(float(np.sum(w.astype(np.float64))) - 1) <= 1e-5
    key = 'agnostic/weights-not-simplex'
    if not finite and zero_mean_round is not None and zero_mean_round < rnd:
      key = 'agnostic/absent-domain-nan'
    mon(ctx, 'agnostic-simplex', ok, key,
        f'round {rnd}: domain weights {w.tolist()} are not a probability vector (finite, >=0, |sum-1|<=1e-5)'
        + (f'; a domain had no example in the whole window before round {zero_mean_round} (alpha = w/0), params first '
           f'non-finite after round {first_nan_params}' if key.endswith('nan') else ''),
        {**rw, 'weights': w, 'zero_window_mean_at_round': zero_mean_round, 'params_nonfinite_after_round': first_nan_params,
         'window': [np.asarray(x) for x in state.domain_window]})
    win = [np.asarray(x) for x in state.domain_window]
    mon(ctx, 'agnostic-window-length', isinstance(state.domain_window, (list, tuple)) and len(win) == W,
        'agnostic/window-length-changed', f'round {rnd}: window has {len(win)} entries, configured size {W}',
        {**rw, 'window': win})
    last_ok = len(win) >= 1 and win[-1].shape == (nd,) and bool(np.all(win[-1].astype(np.float64) == counts))
    mon(ctx, 'agnostic-window-last', last_ok, 'agnostic/window-last-not-round-counts',
        f"round {rnd}: last window entry {win[-1].tolist() if win else None} != this round's per-domain example counts "
        f'{counts.tolist()}', {**rw, 'window': win})
    hw = hw[1:] + [counts]
    shift_ok = len(win) == len(prev_window) and all(core.bit_equal(a, b) for a, b in zip(win[:-1], prev_window[1:]))
    model_ok = len(win) == W and all(
        bool(np.all(np.asarray(a, np.float64) == b)) for a, b in zip(win, hw))
    mon(ctx, 'agnostic-window-shift', shift_ok and model_ok, 'agnostic/window-not-shifted',
        f'round {rnd}: earlier window entries are not the previous window shifted by one',
        {**rw, 'window': win, 'previous_window': prev_window, 'expected_window': hw})
  key = ('agnostic', cfg, tuple(h['sizes']), tuple(map(tuple, h['doms'])), tuple(map(tuple, h['cohorts'])), h['data_seed'])
  klass = ['leg:agnostic', f'agnostic:mode={h["mode"]}']
  if zero_mean_round is not None:
    klass.append('agnostic:zero-window-mean-history')
  ctx.case_done(key if (nontrivial and len(h['cohorts']) >= 3) else None,
                sample=samp(ctx, 'agnostic', {'leg': 'agnostic', **wit}), klass=klass)


# ================================================================== (b) apfl
def apfl_configs():
  copts = [('sgd', 0.5), ('sgd', 0.1), ('momentum', 0.3, 0.9), ('adam', 0.1)]
  sopts = [SGD1, ('momentum', 0.5, 0.9)]
  coefs = [0.5, 0.0, 1.0, 0.25]
  out = []
  for k in range(32):
    a, b, c = k % 4, (k // 4) % 4, (k // 16) % 2
    out.append((copts[a], sopts[(c + a) % 2], coefs[(a + b) % 4], 1 + (a + b + c) % 3))
  return out


def gen_population(rng, kmax=4, groups=None):
  sizes = [int(SIZES[rng.randint(len(SIZES))]) for _ in range(N_CLIENTS)]
  rounds = int(rng.randint(3, 9))
  return dict(sizes=sizes, cohorts=gen_cohorts(rng, rounds, N_CLIENTS, kmax=kmax),
              data_seed=int(rng.randint(0, 2**31 - 1)), groups=groups or int(rng.randint(2, 4)))


def make_world(h, kind='flat', spread=1.5):
  drng = np.random.RandomState(h['data_seed'])
  centres = [drng.randn(DIM) * spread for _ in range(h['groups'])]
  raw, base = {}, 0
  for i, n in enumerate(h['sizes']):
    raw[cid_of(i)] = freeze(toy.make_client(drng, n, DIM, centres[i % len(centres)] + 0.1 * drng.randn(DIM), idx_base=base))
    base += n
  return drng, raw


def run_apfl(ctx, fedjax, jax, jnp, cfg, h, cache):
  cspec, sspec, coef, epochs = cfg
  drng, raw = make_world(h)
  init = toy.make_params(drng, DIM, 'flat')
  algo = cache.get(cfg)
  evaluate = cache.evaluate() if hasattr(cache, 'evaluate') else None
  wit = dict(copt=cspec, sopt=sspec, client_coefficient=coef, num_epochs=epochs, sizes=h['sizes'], cohorts=h['cohorts'],
             data_seed=h['data_seed'], groups=h['groups'])
  r = ctx.call('apfl.init', algo.init, toy.tmap(jnp.asarray, init), witness=wit)
  if not r.ok:
    return ctx.case_done(None, sample=wit, klass='apfl:raised')
  state = r.value
  seen = set()
  nontrivial = False
  for rnd, cohort_idx in enumerate(h['cohorts']):
    ids = [cid_of(i) for i in cohort_idx]
    keys = jax.random.split(jax.random.PRNGKey(100 + rnd), len(ids))
    clients = [(cid, fedjax.ClientDataset(raw[cid]), k) for cid, k in zip(ids, keys)]
    rw = {**wit, 'round': rnd, 'cohort': cohort_idx}
    r = ctx.call('apfl.apply', algo.apply, state, clients, witness=rw)
    if not r.ok:
      return ctx.case_done(None, sample=wit, klass='apfl:raised')
    state, _ = r.value
    seen |= set(ids)
    nontrivial = nontrivial or len(ids) >= 2
    cs = state.client_states
    mon(ctx, 'apfl-keyset', set(cs.keys()) == seen and len(cs) == len(seen), 'apfl/client-states-keyset',
        f'round {rnd}: client_states keys {sorted(cs.keys())} != union of participants so far {sorted(seen)}', rw)
    # evaluation between training rounds, on a cohort that also holds clients that never trained: evaluating is not
    # participating, the training state must come out of it with the same stored clients (and the next round's state too)
    if evaluate is not None and (rnd + h['data_seed']) % 2 == 0:
      eval_idx = sorted(set(cohort_idx) | {(rnd + j + h['data_seed']) % N_CLIENTS for j in range(3)})
      eclients = [(cid_of(i), fedjax.ClientDataset(raw[cid_of(i)])) for i in eval_idx if h['sizes'][i] > 0]
      re_ = ctx.call('apfl.eval', lambda: list(evaluate(state, eclients)), witness={**rw, 'evaluated': eval_idx})
      if re_.ok:
        ctx.count('hit:apfl-eval-between-rounds')
        if any(c not in seen for c, _ in eclients):
          ctx.count('hit:apfl-eval-with-unseen-client')
        mon(ctx, 'apfl-keyset', set(state.client_states.keys()) == seen, 'apfl/evaluation-stored-client-state',
            f'round {rnd}: after evaluating clients {eval_idx} the training state stores client states for '
            f'{sorted(state.client_states.keys())}, participants so far are {sorted(seen)}', {**rw, 'evaluated': eval_idx})
        mon(ctx, 'apfl-keyset', [c for c, _ in re_.value] == [c for c, _ in eclients], 'apfl/evaluation-client-ids',
            'APFL evaluation did not return one result per evaluated client, in order', {**rw, 'evaluated': eval_idx})
    at_boundary = False
    for cid in sorted(cs.keys()):
      co = jleaves(cs[cid].interpolation_coefficients)
      ok = len(co) > 0 and all(bool(np.all(np.isfinite(c)) and np.all(c >= 0) and np.all(c <= 1)) for c in co)
      mon(ctx, 'apfl-coef', ok, 'apfl/coefficient-outside-unit-interval',
          f'round {rnd}: client {cid!r} has an interpolation coefficient outside [0, 1]',
          {**rw, 'client': cid, 'coefficients': co})
      if 0.0 < coef < 1.0 and any(bool(np.any(c == 0) or np.any(c == 1)) for c in co):
        at_boundary = True
    if at_boundary:
      ctx.klass('apfl:coef-at-boundary')
  key = ('apfl', cfg, tuple(h['sizes']), tuple(map(tuple, h['cohorts'])), h['data_seed'])
  ctx.case_done(key if (nontrivial and len(h['cohorts']) >= 3) else None,
                sample=samp(ctx, 'apfl', {'leg': 'apfl', **wit}),
                klass=['leg:apfl', f'apfl:copt={cspec[0]}', f'apfl:coef0={coef}'])


# =========================================================== (c) hyp cluster
def hyp_configs():
  copts = [('sgd', 0.1), ('momentum', 0.05, 0.9), ('adam', 0.05)]
  sopts = [SGD1, ('momentum', 0.5, 0.9), ('adam', 0.05)]
  out = []
  for k in range(18):
    a, b, c = k % 3, (k // 3) % 3, (k // 9) % 2
    out.append((copts[(a + b) % 3], sopts[a], ['flat', 'nested'][(a + b + c) % 2], LOSS_OFFSET if k % 3 == 1 else 0.0))
  return out


def run_hyp(ctx, fedjax, jax, jnp, cfg, h, cache):
  cspec, sspec, kind, offset = cfg
  pel = _pel_offset if offset else _pel
  if offset:
    ctx.count('hyp:offset-loss')
  K = h['K']
  drng, raw = make_world(h, spread=1.5)
  inits = [toy.make_params(drng, DIM, kind, scale=1.2) for _ in range(K)]
  if offset and K >= 2 and h['data_seed'] % 3:
    # near-ties: clusters that start a few 1e-3 apart, so that a client's average losses (1000.x) differ by 1e-3 .. 1e-2 --
    # dozens of float32 ulps, yet a tiny RELATIVE difference
    inits = [toy.tmap(lambda a, k=k: (np.asarray(a) + np.float32(k * (2e-3 + 4e-3 * drng.rand()))).astype(np.float32), inits[0])
             for k in range(K)]
    ctx.count('hyp:offset-loss-near-ties')
  algo, hp_train, hp_eval = cache.get(cfg)
  wit = dict(copt=cspec, sopt=sspec, kind=kind, num_clusters=K, sizes=h['sizes'], cohorts=h['cohorts'],
             data_seed=h['data_seed'], groups=h['groups'])
  r = ctx.call('hyp_cluster.init', algo.init, [toy.tmap(jnp.asarray, p) for p in inits], witness=wit)
  if not r.ok:
    return ctx.case_done(None, sample=wit, klass='hyp:raised')
  state = r.value
  o64 = [toy.FedAvgOracle(p, cspec, sspec, np.float64) for p in inits]
  o32 = [toy.FedAvgOracle(p, cspec, sspec, np.float32) for p in inits]
  steps = [0] * K
  updated = [False] * K
  nontrivial, discarded = False, False
  ctx.klass(f'hyp:K={K}')
  ctx.klass(f'hyp:sopt={sspec[0]}')
  ctx.klass(f'hyp:copt={cspec[0]}')
  for rnd, cohort_idx in enumerate(h['cohorts']):
    ids = [cid_of(i) for i in cohort_idx]
    keys = jax.random.split(jax.random.PRNGKey(200 + rnd), len(ids))
    dsets = {cid: fedjax.ClientDataset(raw[cid]) for cid in ids}
    clients = [(cid, dsets[cid], k) for cid, k in zip(ids, keys)]
    rw = {**wit, 'round': rnd, 'cohort': cohort_idx}
    pre_params = [toy.to_np(p) for p in state.cluster_params]
    pre_state = state
    # Harness recomputation of the average losses on the pre-round cluster params.
    loss64 = {cid: [float(np.mean(toy.np_loss_sum(p, raw[cid]))) + offset for p in pre_params] for cid in ids}
    r = ctx.call('hyp_cluster.apply', algo.apply, state, clients, witness=rw)
    if not r.ok:
      return ctx.case_done(None, sample=wit, klass='hyp:raised')
    state, diag = r.value
    mon(ctx, 'hyp-shape', len(state.cluster_params) == K and len(state.opt_states) == K and set(diag.keys()) == set(ids),
        'hyp/state-shape', f'round {rnd}: {len(state.cluster_params)} cluster params / {len(state.opt_states)} opt '
        f'states for {K} clusters, diagnostics keys {sorted(diag.keys())}', rw)
    if len(state.cluster_params) != K or set(diag.keys()) != set(ids):
      return ctx.case_done(None, sample=wit, klass='hyp:raised')
    assign = {}
    for cid in ids:
      a = int(np.asarray(diag[cid]['cluster_id']))
      assign[cid] = a
      l64 = loss64[cid]
      tol = 1e-4 * max(1.0, max(abs(v) for v in l64))
      in_range = 0 <= a < K
      mon(ctx, 'hyp-argmin', in_range and l64[a] <= min(l64) + tol, 'hyp/assigned-cluster-not-min-loss',
          f'round {rnd}: client {cid!r} assigned to cluster {a} with average loss {l64[a] if in_range else None} > '
          f'minimum {min(l64)} (float64 closed form)', {**rw, 'client': cid, 'losses': l64, 'assigned': a})
      # The same judgement with fedjax.evaluate_average_loss on the pre-round params (as the design prescribes).
      lev = []
      for p in pre_state.cluster_params:
        rr = ctx.call('evaluate_average_loss', fedjax.evaluate_average_loss, p, dsets[cid].padded_batch(hp_eval),
                      jax.random.PRNGKey(0), pel, witness=rw)
        if not rr.ok:
          return ctx.case_done(None, sample=wit, klass='hyp:raised')
        lev.append(float(np.asarray(rr.value)))
      # the float32 average losses the algorithm itself computes: "minimal" up to a few units in the last place of these values
      tol_ulp = 16 * 2.0**-23 * max(1.0, max(abs(v) for v in lev))
      mon(ctx, 'hyp-argmin-eval', in_range and lev[a] <= min(lev) + tol_ulp, 'hyp/assigned-cluster-not-min-loss',
          f'round {rnd}: client {cid!r} assigned to cluster {a} with evaluate_average_loss {lev[a] if in_range else None}'
          f' > minimum {min(lev)}', {**rw, 'client': cid, 'losses': lev, 'assigned': a})
      mon(ctx, 'hyp-avgloss', all(abs(x - y) <= 1e-4 * max(1.0, abs(y)) for x, y in zip(lev, l64)),
          'hyp/evaluate-average-loss-vs-closed-form',
          f'round {rnd}: evaluate_average_loss {lev} differs from the float64 closed form {l64}', {**rw, 'client': cid})
      if not in_range:
        return ctx.case_done(None, sample=wit, klass='hyp:raised')
    if len(set(assign.values())) >= 2:
      nontrivial = True
    for k in range(K):
      mine = [cid for cid in ids if assign[cid] == k]
      got = toy.to_np(state.cluster_params[k])
      if not mine:
        same_p = trees_bit_equal(state.cluster_params[k], pre_state.cluster_params[k])
        same_s = trees_bit_equal(state.opt_states[k], pre_state.opt_states[k])
        mon(ctx, 'hyp-empty', same_p and same_s, 'hyp/empty-cluster-changed',
            f'round {rnd}: cluster {k} received no client but its ' + ('params' if not same_p else 'optimizer state')
            + ' changed', {**rw, 'cluster': k, 'params_before': pre_params[k], 'params_after': got,
                           'opt_state_before': jleaves(pre_state.opt_states[k]),
                           'opt_state_after': jleaves(state.opt_states[k]), 'assignment': assign})
        ctx.klass('hyp:empty-cluster-round')
        if updated[k]:
          ctx.klass('hyp:empty-after-update')
        continue
      cohort = []
      for cid in mine:
        batches = list(dsets[cid].shuffle_repeat_batch(hp_train))
        cohort.append((cid, len(raw[cid]['x']), batches))
        steps[k] += len(batches)
      o64[k].round(cohort)
      o32[k].round(cohort)
      updated[k] = True
      gap = toy.max_abs_diff(o32[k].params, o64[k].params)
      scale = max(1.0, toy.max_abs(o64[k].params))
      if (not toy.all_finite(o64[k].params) or gap > 1e-2 * scale or
          min(o64[k].copt.min_abs_g, o64[k].sopt.min_abs_g) < 1e-4):
        discarded = True
        ctx.klass('hyp:discard-reason=' + ('oracle-gap' if gap > 1e-2 * scale else 'adam-client-grad<1e-4' if
                                           o64[k].copt.min_abs_g < 1e-4 else 'adam-server-delta<1e-4'))
        break
      tol = 3e-5 * scale * np.sqrt(steps[k] + 1.0) + 50 * gap
      diff = toy.max_abs_diff(got, o64[k].params)
      mon(ctx, 'hyp-oracle', toy.all_finite(got) and diff <= tol, 'hyp/cluster-params-not-fedavg-of-own-clients',
          f'round {rnd}: cluster {k} params differ from the float64 FedAvg oracle over its own clients {mine} by '
          f'{diff:.3g} (tol {tol:.3g})', {**rw, 'cluster': k, 'own_clients': mine, 'assignment': assign, 'got': got,
                                         'expected': o64[k].params, 'tol': tol})
      ctx.notes['hyp_max_diff_over_tol'] = max(ctx.notes.get('hyp_max_diff_over_tol', 0.0), float(diff / tol))
    if discarded:
      ctx.count('hyp:discarded-illconditioned')
      break
  key = ('hyp', cfg, K, tuple(h['sizes']), tuple(map(tuple, h['cohorts'])), h['data_seed'])
  klass = ['leg:hyp'] + (['hyp:discarded'] if discarded else [])
  ctx.case_done(key if (nontrivial and not discarded and len(h['cohorts']) >= 3) else None,
                sample=samp(ctx, 'hyp', {'leg': 'hyp', **wit}),
                klass=klass)


# ============================================================= (d) mime lite
def mime_configs():
  opts = [('sgd', 0.5), ('momentum', 0.3, 0.9), ('adam', 0.1)]
  slrs = [1.0, 0.5, 2.0]
  clips = [0.01, 0.001, 0.05]
  out = []
  for k in range(27):
    a, b, c = k % 3, (k // 3) % 3, (k // 9) % 3
    out.append((opts[a], slrs[(a + b) % 3], clips[(a + b + c) % 3], ['flat', 'nested'][(a + c) % 2]))
    if k % 9 == 4:
      out.append((opts[(a + 1) % 3], slrs[b], 0.5, ['flat', 'nested'][c % 2]))   # "mixed": some clients unclipped
  return out


class MimeOracle:
  """MimeLite round from its description: local steps with the *fixed* server optimizer state, per-client clip by

  global norm, example-weighted mean, params -= server_lr * mean, optimizer state advanced by the full-batch gradient.
  """

  def __init__(self, params, spec, slr, clip, dtype):
    self.d = dtype
    self.params = toy.cast(params, dtype)
    self.opt = toy.NpOpt(spec, dtype)
    self.state = self.opt.init(self.params)
    self.slr, self.clip = slr, clip

  def round(self, cohort):
    d = self.d
    acc = toy.tmap(np.zeros_like, self.params)
    gacc = toy.tmap(np.zeros_like, self.params)
    tot = 0
    norms, cnorms = {}, {}
    for cid, n, batches, examples in cohort:
      p = self.params
      for b in batches:
        _, p = self.opt.apply(toy.np_grad(p, b, d), self.state, p)
      delta = toy.tmap(lambda s, c: s - c, self.params, p)
      nrm = toy.l2(delta)
      norms[cid] = nrm
      if nrm > self.clip:
        f = d(self.clip / nrm)
        delta = toy.tmap(lambda x: x * f, delta)
      cnorms[cid] = toy.l2(delta)
      acc = toy.tmap(lambda a, x: a + x * d(n), acc, delta)
      gacc = toy.tmap(lambda a, g: a + g * d(n), gacc, toy.np_grad(self.params, examples, d))
      tot += n
    mean = toy.tmap(lambda a: a / d(tot), acc)
    sg = toy.tmap(lambda a: a / d(tot), gacc)
    new_state, _ = self.opt.apply(sg, self.state, self.params)
    self.params = toy.tmap(lambda p, q: p - d(self.slr) * q, self.params, mean)
    self.state = new_state
    return norms, cnorms


def run_mime(ctx, fedjax, jax, jnp, cfg, h, cache):
  spec, slr, clip, kind = cfg
  drng, raw = make_world(h, kind)
  init = toy.make_params(drng, DIM, kind)
  algo, hp_train = cache.get(cfg)
  wit = dict(base_opt=spec, server_lr=slr, clip=clip, kind=kind, sizes=h['sizes'], cohorts=h['cohorts'],
             data_seed=h['data_seed'], groups=h['groups'])
  r = ctx.call('mime_lite.init', algo.init, toy.tmap(jnp.asarray, init), witness=wit)
  if not r.ok:
    return ctx.case_done(None, sample=wit, klass='mime:raised')
  state = r.value
  state0, band = state, None
  o64 = MimeOracle(init, spec, slr, clip, np.float64)
  o32 = MimeOracle(init, spec, slr, clip, np.float32)
  steps_total = 0
  nontrivial, discarded = False, False
  for rnd, cohort_idx in enumerate(h['cohorts']):
    ids = [cid_of(i) for i in cohort_idx]
    keys = jax.random.split(jax.random.PRNGKey(300 + rnd), len(ids))
    dsets = {cid: fedjax.ClientDataset(raw[cid]) for cid in ids}
    clients = [(cid, dsets[cid], k) for cid, k in zip(ids, keys)]
    rw = {**wit, 'round': rnd, 'cohort': cohort_idx}
    before = toy.to_np(state.params)
    r = ctx.call('mime_lite.apply', algo.apply, state, clients, witness=rw)
    if not r.ok:
      return ctx.case_done(None, sample=wit, klass='mime:raised')
    state, diag = r.value
    if rnd == 0:
      band = (clients, {c: float(np.asarray(d['delta_l2_norm'])) for c, d in diag.items() if 'delta_l2_norm' in d})
    after = toy.to_np(state.params)
    nontrivial = nontrivial or len(ids) >= 2
    # ---- bound monitors (no oracle needed)
    step = toy.l2(toy.tmap(lambda a, b: np.asarray(a, np.float64) - np.asarray(b, np.float64), after, before))
    ulp = toy.l2(toy.tmap(lambda a, b: np.spacing(np.maximum(np.abs(a), np.abs(b)).astype(np.float32)).astype(np.float64),
                          after, before))
    bound = slr * clip * (1 + 1e-5) + ulp
    mon(ctx, 'mime-server-bound', toy.all_finite(after) and step <= bound, 'mime/server-step-exceeds-clip-bound',
        f'round {rnd}: |delta server params| = {step:.6g} > server_lr*clip*(1+1e-5) = {slr * clip * (1 + 1e-5):.6g} '
        f'(+{ulp:.2g} float32 ulp)', {**rw, 'before': before, 'after': after, 'step_norm': step, 'bound': bound})
    for cid in ids:
      dg = diag.get(cid, {})
      if 'clipped_delta_l2_norm' in dg:
        cn = float(np.asarray(dg['clipped_delta_l2_norm']))
        mon(ctx, 'mime-diag-bound', np.isfinite(cn) and cn <= clip * (1 + 1e-5), 'mime/clipped-delta-norm-exceeds-clip',
            f'round {rnd}: client {cid!r} clipped_delta_l2_norm {cn} > clip {clip}',
            {**rw, 'client': cid, 'diagnostics': {k: np.asarray(v) for k, v in dg.items()}})
    # ---- float64 oracle of the clipped weighted mean
    cohort = []
    for cid in ids:
      batches = list(dsets[cid].shuffle_repeat_batch(hp_train))
      cohort.append((cid, len(raw[cid]['x']), batches, raw[cid]))
      steps_total += len(batches)
    norms64, _ = o64.round(cohort)
    o32.round(cohort)
    far = all(norms64[cid] >= 10 * clip for cid in ids)
    if far:
      ctx.klass('mime:all-far-clipped-round')
    elif any(norms64[cid] <= clip for cid in ids):
      ctx.klass('mime:some-client-unclipped-round')
    gap = toy.max_abs_diff(o32.params, o64.params)
    scale = max(1.0, toy.max_abs(o64.params))
    if not toy.all_finite(o64.params) or gap > 1e-2 * scale or o64.opt.min_abs_g < 1e-4:
      discarded = True
      ctx.count('mime:discarded-illconditioned')
      break
    tol = 1e-5 * scale * np.sqrt(steps_total + 1.0) + 50 * gap
    diff = toy.max_abs_diff(after, o64.params)
    mon(ctx, 'mime-oracle', toy.all_finite(after) and diff <= tol, 'mime/params-not-clipped-weighted-mean',
        f'round {rnd}: server params differ from the float64 oracle (params - server_lr * weighted mean of per-client '
        f'clipped deltas) by {diff:.3g} (tol {tol:.3g}; a full step is {slr * clip:.3g})',
        {**rw, 'got': after, 'expected': o64.params, 'tol': tol, 'unclipped_norms': norms64})
    ctx.notes['mime_max_diff_over_tol'] = max(ctx.notes.get('mime_max_diff_over_tol', 0.0), float(diff / tol))
  # ---- band probe: the same first round with the bound placed 0.05 % BELOW one client's unclipped update norm (an update only
  #      just above the bound must be scaled onto it like any other); a second algorithm object is needed for the other bound
  if band is not None and h['data_seed'] % 3 == 0:
    clients0, norms0 = band
    pos = sorted(c for c, v in norms0.items() if np.isfinite(v) and v > 1e-4)
    if pos:
      target = pos[h['data_seed'] % len(pos)]
      clip2 = norms0[target] / 1.0005
      hp_train2 = fedjax.ShuffleRepeatBatchHParams(batch_size=BATCH, num_epochs=1 if spec[0] == 'adam' else 2, seed=29)
      from fedjax.algorithms import mime_lite as _ml
      bw = {**wit, 'band_probe': True, 'clip': clip2, 'unclipped_norms_round0': norms0, 'target_client': target}
      rb = ctx.call('mime_lite.apply', lambda: _ml.mime_lite(_pel, toy.fedjax_optimizer(spec), hp_train2, fedjax.PaddedBatchHParams(batch_size=BATCH),
                                                            server_learning_rate=slr, client_delta_clip_norm=clip2).apply(state0, clients0), witness=bw)
      if rb.ok:
        ctx.count('hit:mime-clip-band-probe')
        for c, dg in rb.value[1].items():
          if 'clipped_delta_l2_norm' in dg:
            cn = float(np.asarray(dg['clipped_delta_l2_norm']))
            mon(ctx, 'mime-diag-bound', np.isfinite(cn) and cn <= clip2 * (1 + 1e-5), 'mime/clipped-delta-norm-exceeds-clip',
                f'band probe: client {c!r} with unclipped norm {norms0.get(c)} is aggregated with norm {cn} > clip {clip2}',
                {**bw, 'client': c})
  key = ('mime', cfg, tuple(h['sizes']), tuple(map(tuple, h['cohorts'])), h['data_seed'])
  klass = ['leg:mime', f'mime:opt={spec[0]}'] + (['mime:discarded'] if discarded else [])
  ctx.case_done(key if (nontrivial and not discarded and len(h['cohorts']) >= 3) else None,
                sample=samp(ctx, 'mime', {'leg': 'mime', **wit}),
                klass=klass)


# ==================================================== (e) ignore_grads_haiku
TEMPLATES = [
    {'lin': {'w': (3, 2), 'b': (2,)}, 'emb': {'e': (4,)}},
    {'a': {'w': (2,)}, 'b': {'w': (2,), 'scale': ()}, 'c': {'offset': (1,)}},
    {'conv': {'w': (2, 2, 1), 'b': (1,)}, 'head': {'w': (3,), 'b': ()}},
]
IG_OPTS = [('sgd', 0.1), ('momentum', 0.1, 0.9), ('adam', 0.05)]
# base optimizers whose update depends on the parameter VALUE (decoupled weight decay): an ignored parameter handed to them with
# a zero gradient would still move. Judged against the base optimizer on the pruned tree and by bit-identity (no NumPy oracle).
IG_DECAY_OPTS = [('adamw', 0.05, 0.1), ('sgd+decay', 0.1, 0.05), ('adafactor-wd', 0.05, 0.01), ('adam+decay+globalclip', 0.05, 0.3)]


def ignore_configs(thorough):
  out = []
  for t, tpl in enumerate(TEMPLATES):
    names = [(m, n) for m in sorted(tpl) for n in sorted(tpl[m])]
    mods = sorted(tpl)
    subsets = [
        (), (names[0],), tuple((mods[0], n) for n in sorted(tpl[mods[0]])), (names[1], names[-1]), tuple(names),
        tuple(names[1:]),
    ]
    if thorough:
      r = np.random.RandomState(1700 + t)
      for _ in range(4):
        k = int(r.randint(1, len(names)))
        subsets.append(tuple(names[i] for i in sorted(r.choice(len(names), size=k, replace=False).tolist())))
    for s, sub in enumerate(dict.fromkeys(subsets)):
      for o in range(3):
        out.append((t, sub, IG_OPTS[(o + s + t) % 3] if not thorough else IG_OPTS[o]))
      out.append((t, sub, IG_DECAY_OPTS[(s + t) % 4]))
      out.append((t, sub, IG_DECAY_OPTS[3]))
      if thorough:
        out.append((t, sub, IG_DECAY_OPTS[(s + t + 1) % 4]))
        out.append((t, sub, IG_DECAY_OPTS[(s + t + 2) % 4]))
  return out


def ignore_base_optimizer(fedjax, spec):
  import optax
  k = spec[0]
  if k == 'adamw':
    return fedjax.optimizers.create_optimizer_from_optax(optax.adamw(learning_rate=spec[1], weight_decay=spec[2]))
  if k == 'sgd+decay':
    return fedjax.optimizers.create_optimizer_from_optax(optax.chain(optax.add_decayed_weights(spec[2]), optax.sgd(spec[1])))
  if k == 'adafactor-wd':
    return fedjax.optimizers.adafactor(learning_rate=spec[1], weight_decay_rate=spec[2])
  if k == 'adam+decay+globalclip':
    # leaves coupled THROUGH THE PARAMETERS: the decay term of every parameter the optimizer sees enters one global norm, which
    # rescales all updates -- an ignored parameter must not be among them
    return fedjax.optimizers.create_optimizer_from_optax(optax.chain(
        optax.scale_by_adam(), optax.add_decayed_weights(spec[2]), optax.clip_by_global_norm(0.5), optax.scale(-spec[1])))
  return toy.fedjax_optimizer(spec)


def plain(tree):
  return {m: {n: np.asarray(v) for n, v in dict(sub).items()} for m, sub in dict(tree).items()}


def prune(tree, ignored):
  return {m: {n: v for n, v in sub.items() if (m, n) not in ignored} for m, sub in tree.items()}


def run_ignore(ctx, fedjax, jax, jnp, cfg, rng, cache):
  t, ignored, spec = cfg
  tpl = TEMPLATES[t]
  opt, base = cache.get(cfg)
  steps = int(rng.randint(3, 7))

  def rand_tree(lo, hi, signed=True):
    out = {}
    for m in sorted(tpl):
      out[m] = {}
      for n in sorted(tpl[m]):
        v = rng.uniform(lo, hi, size=tpl[m][n])
        if signed:
          v = v * rng.choice([-1.0, 1.0], size=tpl[m][n])
        out[m][n] = np.asarray(v, np.float32)
    return out

  params0 = rand_tree(0.1, 1.5)
  grads_seq = [rand_tree(0.05, 1.0) for _ in range(steps)]   # bounded away from 0 (Adam conditioning)
  wit = dict(template=t, shapes={m: {n: list(s) for n, s in tpl[m].items()} for m in tpl}, ignored=[list(x) for x in ignored],
             base_opt=spec, steps=steps, params0=params0, grads=grads_seq)
  jp = toy.tmap(jnp.asarray, params0)
  r = ctx.call('ignore_grads_haiku.init', opt.init, jp, witness=wit)
  if not r.ok:
    return ctx.case_done(None, sample=wit, klass='ignore:raised')
  st = r.value
  cur = jp                       # what the wrapped optimizer returned last (fed back as-is)
  bp = toy.tmap(jnp.asarray, prune(params0, ignored))
  bst = base.init(bp)
  decay = spec[0] in ('adamw', 'sgd+decay', 'adafactor-wd', 'adam+decay+globalclip')
  if decay:
    ctx.count('ignore:value-dependent-base-optimizer')
  np_opt = None if decay else toy.NpOpt(spec, np.float64)
  npp = toy.cast(prune(params0, ignored), np.float64)
  nps = None if decay else np_opt.init(npp)
  for s in range(steps):
    g = grads_seq[s]
    sw = {k: v for k, v in wit.items() if k not in ('grads',)}
    sw.update(step=s, grads_this_step=g)
    r = ctx.call('ignore_grads_haiku.apply', opt.apply, toy.tmap(jnp.asarray, g), st, cur, witness=sw)
    if not r.ok:
      return ctx.case_done(None, sample=wit, klass='ignore:raised')
    st, cur = r.value
    try:
      got = plain(cur)
    except Exception as e:  # pylint: disable=broad-except
      ctx.violation('ignore/output-not-two-level-mapping', f'step {s}: returned params are not a two-level mapping: {e}', sw)
      return ctx.case_done(None, sample=wit, klass='ignore:raised')
    bst, bp = base.apply(toy.tmap(jnp.asarray, prune(g, ignored)), bst, bp)
    if np_opt is not None:
      nps, npp = np_opt.apply(prune(g, ignored), nps, npp)
    want_b = plain(bp)
    for m in sorted(tpl):
      for n in sorted(tpl[m]):
        present = m in got and n in got[m] and got[m][n] is not None and got[m][n].dtype != object
        lw = {**sw, 'leaf': [m, n], 'got': got.get(m, {}).get(n) if present else None}
        if (m, n) in ignored:
          mon(ctx, 'ignore-ignored', present and core.bit_equal(got[m][n], params0[m][n]), 'ignore/ignored-param-changed',
              f'step {s}: ignored parameter {m}/{n} is missing or not bit-identical to its input value',
              {**lw, 'expected': params0[m][n]})
        else:
          exp = want_b[m][n]
          same = present and core.bit_equal(got[m][n], exp)
          if same:
            ctx.klass('ignore:trained-bit-exact')
          mon(ctx, 'ignore-trained', present and core.close(got[m][n], exp, rtol=2e-6, atol=1e-7),
              'ignore/trained-param-differs-from-base-optimizer',
              f'step {s}: trained parameter {m}/{n} differs from the base optimizer applied to the pruned tree',
              {**lw, 'expected': exp})
          if np_opt is not None:
            # float32 Adam computes its bias correction 1 - 0.999**t by cancellation (relative error ~6e-5/t), which moves a
            # step by up to ~lr * 4e-5 / t from the float64 rule: the absolute tolerance carries lr * 1.5e-4 for adam bases
            atol_o = 2e-6 + (1.5e-4 * float(spec[1]) if spec[0].startswith('adam') else 0.0)
            mon(ctx, 'ignore-oracle', present and core.close(got[m][n], npp[m][n], rtol=2e-5, atol=atol_o),
              'ignore/trained-param-differs-from-numpy-oracle',
              f'step {s}: trained parameter {m}/{n} differs from the float64 NumPy {spec[0]} rule on the pruned tree',
              {**lw, 'expected': npp[m][n]})
    extra = sorted((m, n) for m in got for n in got[m] if m not in tpl or n not in tpl[m])
    if extra:
      ctx.violation('ignore/unexpected-output-leaf', f'step {s}: output has extra leaves {extra}', sw)
  n_all = sum(len(v) for v in tpl.values())
  key = ('ignore', t, ignored, spec, steps, b''.join(x.tobytes() for x in toy.leaves(params0)))
  ctx.case_done(key if (0 < len(ignored) < n_all or steps >= 3) else None,
                sample=samp(ctx, 'ignore', {'leg': 'ignore', **{k: v for k, v in wit.items() if k != 'grads'},
                                            'grads_step0': grads_seq[0]}),
                klass=['leg:ignore', f'ignore:opt={spec[0]}', f'ignore:n_ignored={len(ignored)}/{n_all}'])


# ======================================================================= run
def selfcheck_loss():
  import jax.numpy as jnp
  rng = np.random.RandomState(17)
  c = toy.make_client(rng, 5, DIM)
  p = toy.make_params(rng, DIM, 'nested')
  a = np.asarray(toy.jax_per_example_loss(toy.tmap(jnp.asarray, p), {k: jnp.asarray(v) for k, v in c.items() if k != 'idx'}))
  b = toy.np_loss_sum(p, c)
  if not core.close(a, b, rtol=1e-5, atol=1e-6):
    return f'closed-form loss {b} vs jax {a}'
  return None


def run(ctx):
  import jax
  import jax.numpy as jnp
  import fedjax
  from fedjax.algorithms import apfl, hyp_cluster, mime_lite
  err = toy.selfcheck_optimizers() or selfcheck_loss()
  if err:
    raise core.Inconclusive('oracle self-check failed: ' + err)
  q = ctx.quick
  ns = ctx.nshards

  # ---- (a) agnostic
  reps, blocks = (5, 5) if q else (16, 10)
  cfgs = agnostic_configs()

  def build_agnostic(cfg):
    from fedjax.algorithms import agnostic_fed_avg
    _, W, dlr, cspec, sspec, init_w, init_win, hseed = cfg
    # init_domain_window=None (jnp.ones_like of a list) is not usable in this JAX: always passed explicitly.
    return agnostic_fed_avg.agnostic_federated_averaging(
        _pel, toy.fedjax_optimizer(cspec), toy.fedjax_optimizer(sspec),
        fedjax.ShuffleRepeatBatchHParams(batch_size=BATCH, num_epochs=1, seed=hseed),
        fedjax.PaddedBatchHParams(batch_size=BATCH), init_domain_weights=np.asarray(init_w, np.float64),
        domain_learning_rate=dlr, domain_algorithm=('none' if hseed % 4 == 0 else 'eg'), domain_window_size=W,
        init_domain_window=np.asarray(init_win, np.float32))

  cache = AlgoCache(build_agnostic, keep=1)
  for cid, rng in ctx.cases('agnostic', ns * reps * blocks):
    i = int(cid.split('/')[1])
    cfg = block_config(ctx, i, cfgs, reps)
    cfg = cfg + gen_agnostic_block(ctx.rng('agnostic-block', i % ns, (i // ns) // reps, ns), cfg[0])
    run_agnostic(ctx, fedjax, jax, jnp, cfg, gen_agnostic(rng, cfg[0]), cache)

  # ---- (b) apfl
  reps, blocks = (4, 3) if q else (10, 8)
  cfgs = apfl_configs()

  def build_apfl(cfg):
    cspec, sspec, coef, epochs = cfg
    return apfl.adaptive_personalized_federated_learning(
        toy.jax_grad_fn(), toy.fedjax_optimizer(cspec), toy.fedjax_optimizer(sspec),
        fedjax.ShuffleRepeatBatchHParams(batch_size=BATCH, num_epochs=epochs, seed=17), coef)

  cache = AlgoCache(build_apfl, keep=1)

  class MeanPrediction(fedjax.metrics.Metric):
    """Harness metric: mean of the model output (its value is irrelevant here, evaluation only has to run)."""

    def zero(self):
      return fedjax.metrics.MeanStat.new(0., 0.)

    def evaluate_example(self, example, prediction):
      return fedjax.metrics.MeanStat.new(prediction, 1.)

  def _apply_for_eval(params, batch):
    w, b = toy.unpack(params)
    return jnp.dot(batch['x'], w) + b

  toy_model = fedjax.Model(init=lambda rng_: None, apply_for_train=lambda p, b, r: _apply_for_eval(p, b),
                           apply_for_eval=_apply_for_eval, train_loss=lambda b, o: 0.5 * jnp.square(o - b['y']),
                           eval_metrics={'mean_prediction': MeanPrediction()})
  apfl_eval = apfl.eval_adaptive_personalized_federated_learning(toy_model, fedjax.PaddedBatchHParams(batch_size=BATCH))
  cache.evaluate = lambda: apfl_eval
  for cid, rng in ctx.cases('apfl', ns * reps * blocks):
    cfg = block_config(ctx, int(cid.split('/')[1]), cfgs, reps)
    run_apfl(ctx, fedjax, jax, jnp, cfg, gen_population(rng, kmax=3), cache)

  # ---- (c) hyp cluster
  reps, blocks = (6, 4) if q else (20, 8)
  cfgs = hyp_configs()

  def build_hyp(cfg):
    cspec, sspec, _, offset = cfg
    hp_train = fedjax.ShuffleRepeatBatchHParams(batch_size=BATCH, num_epochs=1 if cspec[0] == 'adam' else 2, seed=23)
    hp_eval = fedjax.PaddedBatchHParams(batch_size=BATCH)
    return (hyp_cluster.hyp_cluster(_pel_offset if offset else _pel, toy.fedjax_optimizer(cspec), toy.fedjax_optimizer(sspec), hp_eval, hp_train),
            hp_train, hp_eval)

  cache = AlgoCache(build_hyp, keep=1)
  for cid, rng in ctx.cases('hyp', ns * reps * blocks):
    i = int(cid.split('/')[1])
    cfg = block_config(ctx, i, cfgs, reps)
    h = gen_population(rng)
    h['K'] = 1 + (i // ns) % 4 if rng.rand() < 0.5 else int(rng.randint(1, 5))
    run_hyp(ctx, fedjax, jax, jnp, cfg, h, cache)

  # ---- (d) mime lite
  reps, blocks = (4, 5) if q else (12, 10)
  cfgs = mime_configs()

  def build_mime(cfg):
    spec, slr, clip, _ = cfg
    hp_train = fedjax.ShuffleRepeatBatchHParams(batch_size=BATCH, num_epochs=1 if spec[0] == 'adam' else 2, seed=29)
    return (mime_lite.mime_lite(_pel, toy.fedjax_optimizer(spec), hp_train, fedjax.PaddedBatchHParams(batch_size=BATCH),
                                server_learning_rate=slr, client_delta_clip_norm=clip), hp_train)

  cache = AlgoCache(build_mime, keep=1)
  for cid, rng in ctx.cases('mime', ns * reps * blocks):
    cfg = block_config(ctx, int(cid.split('/')[1]), cfgs, reps)
    run_mime(ctx, fedjax, jax, jnp, cfg, gen_population(rng), cache)

  # ---- (e) ignore_grads_haiku
  cfgs = ignore_configs(not q)
  reps = 3 if q else 24
  blocks = -(-len(cfgs) // ns)

  def build_ignore(cfg):
    _, ignored, spec = cfg
    base = ignore_base_optimizer(fedjax, spec)
    return fedjax.optimizers.ignore_grads_haiku(ignore_base_optimizer(fedjax, spec), [tuple(x) for x in ignored]), base

  cache = AlgoCache(build_ignore, keep=1)
  for cid, rng in ctx.cases('ignore', ns * reps * blocks):
    cfg = block_config(ctx, int(cid.split('/')[1]), cfgs, reps)
    run_ignore(ctx, fedjax, jax, jnp, cfg, rng, cache)
