"""C10 — A training round is a pure function of (server state, clients)."""
import os
import pickle
import tempfile

import numpy as np

from vmon import algos, core, toy

PROPERTY = 'C10'
LEVEL = 'exploration'
RULE = ('Seeded 3-5 round histories on the linear-regression toy world (4-6 clients of 0-7 examples, cohorts of 2-4 clients '
        'that always repeat at least one client of the previous round, fresh client keys every round, key-dependent loss '
        'in most histories) for each of the seven built-in algorithms (HypCluster with 1-3 clusters, agnostic FedAvg with '
        '2-3 domains and window 1-3, MimeLite with/without clipping, all client/server optimizer families) and 3-round '
        'histories of the aggregators mean / uniform (plain + arithmetic accounting) / rotated uniform / structured DRIVE / '
        'TernGrad inside a FedAvg-shaped loop (real fed_avg client trainer -> aggregator.apply -> SGD(1) server step). Every '
        'round: deep snapshot of the input state (containers + leaves) and of the client keys -> apply -> verify snapshot -> '
        'apply again with the same arguments -> outputs (state and diagnostics) bit-equal -> verify snapshot -> '
        'save_state/load_state through a temp file and pickle in memory -> the next round is also executed from both '
        'restored copies and must give bit-identical outputs. At the last round the same (state, clients) is replayed on a '
        'freshly constructed algorithm object and on one constructed from a re-loaded copy of the algorithm\'s module. '
        'Non-trivial: >=3 rounds completed, a client participated twice with different keys, the state changed every round; '
        'distinct by (system, hyper-parameters, sizes, cohorts).')
# Configuration shards (vmon.run): the cases of the plain shard with the given index are run once more in a process started
# under an environment the library is supposed to be indifferent to.
CONFIGS = {'quick': [], 'thorough': [{'name': 'rbg-prng', 'env': {'JAX_DEFAULT_PRNG_IMPL': 'rbg'}, 'shard': 2}]}
ASSUMPTIONS = [
    'batching uses a fixed shuffle seed (or skip_shuffle): seed=None asks for OS entropy and is outside the statement',
    'client datasets are immutable inputs (their NumPy columns are set read-only by the harness)',
    'determinism of two identical calls in one process is exact on CPU (single-threaded XLA), so outputs are compared '
    'bit-for-bit with NaN == NaN',
    'hidden state is searched for at closure level (fresh algorithm object) and at the level of the algorithm\'s / '
    'aggregator\'s own module (re-loaded copy); state hidden in fedjax.core modules shared by both copies is only visible '
    'to the two-identical-calls monitor',
    'aggkey monitor: the compression aggregators are stated to carry their random key in their state; a state key that '
    'is returned unchanged by a round is reported (the randomness would be reused or would have to live elsewhere)',
]
SYSTEMS = list(algos.ALGOS) + ['agg_mean', 'agg_uniform', 'agg_rotated', 'agg_drive', 'agg_terngrad']
SHARDS = {'quick': 8, 'thorough': 16}
SHARD_TIMEOUT = {'quick': 900, 'thorough': 3400}
MIN_HITS = {
    'quick': {**{f'rounds:{s}': 16 for s in SYSTEMS}, **{f'cont:{s}': 12 for s in SYSTEMS},
              **{f'hidden:{s}': 6 for s in SYSTEMS}, 'mon:determinism': 400, 'mon:purity': 600, 'mon:serial': 700,
              'mon:hidden': 100, 'mon:aggkey': 50, 'repeat-participation': 120, 'xproc': 6, 'xproc:agg_rotated': 1, 'history-without-jit': 4, 'hit:apply-inside-other-backend-context': 120, 'hit:state-object-edited-in-place': 120, 'algorithm-built-on-pmap': 8, 'nojit:apfl': 1, 'big-leaf-arithmetic': 1, 'hit:apfl-round-raised': 3, 'hit:apfl-big-table': 3, 'aggregator-object-used-before': 8},
    'thorough': {**{f'rounds:{s}': 250 for s in SYSTEMS}, **{f'cont:{s}': 300 for s in SYSTEMS},
                 **{f'hidden:{s}': 150 for s in SYSTEMS}, 'mon:determinism': 6000, 'mon:purity': 9000, 'mon:serial': 10000,
                 'mon:hidden': 1800, 'mon:aggkey': 800, 'repeat-participation': 2000, 'xproc': 30, 'xproc:agg_rotated': 3, 'history-without-jit': 8, 'hit:apply-inside-other-backend-context': 1800, 'hit:state-object-edited-in-place': 1800, 'algorithm-built-on-pmap': 120, 'nojit:apfl': 2, 'big-leaf-arithmetic': 3},
}
EXHAUSTIVE = {'quick': False, 'thorough': False}
TECHNIQUE = ('runtime monitoring: state sanitizer (deep container + leaf snapshots, deleted-buffer detection) + '
             'self-differential (two identical calls, restored-copy branch, fresh-object / re-loaded-module replay) along '
             'seeded multi-round histories')
LEVEL_TEXT = ('Every round of every generated history is executed by the real apply() several times: twice on the same arguments, '
              'once from a save_state/load_state copy and once from a pickle copy of the input state, and the last round again on '
              'a fresh algorithm object and on a re-loaded module; all outputs must be bit-identical and the caller\'s state '
              '(every leaf, every dict/list container) must keep its value and stay readable. Held on the histories listed in '
              'the evidence; hyper-parameters and cohorts are sampled, not enumerated.')
LEVEL_NOTE = ('No reference model is needed: the oracle is the call itself. Trusts NumPy for value snapshots and jax.Array.is_deleted() '
              'for donation detection. Only the default jit for_each_client backend is exercised.')

SIZES = [1, 2, 3, 5, 7]


# -------------------------------------------------- structural snapshot / compare
def _is_dc(x):
  return hasattr(x, '__dataclass_fields__') and not isinstance(x, type)


def _children(x):
  """(kind, type name, [(label, child)...]) for containers, None for leaves."""
  if _is_dc(x):
    return 'dataclass', type(x).__name__, [(f, getattr(x, f)) for f in x.__dataclass_fields__]
  if isinstance(x, dict) or (hasattr(x, 'keys') and hasattr(x, '__getitem__') and not hasattr(x, 'shape')):
    return 'dict', type(x).__name__, [(k, x[k]) for k in list(x.keys())]
  if isinstance(x, (list, tuple)) and not hasattr(x, 'shape'):
    return ('list' if isinstance(x, list) else 'tuple'), type(x).__name__, list(enumerate(x))
  return None


def _leaf_value(x):
  if x is None or isinstance(x, (bytes, str)):
    return x
  return np.array(x, copy=True)


def take(x):
  """Deep structural copy: containers are rebuilt as plain records, leaves keep (object, host copy of the value)."""
  ch = _children(x)
  if ch is None:
    return ('leaf', x, _leaf_value(x))
  kind, tname, items = ch
  return (kind, tname, [(k, take(v)) for k, v in items])


def _leaf_same(a, b):
  if a is None or b is None or isinstance(a, (bytes, str)) or isinstance(b, (bytes, str)):
    return type(a) is type(b) and a == b
  return core.bit_equal(a, b)


def diff_snapshot(snap, x, path=''):
  """Compares a snapshot with the current value of the same object. Yields (kind, path, detail)."""
  ch = _children(x)
  if snap[0] == 'leaf':
    if ch is not None:
      yield 'container', path, 'a leaf became a container'
      return
    if hasattr(x, 'is_deleted') and x.is_deleted():
      yield 'deleted', path, 'leaf is deleted (donated buffer)'
      return
    if snap[1] is not x and hasattr(snap[1], 'is_deleted') and snap[1].is_deleted():
      yield 'deleted', path, 'original leaf object is deleted (donated buffer)'
      return
    if not _leaf_same(snap[2], _leaf_value(x)):
      # same object with another value: written in place; another object: the holding container was updated
      yield ('changed' if snap[1] is x else 'container'), path, {'before': snap[2], 'after': _leaf_value(x)}
    return
  if ch is None:
    yield 'container', path, 'a container became a leaf'
    return
  kind, tname, items = ch
  if kind != snap[0] or tname != snap[1]:
    yield 'container', path, f'container type {snap[0]}:{snap[1]} -> {kind}:{tname}'
    return
  old_keys = [k for k, _ in snap[2]]
  new_keys = [k for k, _ in items]
  if old_keys != new_keys:
    yield 'container', path, {'keys_before': old_keys, 'keys_after': new_keys}
  new = dict(items) if kind in ('dict', 'dataclass') else dict(items)
  for k, sub in snap[2]:
    if k in new:
      yield from diff_snapshot(sub, new[k], f'{path}/{k!r}' if not isinstance(k, str) else f'{path}/{k}')


def diff_values(a, b, path=''):
  """Structural + bit-for-bit comparison of two values (outputs of two calls). Yields (path, detail)."""
  ca, cb = _children(a), _children(b)
  if (ca is None) != (cb is None):
    yield path, 'leaf vs container'
    return
  if ca is None:
    if hasattr(a, 'is_deleted') and a.is_deleted() or hasattr(b, 'is_deleted') and b.is_deleted():
      yield path, 'deleted leaf in an output'
      return
    if not _leaf_same(_leaf_value(a), _leaf_value(b)):
      yield path, {'a': _leaf_value(a), 'b': _leaf_value(b)}
    return
  if ca[0] != cb[0] or ca[1] != cb[1]:
    yield path, f'container {ca[0]}:{ca[1]} vs {cb[0]}:{cb[1]}'
    return
  ka, kb = [k for k, _ in ca[2]], [k for k, _ in cb[2]]
  if (sorted(map(repr, ka)) != sorted(map(repr, kb))) if ca[0] == 'dict' else (ka != kb):
    yield path, {'keys_a': ka, 'keys_b': kb}
    return
  db = dict(cb[2])
  for k, va in ca[2]:
    yield from diff_values(va, db[k], f'{path}/{k!r}' if not isinstance(k, str) else f'{path}/{k}')


def first(it):
  for x in it:
    return x
  return None


# ------------------------------------------------------------------- systems
class AlgoSystem:
  """apply(state, clients) -> (new_state, diagnostics) of a built-in algorithm."""

  def __init__(self, cfg):
    self.cfg = cfg
    self.name = cfg['name']
    self.kw = {k: v for k, v in cfg.items() if k not in ('name', 'system', 'backend')}

  def build(self, fresh_module=False):
    import contextlib
    import fedjax
    mod = algos.fresh_module(self.name) if fresh_module else None
    # cfg['backend'] == 'pmap': the algorithm is BUILT while the pmap for_each_client backend is selected (and applied outside)
    with (fedjax.for_each_client_backend('pmap') if self.cfg.get('backend') == 'pmap' else contextlib.nullcontext()):
      b = algos.build(self.name, module=mod, **self.kw)
    return b, (lambda state, inputs: b.algo.apply(state, inputs))

  def init(self, built, params):
    return built.init_state(params)

  def inputs(self, state, clients):
    return clients

  def advance(self, state, out):
    return out[0]


class AggSystem:
  """FedAvg-shaped loop around an aggregator: state = {'params', 'agg'}; the judged call is aggregator.apply."""

  def __init__(self, cfg):
    self.cfg = cfg
    self.name = cfg['system']
    import fedjax
    from fedjax.algorithms import fed_avg
    self.hp = fedjax.ShuffleRepeatBatchHParams(**cfg['hp'])
    self.trainer = fed_avg.create_train_for_each_client(algos.grad_fn_from_loss(algos.per_example_loss(cfg['noise'])),
                                                        toy.fedjax_optimizer(cfg['cspec']))

  def build(self, fresh_module=False):
    import jax
    from fedjax.aggregators import aggregator, compression
    c = self.cfg
    if fresh_module:
      compression = algos.fresh_module('compression', package='fedjax.aggregators')
      aggregator = algos.fresh_module('aggregator', package='fedjax.aggregators')
    rng = jax.random.PRNGKey(c['agg_seed'])
    kind = c['system']
    if kind == 'agg_mean':
      agg = aggregator.mean_aggregator()
    elif kind == 'agg_uniform':
      agg = compression.uniform_stochastic_quantizer(c['num_levels'], rng, encode_algorithm=c['encode'])
    elif kind == 'agg_rotated':
      agg = compression.rotated_uniform_stochastic_quantizer(c['num_levels'], rng)
    elif kind == 'agg_drive':
      agg = compression.structured_drive_quantizer(rng)
    elif kind == 'agg_terngrad':
      agg = compression.terngrad_quantizer(rng)
    else:
      raise ValueError(kind)

    def apply(state, inputs):
      aggregated, new_agg = agg.apply(inputs, state['agg'])
      return {'params': state['params'], 'agg': new_agg}, aggregated

    return agg, apply

  def init(self, built, params):
    import jax.numpy as jnp
    return {'params': toy.tmap(jnp.asarray, params), 'agg': built.init()}

  def inputs(self, state, clients):
    """Client deltas from the real FedAvg client trainer at the current params (harness side of the loop)."""
    sizes = {cid: len(ds) for cid, ds, _ in clients}
    out = self.trainer(state['params'], [(cid, ds.shuffle_repeat_batch(self.hp), key) for cid, ds, key in clients])
    return [(cid, delta, float(sizes[cid])) for cid, delta in out]

  def advance(self, state, out):
    import jax
    new_state, aggregated = out
    params = jax.tree_util.tree_map(lambda p, d: p - d, state['params'], aggregated)   # server SGD(1.0)
    return {'params': params, 'agg': new_state['agg']}


# ----------------------------------------------------------------- generation
CSPECS = [('sgd', 0.1), ('momentum', 0.1, 0.9), ('adam', 0.05), ('adagrad', 0.1)]
SSPECS = [('sgd', 1.0), ('sgd', 0.7), ('momentum', 0.7, 0.9), ('adam', 0.05)]


def gen_case(rng, system, quick):
  dim = int(rng.randint(1, 4))
  n_clients = int(rng.randint(4, 7))
  sizes = [int(SIZES[rng.randint(len(SIZES))]) for _ in range(n_clients)]
  is_agg = system.startswith('agg_')
  if is_agg:
    # quantizing a vector of <= 2 entries is deterministic (both entries are grid end points): use parameter vectors
    # long enough for the aggregator's randomness to be observable
    dim = int(rng.randint(5, 10))
  if not is_agg and rng.rand() < 0.25:
    sizes[rng.randint(n_clients)] = 0
  ne = [1, 2][rng.randint(2)]
  hp = dict(batch_size=int([2, 3, 4][rng.randint(3)]), num_epochs=ne, num_steps=[None, 2][rng.randint(2)],
            drop_remainder=False, skip_shuffle=bool(rng.rand() < 0.2), seed=int(rng.randint(0, 2**31 - 1)))
  cfg = dict(system=system, name=system, cspec=CSPECS[rng.randint(4)], sspec=SSPECS[rng.randint(4)], hp=hp,
             noise=0.3 if rng.rand() < 0.8 else 0.0)
  if system == 'fed_prox':
    cfg['proximal_weight'] = float([0.0, 0.01, 0.5][rng.randint(3)])
  elif system in ('mime', 'mime_lite'):
    cfg['server_learning_rate'] = float([1.0, 0.5][rng.randint(2)])
    cfg['grads_batch_size'] = int([2, 4][rng.randint(2)])
    if system == 'mime_lite':
      cfg['client_delta_clip_norm'] = [None, 0.05][rng.randint(2)]
  elif system == 'agnostic_fed_avg':
    cfg['num_domains'] = int(rng.randint(2, 4))
    cfg['domain_window_size'] = int(rng.randint(1, 4))
    cfg['domain_learning_rate'] = float([0.1, 1.0][rng.randint(2)])
    cfg['domain_algorithm'] = ['eg', 'eg', 'none'][rng.randint(3)]
    sizes = [max(s, cfg['num_domains']) for s in sizes]   # every client covers every domain (A13 is C17's business)
  elif system == 'hyp_cluster':
    cfg['num_clusters'] = int(rng.randint(1, 4))
  elif system == 'apfl':
    cfg['client_coefficient'] = float(np.round(rng.uniform(0.1, 0.9), 2))
  elif is_agg:
    cfg.pop('name')
    cfg.pop('sspec')
    cfg['agg_seed'] = int(rng.randint(0, 2**31 - 1))
    if system in ('agg_uniform', 'agg_rotated'):
      cfg['num_levels'] = int([2, 4, 16][rng.randint(3)])
    if system == 'agg_uniform':
      cfg['encode'] = [None, 'arithmetic'][rng.randint(2)]
  rounds = 3 if is_agg else int(rng.randint(3, 6))
  cohorts = []
  for r in range(rounds):
    k = int(rng.randint(2, 5))
    c = set(rng.choice(n_clients, size=min(k, n_clients), replace=False).tolist())
    if cohorts:
      c.add(int(cohorts[-1][rng.randint(len(cohorts[-1]))]))   # repeated participation
    c = sorted(c)
    if sum(sizes[i] for i in c) == 0:
      c = sorted(set(c) | {int(np.argmax(sizes))})
    if rng.rand() < 0.5:
      rng.shuffle(c)
    cohorts.append([int(i) for i in c])
  init_seed = int(rng.randint(0, 2**31 - 1))
  if not is_agg:
    cfg['backend'] = 'pmap' if init_seed % 3 == 0 else 'default'
  return dict(cfg=cfg, dim=dim, sizes=sizes, rounds=rounds, cohorts=cohorts, init_seed=init_seed)



# ---------------------------------------------- plain replay (also run in a FRESH interpreter, other PYTHONHASHSEED)
def state_digest(jax, state):
  import hashlib
  m = hashlib.sha256()
  for leaf in jax.tree_util.tree_leaves(state):
    a = np.asarray(leaf)
    m.update(str(a.dtype).encode() + str(a.shape).encode() + np.ascontiguousarray(a).tobytes())
  return m.hexdigest()


def plain_history(case, jax, fedjax):
  """Runs the history of `case` with no monitor attached; returns one state digest per round."""
  cfg = case['cfg']
  is_agg = cfg['system'].startswith('agg_')
  system = AggSystem(cfg) if is_agg else AlgoSystem(cfg)
  drng = np.random.RandomState(case['init_seed'])
  w_true = drng.randn(case['dim'])
  raw, base = {}, 0
  for i, n in enumerate(case['sizes']):
    cid = b'c%02d' % i
    raw[cid] = toy.make_client(drng, n, case['dim'], w_true, idx_base=base)
    base += n
  ids = sorted(raw)
  dsets = algos.make_datasets(raw, cfg.get('num_domains', 2))
  init = toy.make_params(drng, case['dim'], 'flat' if is_agg or drng.rand() < 0.5 else 'nested')
  if is_agg:
    init = {'w': init['w'], 'b': np.reshape(init['b'], (1,))}
  built, apply = system.build()
  state = system.init(built, init)
  out = []
  for rnd, cohort_idx in enumerate(case['cohorts']):
    cohort_ids = [ids[i] for i in cohort_idx]
    keys = jax.random.split(jax.random.PRNGKey(case['init_seed'] % 100003 + 17 * rnd), len(cohort_ids))
    clients = [(cid, dsets[cid], keys[i]) for i, cid in enumerate(cohort_ids)]
    state = system.advance(state, apply(state, system.inputs(state, clients)))
    out.append(state_digest(jax, state))
  return out


def fresh_interpreter_history(case, tmpdir, hashseed):
  """plain_history(case) in a new Python process with a different PYTHONHASHSEED (nothing but `case` crosses over)."""
  import subprocess
  import sys
  spec, res = os.path.join(tmpdir, 'xproc-case.pkl'), os.path.join(tmpdir, 'xproc-out.pkl')
  with open(spec, 'wb') as f:
    pickle.dump(case, f)
  if os.path.exists(res):
    os.remove(res)
  env = dict(os.environ)
  env['PYTHONHASHSEED'] = str(hashseed)
  p = subprocess.run([sys.executable, '-m', 'vmon.checks.c10', spec, res], env=env, capture_output=True, text=True, timeout=900,
                     cwd=os.path.dirname(os.path.dirname(os.path.dirname(os.path.abspath(__file__)))))
  if p.returncode != 0 or not os.path.exists(res):
    raise core.HarnessError(f'fresh-interpreter replay failed rc={p.returncode}: {p.stderr[-800:]}')
  with open(res, 'rb') as f:
    return pickle.load(f)

# ---------------------------------------------------------------- the monitors
def run_history(ctx, jax, fedjax, case, tmpdir):
  cfg = case['cfg']
  sname = cfg['system']
  is_agg = sname.startswith('agg_')
  system = AggSystem(cfg) if is_agg else AlgoSystem(cfg)
  drng = np.random.RandomState(case['init_seed'])
  w_true = drng.randn(case['dim'])
  raw, base = {}, 0
  for i, n in enumerate(case['sizes']):
    cid = b'c%02d' % i
    raw[cid] = toy.make_client(drng, n, case['dim'], w_true, idx_base=base)
    base += n
  ids = sorted(raw)
  dsets = algos.make_datasets(raw, cfg.get('num_domains', 2))
  for ds in dsets.values():
    for v in ds.raw_examples.values():
      v.flags.writeable = False
  init = toy.make_params(drng, case['dim'], 'flat' if is_agg or drng.rand() < 0.5 else 'nested')
  if is_agg:
    init = {'w': init['w'], 'b': np.reshape(init['b'], (1,))}   # no 0-d leaf: 0-d rotation is C18's finding A2
  wit = {'system': sname, 'cfg': cfg, 'dim': case['dim'], 'sizes': case['sizes'], 'cohorts': case['cohorts'],
         'jit_disabled': bool(case.get('nojit'))}
  entry = f'{sname}.apply'

  def guarded(what, fn, *a, w=None):
    return ctx.call(what, fn, *a, witness=w or wit)

  def done(nontrivial):
    key = (sname, repr(sorted(cfg.items(), key=str)), tuple(case['sizes']), tuple(map(tuple, case['cohorts'])))
    ctx.case_done(key if nontrivial else None, sample=wit, klass=[f'system={sname}'] + ([] if nontrivial else ['trivial']))

  r = guarded(f'{sname}.build', system.build)
  if not r.ok:
    return done(False)
  built, apply = r.value
  if cfg.get('backend') == 'pmap':
    ctx.count('algorithm-built-on-pmap')
  if is_agg and sname != 'agg_mean' and case['init_seed'] % 2:
    # the aggregator OBJECT has been used before, on another model and once on a round without clients (an aggregator is a pair
    # of functions of (clients, state): nothing about earlier calls may stick to the object) -- the history below is compared
    # with fresh objects that never saw those calls
    import jax.numpy as jnp
    other = {'w': jnp.asarray(np.linspace(-1.0, 1.0, case['dim'] + 37).astype(np.float32)), 'extra': jnp.ones((3, 2), jnp.float32)}
    try:
      s_w = built.init()
      _, s_w = built.apply([(b'warm0', other, 2.0), (b'warm1', jax.tree_util.tree_map(lambda a: a * 0.5, other), 1.0)], s_w)
      ctx.count('aggregator-object-used-before')
    except Exception:  # pylint: disable=broad-except
      ctx.count('aggregator-warm-up-raised')
  r = guarded(f'{sname}.init', system.init, built, init)
  if not r.ok:
    return done(False)
  state = r.value
  restored = {}          # 'file' / 'pickle' -> restored copy of `state`
  seen_keys = {}         # client id -> set of key bytes it participated with
  rounds_done, all_changed, repeated = 0, True, False
  last = None

  def verify_input(snap, stage, w):
    problems = list(diff_snapshot(snap, {'state': state, 'clients': key_list}))
    kinds = {}
    for kind, path, detail in problems:
      top = [p for p in path.split('/') if p][:2]
      field = top[1] if len(top) > 1 and top[0] == 'state' else (top[0] if top else '?')
      kinds.setdefault((kind, field), (path, detail))
    ok_container = not any(k[0] == 'container' for k in kinds)
    ok_changed = not any(k[0] == 'changed' for k in kinds)
    ok_deleted = not any(k[0] == 'deleted' for k in kinds)
    for (kind, field), (path, detail) in kinds.items():
      if kind == 'container':
        what = (f'entry {path} of a container of the caller\'s input state was replaced by another value'
                if isinstance(detail, dict) and 'before' in detail else
                f'container {path} of the caller\'s input state changed its key set / length / type')
        ctx.check(False, f'purity/{sname}-input-{field}-mutated', f'{stage}: {what}', {**w, 'path': path, 'detail': detail})
      elif kind == 'changed':
        ctx.check(False, f'purity/{sname}-input-leaf-changed', f'{stage}: leaf {path} of the caller\'s input changed value',
                  {**w, 'path': path, 'detail': detail})
      else:
        ctx.check(False, f'purity/{sname}-input-leaf-deleted', f'{stage}: leaf {path} of the caller\'s input is unreadable: '
                  f'{detail}', {**w, 'path': path})
    if ok_container:
      ctx.check(True, f'purity/{sname}-input-container-mutated', '')
    if ok_changed:
      ctx.check(True, f'purity/{sname}-input-leaf-changed', '')
    if ok_deleted:
      ctx.check(True, f'purity/{sname}-input-leaf-deleted', '')
    return not problems

  for rnd, cohort_idx in enumerate(case['cohorts']):
    w = {**wit, 'round': rnd}
    cohort_ids = [ids[i] for i in cohort_idx]
    keys = jax.random.split(jax.random.PRNGKey(case['init_seed'] % 100003 + 17 * rnd), len(cohort_ids))
    key_list = [keys[i] for i in range(len(cohort_ids))]
    clients = [(cid, dsets[cid], key_list[i]) for i, cid in enumerate(cohort_ids)]
    for cid, _, k in clients:
      kb = np.asarray(k).tobytes()
      if seen_keys.get(cid) and kb not in seen_keys[cid]:
        repeated = True
        ctx.count('repeat-participation')
      seen_keys.setdefault(cid, set()).add(kb)
    r = guarded(f'{sname}.inputs', system.inputs, state, clients, w=w)
    if not r.ok:
      return done(False)
    inputs = r.value
    snap = take({'state': state, 'clients': key_list})
    in_snap = take(inputs) if is_agg else None

    # (1) apply; the caller's state must keep its value and stay readable
    r1 = guarded(entry, apply, state, inputs, w=w)
    verify_input(snap, 'after the first apply' + ('' if r1.ok else ' (which raised)'), w)
    if not r1.ok:
      return done(False)
    # (2) apply again with the same arguments: same outputs
    # ... handed over in another container form with the SAME values: a tuple (algorithms take a Sequence of clients), a
    # tuple or a one-shot generator (aggregators take an Iterable of (id, params, weight))
    form = (rnd + len(inputs)) % 3
    alt = inputs if form == 0 else (tuple(inputs) if (form == 1 or not is_agg) else (x for x in list(inputs)))
    ctx.count('second-apply-form:' + ['same', 'tuple', 'generator' if is_agg else 'tuple'][form])
    r2 = guarded(entry, apply, state, alt, w=w)
    if not r2.ok:
      return done(False)
    verify_input(snap, 'after the second apply', w)
    if in_snap is not None:
      bad = first(diff_snapshot(in_snap, inputs))
      ctx.check(bad is None, f'purity/{sname}-client-params-harmed',
                f'aggregator.apply changed / deleted one of the client trees it was given: {bad and bad[:2]}', w)
    d = first(diff_values(r1.value[0], r2.value[0]))
    ctx.check(d is None, f'determinism/{sname}-new-state-differs',
              f'round {rnd}: two apply calls with the same arguments returned different new states at {d and d[0]}',
              {**w, 'where': d})
    d = first(diff_values(r1.value[1], r2.value[1]))
    ctx.check(d is None, f'determinism/{sname}-{"aggregate" if is_agg else "diagnostics"}-differs',
              f'round {rnd}: two apply calls with the same arguments returned different '
              f'{"aggregated params" if is_agg else "diagnostics"} at {d and d[0]}', {**w, 'where': d})
    if not is_agg:
      # (2b) the same call made while ANOTHER for_each_client backend is selected in this thread: the algorithm object was built
      #      before, its round is a function of (state, clients), not of what is selected around the call
      amb = 'debug' if case.get('nojit') else ['debug', 'pmap'][(rnd + case['init_seed']) % 2]
      with fedjax.for_each_client_backend(amb):
        r3 = guarded(entry + f'[inside for_each_client_backend({amb})]', apply, state, inputs, w=w)
      if r3.ok:
        ctx.count('hit:apply-inside-other-backend-context')
        d = first(diff_values(r1.value, r3.value))
        ctx.check(d is None, f'hidden/{sname}-depends-on-backend-selected-around-apply',
                  f'round {rnd}: apply of an already built algorithm gives different outputs at {d and d[0]} when called inside '
                  f'`with for_each_client_backend({amb!r})`', {**w, 'where': d, 'ambient_backend': amb})
      # (2c) the caller edits ITS state object's parameter container in place and runs the round on that object: same outputs as
      #      on an equal-valued state made of fresh containers (a round depends on the VALUE of the state, not on whether this
      #      object was passed in before)
      pc = getattr(state, 'params', None)
      if not isinstance(pc, dict):
        cps = getattr(state, 'cluster_params', None)
        pc = cps[0] if isinstance(cps, (list, tuple)) and cps and isinstance(cps[0], dict) else None
      if pc:
        k0 = sorted(pc)[0]
        old_sub = pc[k0]
        try:
          pc[k0] = jax.tree_util.tree_map(lambda l: l + 1, old_sub)
          equal = jax.tree_util.tree_map(lambda l: l, state)
          ro = guarded(entry + '[state object edited in place]', apply, state, inputs, w=w)
          re_ = guarded(entry + '[equal-valued fresh state]', apply, equal, inputs, w=w)
          # (compared BEFORE the edit is undone: an output may legitimately share an untouched container with its input)
          d = first(diff_values(re_.value, ro.value)) if ro.ok and re_.ok else None
        finally:
          pc[k0] = old_sub
        if ro.ok and re_.ok:
          ctx.count('hit:state-object-edited-in-place')
          ctx.check(d is None, f'hidden/{sname}-remembers-state-object-seen-before',
                    f'round {rnd}: after the caller changed entry {k0!r} of its state\'s parameter container in place, apply on '
                    f'that object differs at {d and d[0]} from apply on an equal-valued state built of fresh containers',
                    {**w, 'where': d, 'edited_entry': k0, 'built_on_backend': cfg.get('backend')})
      else:
        ctx.count('state-without-dict-params')
    # (3) branches continued from the restored copies of this round's input state
    for how, rs in restored.items():
      rs_snap = take(rs)
      rr = guarded(f'{sname}.apply[restored-{how}]', apply, rs, system.inputs(rs, clients) if is_agg else inputs, w=w)
      bad = first(diff_snapshot(rs_snap, rs))
      ctx.check(bad is None, f'purity/{sname}-restored-input-harmed',
                f'round {rnd}: apply changed / deleted a leaf or container of the {how}-restored state it was given: '
                f'{bad and bad[:2]}', {**w, 'restored_by': how})
      if rr.ok:
        d = first(diff_values(r1.value, rr.value))
        ctx.check(d is None, f'serial/{sname}-continuation-differs-{how}',
                  f'round {rnd}: continuing from the {how}-restored state gives a different next state/diagnostics at '
                  f'{d and d[0]}', {**w, 'where': d})
        ctx.count(f'cont:{sname}')
    # aggregator key accounting
    if is_agg and sname != 'agg_mean':
      k0, k1 = np.asarray(state['agg'].rng), np.asarray(r1.value[0]['agg'].rng)
      ctx.check(not core.bit_equal(k0, k1), f'aggkey/{sname}-state-key-not-advanced',
                f'round {rnd}: the aggregator returned its state key unchanged', {**w, 'key': k0})
    last = (state, inputs, clients, r1.value)
    new_state = system.advance(state, r1.value)
    if first(diff_values(new_state, state)) is None:
      all_changed = False
    # (4) serialise the new state: file + pickle; both must restore the same value
    restored = {}
    path = os.path.join(tmpdir, 'state.ckpt')
    rs = guarded(f'{sname}.save_state', fedjax.serialization.save_state, new_state, path, w=w)
    if rs.ok:
      rl = guarded(f'{sname}.load_state', fedjax.serialization.load_state, path, w=w)
      if rl.ok:
        restored['file'] = rl.value
    try:
      restored['pickle'] = pickle.loads(pickle.dumps(new_state))
    except Exception as e:  # pylint: disable=broad-except
      ctx.violation(f'serial/{sname}-pickle-raises-{type(e).__name__}', f'pickling the state raised {e}'[:300], w)
    # a checkpoint library that restores every leaf as a (mutable) NumPy array, Python scalars included
    try:
      restored['numpy'] = jax.tree_util.tree_map(lambda l: np.array(l), new_state)
    except Exception as e:  # pylint: disable=broad-except
      raise core.HarnessError(f'numpy restore failed: {e}')
    for how, rs_ in restored.items():
      d = first(diff_values(new_state, rs_))
      ctx.check(d is None, f'serial/{sname}-restored-state-differs-{how}',
                f'round {rnd}: the {how}-restored state differs from the saved one at {d and d[0]}', {**w, 'where': d})
    state = new_state
    rounds_done += 1
    ctx.count(f'rounds:{sname}')

  # (5) hidden state: replay the last round on a fresh object and on a re-loaded module
  if last is not None:
    st, inputs, clients, out = last
    w = {**wit, 'round': rounds_done - 1}
    for how, fm in (('instance', False), ('module', True)):
      if fm and sname == 'apfl' and cfg.get('backend') == 'pmap':
        # (harness limit: a re-loaded module has its own ClientState class; the pmap backend maps over per-client inputs of the
        #  OLD class next to outputs of the new one, which jax rejects as two different node types)
        continue
      rb = guarded(f'{sname}.build[fresh-{how}]', system.build, fm, w=w)
      if not rb.ok:
        continue
      ra = guarded(f'{sname}.apply[fresh-{how}]', rb.value[1], st, inputs, w=w)
      if ra.ok:
        d = first(diff_values(out, ra.value))
        ctx.check(d is None, f'hidden/{sname}-fresh-{how}-differs',
                  f'replaying the last round on a fresh {how} gives different outputs at {d and d[0]}: apply depends on '
                  f'state kept outside its arguments', {**w, 'where': d})
        ctx.count(f'hidden:{sname}')
  # (6) the whole history replayed in a FRESH interpreter with another PYTHONHASHSEED: outputs may depend on the values
  #     of (state, clients) only, not on process-global state such as the per-process salt of hash()
  if case.get('xproc') and rounds_done == len(case['cohorts']):
    mine = guarded(f'{sname}.plain-replay', plain_history, case, jax, fedjax)
    if mine.ok:
      other = fresh_interpreter_history(case, tmpdir, case['xproc'])
      ctx.check(mine.value == other, f'hidden/{sname}-differs-in-fresh-interpreter',
                f'the same history run in a new Python process (PYTHONHASHSEED={case["xproc"]}) produced different states from '
                f'round {next((i for i, (a, b) in enumerate(zip(mine.value, other)) if a != b), None)} on', {**wit, 'mine': mine.value, 'other': other})
      ctx.count(f'xproc:{sname}')
      ctx.count('xproc')
  done(rounds_done >= 3 and repeated and all_changed)


def run_apfl_special(ctx, jax, fedjax, rng, case_no):
  """Two situations only APFL's per-client table is exposed to: (1) a round that FAILS half-way (the user's loss raises on a later
  client) must leave the state it was given untouched, so that the next ordinary round from it gives what it gave before the
  failure; (2) a state with tens of thousands of stored clients is treated like any other (applied twice => same result, input
  table untouched)."""
  import jax.numpy as jnp
  from fedjax.algorithms import apfl as apfl_mod
  dim = 3
  drng = np.random.RandomState(int(rng.randint(2**31 - 1)))
  w_true = drng.randn(dim)
  raw = {b'q%d' % i: toy.make_client(drng, int(rng.randint(2, 7)), dim, w_true, idx_base=10 * i) for i in range(5)}
  bad = toy.make_client(drng, 4, dim + 1, None, idx_base=900)       # wrong feature width: the loss raises while tracing this client
  hp = dict(batch_size=2, num_epochs=1, num_steps=None, drop_remainder=False, skip_shuffle=False, seed=int(rng.randint(2**31 - 1)))
  built = algos.build('apfl', cspec=('sgd', 0.1), sspec=('sgd', 1.0), hp=hp, client_coefficient=0.5)
  ds = {c: fedjax.ClientDataset(v) for c, v in raw.items()}
  keys = jax.random.split(jax.random.PRNGKey(int(rng.randint(2**31 - 1))), 12)
  mode = 'failed-round' if case_no % 2 == 0 else 'big-table'
  wit = {'family': 'apfl-special', 'mode': mode}
  r = ctx.call('apfl.init', built.init_state, toy.make_params(drng, dim, 'flat'), witness=wit)
  if not r.ok:
    return ctx.case_done(None, sample=wit, klass=['apfl-special'])
  r = ctx.call('apfl.apply', built.algo.apply, r.value, [(b'q0', ds[b'q0'], keys[0]), (b'q1', ds[b'q1'], keys[1]), (b'q2', ds[b'q2'], keys[2])], witness=wit)
  if not r.ok:
    return ctx.case_done(None, sample=wit, klass=['apfl-special'])
  state1 = r.value[0]
  cohort_b = [(b'q1', ds[b'q1'], keys[3]), (b'q3', ds[b'q3'], keys[4]), (b'q0', ds[b'q0'], keys[5])]
  if mode == 'big-table':
    n_extra = int([20001, 25000, 32769, 50000][(case_no // 2) % 4])
    cs0 = state1.client_states[b'q0']
    table = dict(state1.client_states)
    table.update({b'z%06d' % i: cs0 for i in range(n_extra)})
    state1 = apfl_mod.ServerState(params=state1.params, opt_state=state1.opt_state, client_states=table)
    wit['stored_clients'] = len(table)
  snap = take(state1)
  ref = ctx.call('apfl.apply', built.algo.apply, state1, cohort_b, witness=wit)
  if not ref.ok:
    return ctx.case_done(None, sample=wit, klass=['apfl-special'])
  ctx.count('hit:apfl-' + mode)
  d = first(diff_snapshot(snap, state1))
  ctx.check(d is None, 'purity/apfl-input-state-changed', f'apply changed the state it was given ({d[0]} at {d[1]})' if d else '', {**wit, 'detail': d})
  if mode == 'failed-round':
    failing = [(b'q2', ds[b'q2'], keys[6]), (b'q4', ds[b'q4'], keys[7]), (b'bad', fedjax.ClientDataset(bad), keys[8])]
    try:
      built.algo.apply(state1, failing)
      ctx.count('failed-round-did-not-raise')
    except Exception:  # pylint: disable=broad-except
      ctx.count('hit:apfl-round-raised')
    d = first(diff_snapshot(snap, state1))
    ctx.check(d is None, 'purity/apfl-failed-round-changed-input-state',
              f'a round in which the loss raised on a later client changed the state it was given ({d[0]} at {d[1]})' if d else '',
              {**wit, 'detail': d})
  again = ctx.call('apfl.apply', built.algo.apply, state1, cohort_b, witness=wit)
  if again.ok:
    dv = first(diff_values(ref.value, again.value))
    ctx.check(dv is None, 'determinism/apfl-same-round-differs' + ('-after-failed-round' if mode == 'failed-round' else ''),
              f'the same round from the same state gives a different result at {dv[0]}' if dv else '', {**wit, 'detail': dv})
  ctx.case_done(('apfl-special', mode, case_no), sample=wit, klass=['apfl-special', 'apfl-' + mode])


def run(ctx):
  import jax
  import fedjax
  from fedjax.algorithms import apfl  # noqa: F401  (not imported by fedjax.algorithms.__init__)
  per = 8 if ctx.quick else 120
  items = [(s, j) for j in range(per) for s in SYSTEMS]
  tmpdir = tempfile.mkdtemp(prefix='vmon-c10-', dir=os.environ.get('VMON_WORK') or None)
  for cid, (system, j) in ctx.enum('hist', items):
    rng = ctx.rng('hist', system, j)
    case = gen_case(rng, system, ctx.quick)
    xsys = ('agg_uniform', 'agg_rotated', 'agg_drive', 'agg_terngrad', 'fed_avg', 'hyp_cluster', 'apfl')
    if (j == 0 and system in xsys) if ctx.quick else (j < 3):
      case['xproc'] = 1 + (j + len(system)) % 7
    if system == 'agg_uniform' and (j == 2 if ctx.quick else j in (5, 6, 7)):
      # a parameter vector with more than 2**16 entries under the arithmetic-coding option (any size threshold in the bit
      # accounting): the whole state, num_bits included, must still be a function of (state, inputs)
      case['dim'] = int([70001, 131073, 65537][j % 3])
      case['cfg']['encode'] = 'arithmetic'
      ctx.count('big-leaf-arithmetic')
    if system in ('apfl', 'fed_avg', 'mime_lite', 'hyp_cluster') and (j == 1 if ctx.quick else j in (3, 4)):
      # the whole history with jit disabled (debugging configuration): buffers handed back to the caller are then the very
      # objects the library computed with
      ctx.count('history-without-jit')
      ctx.count(f'nojit:{system}')
      with jax.disable_jit():
        # (built on the default backend and without the ambient-backend leg: pmap under disable_jit is not a configuration)
        run_history(ctx, jax, fedjax, dict(case, nojit=True, cfg=dict(case['cfg'], backend='default')), tmpdir)
      continue
    run_history(ctx, jax, fedjax, case, tmpdir)
  for cid, rng in ctx.cases('apfl-special', 8 if ctx.quick else 48):
    run_apfl_special(ctx, jax, fedjax, rng, int(cid.split('/')[1]))



if __name__ == '__main__':
  # child of fresh_interpreter_history: argv = [case.pkl, out.pkl]
  import sys as _sys
  _sys.path.insert(0, os.environ.get('FEDJAX_REPO', '/repo'))
  import jax as _jax
  import fedjax as _fedjax
  from fedjax.algorithms import apfl as _apfl  # noqa: F401
  with open(_sys.argv[1], 'rb') as _f:
    _case = pickle.load(_f)
  _out = plain_history(_case, _jax, _fedjax)
  with open(_sys.argv[2], 'wb') as _f:
    pickle.dump(_out, _f)

TECHNIQUE += '; histories under jax.disable_jit; APFL failed-round and 2e4-5e4-client-table probes'
TECHNIQUE += "; apply inside another for_each_client_backend context; algorithms built on the pmap backend; the caller's state object edited in place vs an equal-valued fresh state"
RULE += " Wave-8 addition: a third of the algorithm histories are built while the pmap backend is selected; every round is also applied inside `with for_each_client_backend('debug'|'pmap')` (bit-identical outputs required) and, after an in-place edit of the caller's own parameter container, on that object and on an equal-valued state of fresh containers (identical outputs required)."
