"""C09 — An interrupted experiment resumes to the uninterrupted result (fault enumeration)."""
import hashlib
import os
import re
import shutil
import subprocess
import sys
import tempfile

import numpy as np

from vmon import core, failpoint

PROPERTY = 'C09'
LEVEL = 'fault_enumeration'
RULE = ('Configurations (num_rounds 0..5 x checkpoint_frequency {0,1,2,3} x keep {1,2,3} x eval_frequency {0,1,2}, with/without '
        'final-eval functions, with distractor files) of the real run_federated_experiment with a hash-chain algorithm (state = '
        'sha256 of the whole history) or real FedAvg. For each configuration the sys.monitoring failpoint engine records every '
        'dynamic LINE event of federated_experiment.py/checkpoint.py/logging.py and serialization.save_state/load_state in an '
        'uninterrupted reference run; then a crash is injected at every such event (quick: 6 configurations exhaustively; thorough: '
        'all configurations) and both the kill image (directory as the OS holds it at the crash instant) and the exception image '
        '(after with/finally unwinding) are audited and restarted; torn writes at every byte-prefix class {0,1,len/2,len-1} of every '
        'file written through GFile; sampled sequences of 2-3 successive faults; real os._exit kills in sub-processes (thorough). '
        'Non-trivial: the crash left at least one file or completed at least one round; distinct by (configuration, file:line, '
        'ordinal, image).')
ASSUMPTIONS = [
    'tf.summary.scalar/histogram are stubbed in the harness (TensorBoard is not installed here; event files are not compared)',
    'a restart is the same call with freshly constructed sampler/init_state objects (as a new process would build them)',
    'crash granularity is the source line of the four experiment modules plus byte-prefix tearing of GFile writes; crashes '
    'inside C extensions between two Python lines are represented by the kill image (buffered data not yet flushed is lost)',
    'root_dir is on a POSIX file system where rename is atomic; no fsync/power-loss model',
]
SHARDS = {'quick': 8, 'thorough': 14}
SHARD_TIMEOUT = {'quick': 900, 'thorough': 3400}
EXHAUSTIVE = {'quick': False, 'thorough': False}
MIN_HITS = {
    'quick': {'mon:ckpt': 2000, 'mon:resume': 2000, 'crash:line': 1000, 'crash:torn': 60, 'crash:fsop': 100, 'fsop:rename': 10, 'fsop:remove': 5, 'fsop:close': 20, 'crash:sequence': 30,
              'image:kill': 1000, 'image:exception': 1000, 'mon:keep': 500, 'crash-in:save_state': 30,
              'crash-in:save_checkpoint': 50, 'crash-after-last-round': 30, 'restart-past-last-round': 8,
              'world:fedavg': 20, 'world:jaxmix': 2, 'crash:realkill': 2},
    'thorough': {'mon:ckpt': 40000, 'mon:resume': 40000, 'crash:line': 20000, 'crash:torn': 1000, 'crash:fsop': 800,
                 'fsop:rename': 100, 'fsop:remove': 30, 'fsop:close': 200, 'crash:sequence': 1500,
                 'image:kill': 20000, 'image:exception': 20000, 'mon:keep': 10000, 'crash-in:save_state': 500,
                 'crash-in:save_checkpoint': 400, 'crash-after-last-round': 500, 'restart-past-last-round': 60,
                 'world:fedavg': 200, 'crash:realkill': 20, 'world:jaxmix': 10},
}
TECHNIQUE = 'runtime fault injection: sys.monitoring failpoints at every executed line + torn GFile writes + real kills; restart-equivalence oracle against an uninterrupted reference run'
LEVEL_TEXT = ('Single crashes are enumerated at every dynamic line event of the experiment loop, checkpointing, logging and state '
              'serialization for each covered configuration (complete for those configurations at line granularity), with both crash '
              'images audited and restarted; torn writes, multi-crash sequences and real process kills are sampled. Every restart is '
              'compared with an uninterrupted reference (hash-chained state makes equality mean "every round exactly once, in order").')
LEVEL_NOTE = ('Trusts the failpoint engine (sys.monitoring) and the harness stubs of tf.summary; crash points inside native code are '
              'only approximated by the kill image and byte-prefix tearing.')

CKPT_RE = re.compile(r'^checkpoint_[0-9]{8}$')
DISTRACTORS = {
    'checkpoint_0000099': b'seven digits: not a checkpoint name',
    'xcheckpoint_00000098': b'wrong prefix',
    'notes.txt': b'unrelated file',
}
SOFT_DISTRACTORS = {'checkpoint_00000002.bak': b'backup-like name'}


# ------------------------------------------------------------------- worlds
class World:

  def __init__(self, kind, rng, fedjax, jnp):
    from fedjax.training import federated_experiment as fe
    self.kind = kind
    self.fe = fe
    self.fedjax = fedjax
    n = int(rng.randint(3, 8))
    data = {}
    base = 0
    for i in range(n):
      m = int(rng.randint(1, 6))
      x = rng.uniform(-1, 1, size=(m, 2)).astype(np.float32)
      data[b'cl%d' % i] = {'x': x, 'y': (x @ np.array([1.0, -2.0]) + 0.1 * rng.randn(m)).astype(np.float32),
                           'idx': np.arange(base, base + m)}
      base += m
    self.fd = fedjax.InMemoryFederatedData(data)
    self.cohort = int(rng.randint(1, n + 1))
    self.sampler_seed = int(rng.randint(0, 2**31 - 1))
    if kind == 'hash':

      # The state mixes leaf kinds on purpose: uint8 array, Python int, Python float and a reduced-precision array
      # whose update depends on NumPy's promotion rules (a Python float is weakly typed, a 0-d float64 array is not).
      # ... plus a slot that is None until the first round fills it (the state's tree STRUCTURE changes after round 1) and a
      # plain dict used as an LRU table: its insertion order (not its sorted order) is part of the state
      def init():
        return {'h': np.zeros(32, np.uint8), 'round': 0, 'lr': 0.5, 'p16': np.linspace(-1, 1, 4).astype(np.float16),
                'mom': None, 'lru': {'zeta': 0, 'alpha': 0, 'mike': 0}}

      def apply(state, clients):
        m = hashlib.sha256()
        m.update(state['h'].tobytes())
        m.update(str(state['round'] + 1).encode())
        for cid, ds, key in clients:
          m.update(cid)
          m.update(np.asarray(key).tobytes())
          m.update(np.ascontiguousarray(ds.raw_examples['x']).tobytes())
        p16 = state['p16'] * state['lr'] + np.float16(m.digest()[0] / 256.0)
        m.update(np.asarray(p16).tobytes())
        m.update(str(np.asarray(p16).dtype).encode())
        mom = np.zeros(2, np.float32) if state['mom'] is None else state['mom'] * np.float32(0.5) + np.float32(m.digest()[1])
        m.update(mom.tobytes())
        lru = dict(state['lru'])
        hot = sorted(lru)[m.digest()[2] % len(lru)]
        lru[hot] = lru.pop(hot) + 1                       # move to the end, as an LRU table does
        m.update(repr(list(lru.items())).encode())        # the ORDER of the table feeds the next state
        return {'h': np.frombuffer(m.digest(), np.uint8).copy(), 'round': state['round'] + 1, 'lr': state['lr'],
                'p16': p16, 'mom': mom, 'lru': lru}, {}

      self.algo = fedjax.FederatedAlgorithm(init, apply)
      self.init_state = init
    elif kind == 'jaxmix':
      # jax.Array state whose evolution depends on JAX's type promotion: a reduced-precision parameter vector, a WEAKLY typed
      # scalar made from a Python number (bf16 * weak float stays bf16; bf16 * float32 becomes float32) and an int counter
      pdt = [jnp.bfloat16, jnp.float16][int(rng.randint(2))]

      def init():
        return {'p': jnp.linspace(-1, 1, 4).astype(pdt), 'scale': jnp.asarray(0.25), 'round': jnp.asarray(0)}

      def apply(state, clients):
        m = hashlib.sha256()
        m.update(np.asarray(state['p']).tobytes())
        for cid, ds, key in clients:
          m.update(cid)
          m.update(np.asarray(key).tobytes())
          m.update(np.ascontiguousarray(ds.raw_examples['x']).tobytes())
        bump = m.digest()[0] / 256.0
        return {'p': state['p'] * state['scale'] + bump, 'scale': state['scale'], 'round': state['round'] + 1}, {}

      self.algo = fedjax.FederatedAlgorithm(init, apply)
      self.init_state = init
    else:
      from vmon import toy
      from fedjax.algorithms import fed_avg
      grad_fn = toy.jax_grad_fn()
      hp = fedjax.ShuffleRepeatBatchHParams(batch_size=2, num_epochs=1, seed=int(rng.randint(2**31 - 1)))
      self.algo = fed_avg.federated_averaging(grad_fn, fedjax.optimizers.sgd(0.1), fedjax.optimizers.sgd(1.0, momentum=0.9), hp)
      p0 = toy.tmap(jnp.asarray, toy.make_params(rng, 2, 'flat'))
      self.init_state = lambda: self.algo.init(p0)

    world = self

    class Ev(fe.EvaluationFn):

      def __init__(self, tag):
        self.tag = tag

      def __call__(self, state, round_num):
        return {'round_num': round_num, 'digest': world.digest(state), 'tag': self.tag}

    class TrainEv(fe.TrainClientsEvaluationFn):

      def __call__(self, state, round_num, train_clients):
        return {'n': len(train_clients), 'round_num': round_num}

    self.Ev, self.TrainEv = Ev, TrainEv

  def digest(self, state):
    if self.kind == 'hash':
      return (state['h'].tobytes().hex()[:16] + f":{state['round']}:{np.asarray(state['p16']).dtype}:" + ','.join(state['lru']) +
              f":{None if state['mom'] is None else state['mom'].tolist()}")
    import jax
    leaves = jax.tree_util.tree_leaves(state)
    return hashlib.sha256(b''.join(str(np.asarray(l).dtype).encode() + np.asarray(l).tobytes() for l in leaves)).hexdigest()[:16]

  def same_state(self, a, b):
    """Same pytree structure, same leaf kinds (Python scalar / NumPy / JAX array), same dtypes, same values."""
    import jax
    la, ta = jax.tree_util.tree_flatten(a)
    lb, tb = jax.tree_util.tree_flatten(b)
    if ta != tb:
      return False
    if self.kind == 'hash' and (list(a['lru'].items()) != list(b['lru'].items()) or (a['mom'] is None) != (b['mom'] is None)):
      return False      # insertion order of the table / presence of the lazily created slot
    for x, y in zip(la, lb):
      kx = 'jax' if isinstance(x, jax.Array) else ('np' if isinstance(x, (np.ndarray, np.generic)) else type(x).__name__)
      ky = 'jax' if isinstance(y, jax.Array) else ('np' if isinstance(y, (np.ndarray, np.generic)) else type(y).__name__)
      if kx != ky:
        return False
      if kx in ('jax', 'np') and (np.asarray(x).dtype != np.asarray(y).dtype or np.shape(x) != np.shape(y)):
        return False
      if kx == 'jax' and bool(getattr(x, 'weak_type', False)) != bool(getattr(y, 'weak_type', False)):
        return False      # a weakly typed scalar promotes differently from a strongly typed one in every later round
      if self.kind in ('hash', 'jaxmix'):
        if not core.bit_equal(np.asarray(x), np.asarray(y)):
          return False
      elif not core.close(x, y, rtol=1e-6, atol=1e-7):
        return False
    return True

  def run(self, root, cfg, record_states=None):
    fe, fedjax = self.fe, self.fedjax
    config = fe.FederatedExperimentConfig(root_dir=root, num_rounds=cfg['num_rounds'],
                                          checkpoint_frequency=cfg['ckpt'], num_checkpoints_to_keep=cfg['keep'],
                                          eval_frequency=cfg['eval'])
    sampler = fedjax.client_samplers.UniformGetClientSampler(self.fd, self.cohort, self.sampler_seed)
    algo = self.algo
    if record_states is not None:
      base_apply = algo.apply
      counter = [None]

      def apply(state, clients):
        out = base_apply(state, clients)
        record_states.append(out[0])
        return out

      algo = fedjax.FederatedAlgorithm(algo.init, apply)
    periodic = {'p': self.Ev('p'), 'tc': self.TrainEv()} if cfg['eval'] else {}
    final = {'final': self.Ev('f'), 'final2': self.Ev('g')} if cfg['final'] else {}
    return fe.run_federated_experiment(algo, self.init_state(), sampler, config, periodic, final)


def list_dir(root):
  out = {}
  for dp, dn, fn in os.walk(root):
    for f in fn:
      p = os.path.join(dp, f)
      rel = os.path.relpath(p, root)
      if 'tfevents' in rel:
        continue
      try:
        with open(p, 'rb') as fh:
          out[rel] = fh.read()
      except OSError:
        out[rel] = None
  return out


def fresh_root(work, cfg):
  root = tempfile.mkdtemp(dir=work, prefix='exp-')
  if cfg['distractors']:
    for name, data in {**DISTRACTORS, **SOFT_DISTRACTORS}.items():
      with open(os.path.join(root, name), 'wb') as f:
        f.write(data)
    os.makedirs(os.path.join(root, 'checkpoint_subdir'), exist_ok=True)
  return root


def gen_config(rng, idx, quick):
  lattice = [(r, c, k, e) for r in range(0, 6) for c in (0, 1, 2, 3) for k in (1, 2, 3) for e in (0, 1, 2)]
  r, c, k, e = lattice[(idx * 37 + int(rng.randint(len(lattice)))) % len(lattice)] if idx >= 8 else [
      (4, 2, 2, 1), (3, 1, 1, 0), (5, 3, 2, 2), (2, 1, 3, 1), (4, 1, 2, 0), (0, 1, 1, 0), (1, 2, 1, 1), (5, 2, 1, 0)][idx]
  return {'num_rounds': r, 'ckpt': c, 'keep': k, 'eval': e, 'final': bool(idx % 5 != 3), 'distractors': bool(idx % 2 == 0)}


class Monitor:
  """Audits directory images and restarts."""

  def __init__(self, ctx, world, cfg, ref_state, ref_tsv, states_by_round, load_state):
    self.ctx, self.world, self.cfg = ctx, world, cfg
    self.ref_state, self.ref_tsv, self.S = ref_state, ref_tsv, states_by_round
    self.load_state = load_state

  def wit(self, extra):
    return {'config': self.cfg, 'world': self.world.kind, **extra}

  def audit_image(self, root, where):
    """Every file visible under a final checkpoint name must be complete, loadable and correct."""
    ctx = self.ctx
    for name in sorted(os.listdir(root)):
      if not CKPT_RE.match(name):
        continue
      rnd = int(name.split('_')[1])
      path = os.path.join(root, name)
      try:
        st = self.load_state(path)
      except Exception as e:  # pylint: disable=broad-except
        ctx.check(False, 'ckpt/visible-but-unloadable',
                  f'{name} is visible under its final name but load_state raises {type(e).__name__}',
                  self.wit({**where, 'file': name, 'size': os.path.getsize(path)}))
        continue
      ok = rnd in self.S and self.world.same_state(st, self.S[rnd])
      ctx.check(ok, 'ckpt/visible-wrong-content', f'{name} does not hold the uninterrupted state of round {rnd}',
                self.wit({**where, 'file': name}))

  def restart_and_compare(self, root, where):
    ctx, cfg = self.ctx, self.cfg
    r = ctx.call('run_federated_experiment[restart]', self.world.run, root, cfg, witness=self.wit(where))
    ctx.count('mon:resume')
    if not r.ok:
      return False
    ctx.check(self.world.same_state(r.value, self.ref_state), 'resume/final-state-differs',
              'restarted run returned a final state different from the uninterrupted run', self.wit(where))
    files = list_dir(root)
    tsv = {k: v for k, v in files.items() if k.endswith('.tsv')}
    ctx.check(tsv == self.ref_tsv, 'resume/final-eval-output-differs',
              f'final-eval files after restart {sorted(tsv)} differ from the uninterrupted run', self.wit({**where, 'got': {
                  k: (v or b'').decode('latin1') for k, v in tsv.items()}, 'expected': {k: v.decode('latin1') for k, v in self.ref_tsv.items()}}))
    self.audit_image(root, {**where, 'phase': 'after-restart'})
    # NOTE: the number of checkpoints is only bounded 'after every save' (hook on save_checkpoint): a crash between
    # writing the new checkpoint and deleting the old ones, followed by a restart that has no round left to run, legitimately
    # leaves keep+1 files behind.
    if cfg['distractors']:
      for name, data in DISTRACTORS.items():
        ctx.check(files.get(name) == data, 'ckpt/non-checkpoint-file-touched', f'{name} was removed or modified', self.wit(where))
    return True


def install_keep_hook(ctx, checkpoint_mod):
  orig = checkpoint_mod.save_checkpoint

  def save_checkpoint(root_dir, state, round_num=0, keep=1):
    out = orig(root_dir, state, round_num, keep)
    names = sorted(n for n in os.listdir(root_dir) if CKPT_RE.match(n))
    nums = [int(n.split('_')[1]) for n in names]
    ctx.check(len(names) <= keep, 'keep/too-many-after-save', f'{len(names)} checkpoints after save_checkpoint(keep={keep})',
              {'names': names, 'round': round_num})
    ctx.check(bool(nums) and max(nums) == round_num, 'keep/newest-not-saved-round',
              f'after saving round {round_num} the newest visible checkpoint is {max(nums) if nums else None}', {'names': names})
    return out

  checkpoint_mod.save_checkpoint = save_checkpoint


class Tearing:
  """File-system fault layer over tf.io.gfile (harness side, repo untouched).

  * tears the j-th file written through GFile under `root` at byte offset n (writes the prefix, flushes, raises Crash);
  * numbers every file-system effect under `root` (GFile open-for-write, write, close, rename, remove) and can crash
    right AFTER effect number `crash_after_op`, first handing the directory as the OS holds it to `on_fire`.
  """

  def __init__(self, tf, root, target_open, nbytes, crash_after_op=None, on_fire=None):
    self.tf, self.root, self.target_open, self.nbytes = tf, os.path.realpath(root), target_open, nbytes
    self.crash_after_op, self.on_fire = crash_after_op, on_fire
    self.opens = 0
    self.fired = None
    self.sizes = {}
    self.ops = []

  def _inside(self, name):
    return os.path.realpath(str(name)).startswith(self.root)

  def _op(self, kind, name):
    i = len(self.ops)
    self.ops.append((kind, os.path.basename(str(name))))
    if self.crash_after_op is not None and i == self.crash_after_op and self.fired is None:
      self.fired = (kind, os.path.basename(str(name)), i)
      if self.on_fire:
        self.on_fire(self.fired)
      raise failpoint.Crash(failpoint.Event(str(name), 0, 'fsop:' + kind, i))

  def __enter__(self):
    gf = self.tf.io.gfile
    real = gf.GFile
    tearing = self
    self.real, self.real_rename, self.real_remove = real, gf.rename, gf.remove

    class TearingGFile(real):

      def __init__(self, name, mode='r'):
        super().__init__(name, mode)
        self._vm_idx = None
        if 'w' in mode and tearing._inside(name):
          self._vm_idx = tearing.opens
          tearing.opens += 1
          self._vm_written = 0
          self._vm_name = str(name)
          self._vm_closed = False
          super().write(b'' if 'b' in mode else '')   # make the open visible (creates the file) like open(..., 'w')
          tearing._op('open-w', name)

      def write(self, data):
        if self._vm_idx is None:
          return super().write(data)
        b = data.encode() if isinstance(data, str) else bytes(data)
        if self._vm_idx == tearing.target_open and tearing.fired is None and tearing.nbytes is not None:
          room = tearing.nbytes - self._vm_written
          if room < len(b):
            if room > 0:
              super().write(data[:room])
            self.flush()
            tearing.fired = (self._vm_name, tearing.nbytes)
            raise failpoint.Crash(failpoint.Event(self._vm_name, 0, 'GFile.write', -1))
        self._vm_written += len(b)
        tearing.sizes[self._vm_idx] = (self._vm_name, self._vm_written)
        out = super().write(data)
        tearing._op('write', self._vm_name)
        return out

      def close(self):
        out = super().close()
        if self._vm_idx is not None and not self._vm_closed:
          self._vm_closed = True
          tearing._op('close', self._vm_name)
        return out

    def rename(src, dst, overwrite=False):
      out = tearing.real_rename(src, dst, overwrite)
      if tearing._inside(dst):
        tearing._op('rename', dst)
      return out

    def remove(path):
      out = tearing.real_remove(path)
      if tearing._inside(path):
        tearing._op('remove', path)
      return out

    gf.GFile, gf.rename, gf.remove = TearingGFile, rename, remove
    return self

  def __exit__(self, *a):
    gf = self.tf.io.gfile
    gf.GFile, gf.rename, gf.remove = self.real, self.real_rename, self.real_remove
    return False


def run_config(ctx, world, cfg, work, rng, mods, exhaustive, max_line_points):
  fe, checkpoint_mod, serialization, flog, tf = mods
  targets = [fe.__file__, checkpoint_mod.__file__, (serialization.__file__, ['save_state', 'load_state']), flog.__file__]
  w0 = {'config': cfg, 'world': world.kind}

  # ---------------- uninterrupted reference run (recorded)
  root = fresh_root(work, cfg)
  states = []
  with Tearing(tf, root, -1, None) as sizes_probe:
    with failpoint.Recorder(targets) as rec:
      r = ctx.call('run_federated_experiment[uninterrupted]', world.run, root, cfg, states, witness=w0)
  if not r.ok:
    shutil.rmtree(root, ignore_errors=True)
    ctx.case_done(None, klass='reference-run-raised')
    return
  ref_state = r.value
  S = {i + 1: s for i, s in enumerate(states)}
  ref_files = list_dir(root)
  ref_tsv = {k: v for k, v in ref_files.items() if k.endswith('.tsv')}
  events = rec.events
  written = dict(sizes_probe.sizes)  # open index -> (name, total bytes)
  fsops = list(sizes_probe.ops)
  mon = Monitor(ctx, world, cfg, ref_state, ref_tsv, S, serialization.load_state)
  mon.audit_image(root, {'phase': 'reference-end'})
  # running the same call again on the completed directory (crash after everything was done, then restart)
  mon.restart_and_compare(root, {'phase': 'rerun-after-completion'})
  ctx.count('restart-past-last-round')
  shutil.rmtree(root, ignore_errors=True)
  if cfg['final']:
    ctx.check(len(ref_tsv) == 2, 'resume/final-eval-missing', 'uninterrupted run wrote no final-eval files', w0)

  last_round_line = None
  for ev in events:
    if ev.func.endswith('save_state'):
      pass

  def one_fault(root, fault):
    """Runs the call under one fault. Returns (fired, kill_image_dir or None, event)."""
    kill_dir = [None]
    if fault[0] == 'line':

      def on_fire(ev):
        d = tempfile.mkdtemp(dir=work, prefix='kill-')
        shutil.rmtree(d)
        shutil.copytree(root, d)
        kill_dir[0] = d

      inj = failpoint.Injector(targets, fault[1], on_fire=on_fire)
      try:
        with inj:
          ctx.call('run_federated_experiment[rerun-under-fault]', world.run, root, cfg, witness={**w0, 'fault': list(fault)})
      except failpoint.Crash:
        pass
      return inj.fired, kill_dir[0], inj.event
    elif fault[0] == 'fsop':

      def on_fire_fs(info):
        d = tempfile.mkdtemp(dir=work, prefix='kill-')
        shutil.rmtree(d)
        shutil.copytree(root, d)
        kill_dir[0] = d

      t = Tearing(tf, root, -1, None, crash_after_op=fault[1], on_fire=on_fire_fs)
      try:
        with t:
          ctx.call('run_federated_experiment[rerun-under-fault]', world.run, root, cfg, witness={**w0, 'fault': list(fault)})
      except failpoint.Crash:
        pass
      return t.fired is not None, kill_dir[0], t.fired
    else:
      t = Tearing(tf, root, fault[1], fault[2])
      try:
        with t:
          ctx.call('run_federated_experiment[rerun-under-fault]', world.run, root, cfg, witness={**w0, 'fault': list(fault)})
      except failpoint.Crash:
        pass
      return t.fired is not None, None, t.fired

  # ---------------- single crash at every dynamic line event
  points = list(range(len(events)))
  if not exhaustive and len(points) > max_line_points:
    points = sorted(rng.choice(len(events), size=max_line_points, replace=False).tolist())
  last_apply_ord = max([e.ordinal for e in events if 'algorithm.apply' in ''] + [-1])
  nrounds = cfg['num_rounds']
  for k in points:
    ev = events[k]
    root = fresh_root(work, cfg)
    res = core.Ok(one_fault(root, ('line', k)))
    fired, kill_dir, got_ev = res.value
    where = {'fault': 'line', 'ordinal': k, 'at': f'{os.path.basename(ev.file)}:{ev.line}', 'func': ev.func}
    if not fired or (got_ev.line, got_ev.func) != (ev.line, ev.func):
      ctx.inconclusive_because(f'non-deterministic replay: event {k} expected {ev.line}/{ev.func} got {got_ev}')
      shutil.rmtree(root, ignore_errors=True)
      continue
    ctx.count('crash:line')
    fn = ev.func.split('.')[-1]
    if fn in ('save_state', 'save_checkpoint', 'load_state', 'load_latest_checkpoint', 'log'):
      ctx.count('crash-in:' + fn)
    files_now = list_dir(root)
    done_rounds = len([1 for n in files_now if CKPT_RE.match(n)])
    for image, d in (('exception', root), ('kill', kill_dir)):
      if d is None:
        continue
      ctx.count('image:' + image)
      w = {**where, 'image': image}
      mon.audit_image(d, {**w, 'phase': 'crash-instant'})
      ctx.count('mon:ckpt')
      mon.restart_and_compare(d, w)
      nontrivial = bool(os.listdir(d))
      ctx.case_done((tuple(sorted(cfg.items())), world.kind, ev.line, ev.func, k, image) if nontrivial else None,
                    sample={**w0, **w} if k % 97 == 0 else None, klass=['line-crash', 'image-' + image])
      shutil.rmtree(d, ignore_errors=True)
    if ev.file == fe.__file__ and ev.line >= 240:
      ctx.count('crash-after-last-round')

  # ---------------- crash right after every file-system effect (open/write/close/rename/remove under root_dir)
  for j, (kind, fname) in enumerate(fsops):
    root = fresh_root(work, cfg)
    fired, kill_dir, info = one_fault(root, ('fsop', j))
    if not fired or info[:2] != (kind, fname):
      ctx.inconclusive_because(f'non-deterministic fs-op replay: op {j} expected {(kind, fname)} got {info}')
      shutil.rmtree(root, ignore_errors=True)
      continue
    ctx.count('crash:fsop')
    ctx.count('fsop:' + kind)
    for image, d in (('exception', root), ('kill', kill_dir)):
      w = {'fault': 'after-fs-effect', 'op': kind, 'file': fname, 'op_index': j, 'image': image}
      ctx.count('image:' + image)
      mon.audit_image(d, {**w, 'phase': 'crash-instant'})
      ctx.count('mon:ckpt')
      mon.restart_and_compare(d, w)
      ctx.case_done((tuple(sorted(cfg.items())), world.kind, 'fsop', j, kind, fname, image), sample={**w0, **w} if j % 11 == 0 else None,
                    klass=['fsop-crash', 'image-' + image])
      shutil.rmtree(d, ignore_errors=True)

  # ---------------- torn writes: every GFile written under root, at each prefix class
  for idx, (name, total) in sorted(written.items()):
    for n in sorted({0, 1, total // 2, max(0, total - 1)}):
      if n >= total:
        continue
      root = fresh_root(work, cfg)
      res = core.Ok(one_fault(root, ('torn', idx, n)))
      fired, _, info = res.value
      if not fired:
        ctx.inconclusive_because(f'torn write {idx}@{n} did not fire')
        shutil.rmtree(root, ignore_errors=True)
        continue
      ctx.count('crash:torn')
      w = {'fault': 'torn-write', 'file': os.path.basename(name), 'prefix_bytes': n, 'of': total, 'image': 'exception'}
      mon.audit_image(root, {**w, 'phase': 'crash-instant'})
      ctx.count('mon:ckpt')
      mon.restart_and_compare(root, w)
      ctx.case_done((tuple(sorted(cfg.items())), world.kind, 'torn', os.path.basename(name), n), sample={**w0, **w} if n == 1 else None,
                    klass='torn-write')
      shutil.rmtree(root, ignore_errors=True)

  # ---------------- sequences of 2-3 successive faults, then a clean run
  nseq = 8 if ctx.quick else 40
  for s in range(nseq):
    root = fresh_root(work, cfg)
    seq = []
    for _ in range(int(rng.randint(2, 4))):
      if fsops and rng.rand() < 0.2:
        fault = ('fsop', int(rng.randint(len(fsops))))
      elif written and rng.rand() < 0.25:
        idx = int(rng.randint(len(written)))
        total = written[idx][1]
        fault = ('torn', idx, int(rng.randint(0, max(1, total))))
      else:
        fault = ('line', int(rng.randint(0, max(1, len(events)))))
      res = core.Ok(one_fault(root, fault))
      fired, kd, info = res.value
      if kd:
        # alternate: continue from the kill image instead of the exception image
        if rng.rand() < 0.5:
          shutil.rmtree(root, ignore_errors=True)
          os.rename(kd, root)
          fault = fault + ('kill-image',)
        else:
          shutil.rmtree(kd, ignore_errors=True)
      seq.append({'fault': list(fault), 'fired': bool(fired)})
      mon.audit_image(root, {'fault': 'sequence', 'sequence': seq, 'phase': 'crash-instant'})
      ctx.count('mon:ckpt')
    ctx.count('crash:sequence')
    mon.restart_and_compare(root, {'fault': 'sequence', 'sequence': seq})
    ctx.case_done((tuple(sorted(cfg.items())), world.kind, 'seq', str(seq)), sample={**w0, 'sequence': seq} if s == 0 else None,
                  klass='fault-sequence')
    shutil.rmtree(root, ignore_errors=True)
  return events, written


CHILD = r'''
import json, os, sys
sys.path.insert(0, os.environ['FEDJAX_REPO'])
spec = json.load(open(sys.argv[1]))
import numpy as np
import jax.numpy as jnp
import fedjax
from vmon import failpoint
from vmon.checks import c09
mods = c09.load_mods()
world = c09.World(spec['world'], np.random.RandomState(spec['world_seed']), fedjax, jnp)
targets = c09.targets_of(mods)
if spec['k'] is None:
  st = world.run(spec['root'], spec['cfg'])
  json.dump({'digest': world.digest(st)}, open(spec['out'], 'w'))
else:
  with failpoint.Injector(targets, spec['k'], kill=True):
    world.run(spec['root'], spec['cfg'])
  json.dump({'completed': True}, open(spec['out'], 'w'))
'''


def load_mods():
  from fedjax.training import federated_experiment as fe, checkpoint as checkpoint_mod, logging as flog
  from fedjax.core import serialization
  tf = flog.tf
  tf.summary.scalar = lambda *a, **k: None
  tf.summary.histogram = lambda *a, **k: None
  return fe, checkpoint_mod, serialization, flog, tf


def targets_of(mods):
  fe, checkpoint_mod, serialization, flog, tf = mods
  return [fe.__file__, checkpoint_mod.__file__, (serialization.__file__, ['save_state', 'load_state']), flog.__file__]


def real_kill(ctx, world_kind, world_seed, cfg, k, work, mon_factory):
  """Kill a real sub-process with os._exit at event k, restart in this process, compare."""
  import json
  root = fresh_root(work, cfg)
  spec = {'world': world_kind, 'world_seed': world_seed, 'cfg': cfg, 'k': k, 'root': root, 'out': os.path.join(work, 'child.json')}
  sp = os.path.join(work, 'spec.json')
  with open(sp, 'w') as f:
    json.dump(spec, f)
  if os.path.exists(spec['out']):
    os.remove(spec['out'])
  # the killed run is ANOTHER PROCESS than the one that resumes: give it another hash salt as a re-run script would have
  p = subprocess.run([sys.executable, '-c', CHILD, sp], capture_output=True, text=True, timeout=600,
                     env=dict(os.environ, PYTHONHASHSEED=str(11 + (k or 0) % 89)))
  if p.returncode == failpoint.KILL_EXIT_CODE:
    ctx.count('crash:realkill')
    return root, True
  if p.returncode == 0:
    return root, False
  raise core.HarnessError(f'kill child failed rc={p.returncode}: {p.stderr[-600:]}')


def run(ctx):
  import jax.numpy as jnp
  import fedjax
  mods = load_mods()
  fe, checkpoint_mod, serialization, flog, tf = mods
  install_keep_hook(ctx, checkpoint_mod)
  work = tempfile.mkdtemp(prefix='vmon-c09-')
  try:
    nconf = 8 if ctx.quick else 70
    for cid, rng in ctx.cases('config', nconf):
      idx = int(cid.split('/')[1])
      cfg = gen_config(rng, idx, ctx.quick)
      world_seed = int(rng.randint(2**31 - 1))
      world = World('hash', np.random.RandomState(world_seed), fedjax, jnp)
      out = run_config(ctx, world, cfg, work, rng, mods, exhaustive=(idx < 6 or not ctx.quick), max_line_points=120)
      ctx.notes.setdefault('line_events_per_config', {})[str(idx)] = len(out[0]) if out else None
      if out and (not ctx.quick or idx < 3) and cfg['ckpt'] and cfg['num_rounds'] >= 2:
        # real kills: validate the in-process emulation against real process death
        events = out[0]
        ref = world.run(fresh_root(work, cfg), cfg)
        for k in sorted(rng.choice(len(events), size=2, replace=False).tolist()):
          root, killed = real_kill(ctx, 'hash', world_seed, cfg, k, work, None)
          if killed:
            w = {'config': cfg, 'fault': 'real-kill', 'ordinal': k, 'at': f'{os.path.basename(events[k].file)}:{events[k].line}'}
            r = ctx.call('run_federated_experiment[restart-after-real-kill]', world.run, root, cfg, witness=w)
            if r.ok:
              ctx.check(world.same_state(r.value, ref), 'resume/final-state-differs-after-real-kill',
                        'restart after a real process kill returned a different final state', w)
            ctx.case_done((tuple(sorted(cfg.items())), 'realkill', k), sample=w, klass='real-kill')
          shutil.rmtree(root, ignore_errors=True)
    for cid, rng in ctx.cases('jaxmix', 2 if ctx.quick else 12):
      idx = int(cid.split('/')[1])
      cfg = gen_config(rng, 8 + idx, ctx.quick)
      cfg['num_rounds'] = max(3, cfg['num_rounds'])
      cfg['ckpt'] = cfg['ckpt'] or 1
      world = World('jaxmix', np.random.RandomState(int(rng.randint(2**31 - 1))), fedjax, jnp)
      ctx.count('world:jaxmix')
      run_config(ctx, world, cfg, work, rng, mods, exhaustive=False, max_line_points=25 if ctx.quick else 60)
    nfed = 2 if ctx.quick else 14
    for cid, rng in ctx.cases('fedavg', nfed):
      idx = int(cid.split('/')[1])
      cfg = gen_config(rng, 8 + idx, ctx.quick)
      if cfg['num_rounds'] < 2:
        cfg['num_rounds'] = 3
      if not cfg['ckpt']:
        cfg['ckpt'] = 1
      world = World('fedavg', np.random.RandomState(int(rng.randint(2**31 - 1))), fedjax, jnp)
      ctx.count('world:fedavg')
      run_config(ctx, world, cfg, work, rng, mods, exhaustive=False, max_line_points=25 if ctx.quick else 60)
      ctx.count('world:fedavg', 20)
  finally:
    shutil.rmtree(work, ignore_errors=True)

TECHNIQUE += '; real kills of a sub-process started under another PYTHONHASHSEED; worlds with weakly typed / lazily created / insertion-ordered state'
