#!/bin/sh
# Offline setup: third-party helper libraries (icontract, jsonschema) go into the
# git-ignored /verif/.deps from the local wheelhouse. Idempotent.
set -e
HERE="$(cd "$(dirname "$0")" && pwd)"
DEPS="$HERE/.deps"
if [ ! -f "$DEPS/.ok" ]; then
  rm -rf "$DEPS"
  PIP_NO_INDEX=1 /venv/bin/pip install --quiet --no-index --find-links /opt/veriftools/wheels \
    --target "$DEPS" icontract jsonschema >/dev/null 2>&1 || {
      echo "setup: pip install into $DEPS failed" >&2; exit 3; }
  touch "$DEPS/.ok"
fi
exit 0
