"""Runs the owning checks against the ORIGINAL snapshot of /repo (before any fix: commit) and verifies that every
"fixed" entry of known_findings.json is re-detected under exactly its recorded mechanism key.

Usage: /venv/bin/python tools/prefix_regression.py [--base c17c324] [--props C09,C16]
The pre-fix tree is a temporary git worktree outside /repo and /verif, removed afterwards.
"""
import argparse
import json
import os
import subprocess
import sys
import tempfile

ROOT = os.path.dirname(os.path.dirname(os.path.abspath(__file__)))


def main():
  ap = argparse.ArgumentParser()
  ap.add_argument('--base', default='c17c324')
  ap.add_argument('--props')
  ap.add_argument('--jobs', default='8')
  args = ap.parse_args()
  kf = json.load(open(os.path.join(ROOT, 'known_findings.json')))['findings']
  fixed = [f for f in kf if f['status'] == 'fixed']
  props = sorted({f['property'] for f in fixed})
  if args.props:
    props = [p for p in props if p in args.props.split(',')]
  tmp = tempfile.mkdtemp(prefix='vmon-prefix-')
  wt = os.path.join(tmp, 'repo')
  subprocess.run(['git', '-C', '/repo', 'worktree', 'add', '--detach', wt, args.base, '-q'], check=True)
  rows = []
  try:
    for p in props:
      env = {**os.environ, 'FEDJAX_REPO': wt, 'VMON_NO_EVIDENCE': '1', 'VERIF_JOBS': args.jobs}
      r = subprocess.run([os.path.join(ROOT, 'check'), p, '--tier', 'quick'], cwd=ROOT, env=env, capture_output=True, text=True)
      keys = sorted({l.split('key=')[1].split(' ')[0] for l in r.stdout.splitlines() if l.strip().startswith('violation key=')})
      for f in fixed:
        if f['property'] != p:
          continue
        ok = f['key'] in keys
        rows.append((p, f['key'], f.get('commit'), 'RE-DETECTED' if ok else 'NOT-SEEN'))
        print(rows[-1], flush=True)
      extra = [k for k in keys if k not in {f['key'] for f in fixed if f['property'] == p}]
      print(f'  {p}: rc={r.returncode}; other keys on the pre-fix tree: {extra[:12]}', flush=True)
  finally:
    subprocess.run(['git', '-C', '/repo', 'worktree', 'remove', '--force', wt])
    os.rmdir(tmp) if os.path.isdir(tmp) and not os.listdir(tmp) else None
  with open(os.path.join(ROOT, 'mutants', 'PREFIX_REGRESSION.md'), 'w') as f:
    f.write(f'# Checks against the pre-fix tree ({args.base})\n\n| property | mechanism key | fix commit | result |\n|---|---|---|---|\n')
    for row in rows:
      f.write('| ' + ' | '.join(str(x) for x in row) + ' |\n')
  return 0 if all(r[3] == 'RE-DETECTED' for r in rows) else 1


if __name__ == '__main__':
  sys.exit(main())
