"""C06 — Masked gradients and losses ignore padding and batch geometry.

Runs the real fedjax.grad / model_grad, evaluate_average_loss, AverageLossEvaluator, the Mime
full-batch gradient pass, the agnostic domain-metric pass and the HypCluster cluster-loss pass on
generated padded batches / batch geometries; every output is judged by float64 closed forms and by a
differential across geometries of the same dataset.
"""
import hashlib

import numpy as np

PROPERTY = 'C06'
LEVEL = 'exploration'
RULE = ('Seeded random cases over a pool of 16 configurations = model {linear-squared d=1, linear-squared d=3, softmax-CE '
        'd=2 k=3, softmax-CE d=1 k=2} x regularizer {none, L2, L2 with centre, L2 with centre and per-parameter weights} '
        '(half of them built through fedjax.Model / model_grad; the quick tier uses 8 of the 16, every model and regularizer '
        'kind, rotated by VERIF_SEED). family "batch": one padded batch of size B in '
        '{1,2,3,4,5,8,16} with 0..min(B,12) real rows at prefix or arbitrary positions, zero or finite-garbage padding; '
        'gradient and average loss on the padded batch vs the closed form vs the real rows alone. family "dataset": 1-3 '
        'clients with 0..12 examples and 2-4 domains (some empty), evaluated under >=4 geometries from batch_size '
        '{1,2,3,5,8,16} x buckets {1,2,3} plus one hand-built geometry (arbitrary positions, inserted fully padded '
        'batches); evaluate_average_loss, AverageLossEvaluator, Mime create_grads_for_each_client, agnostic '
        'create_domain_metrics_for_each_client and HypCluster cluster losses / maximization step vs closed forms and vs '
        'each other. family "algo": one real round of mime / mime_lite / agnostic_federated_averaging / hyp_cluster (eager) '
        'on 1-3 clients under 3 geometries of the padded pass; the server gradient (momentum state), the domain window / '
        'weights and the cluster assignment vs closed forms and across geometries. Non-trivial: a batch with at least one '
        'padded row (incl. fully padded), or a dataset / algo case (its geometries always differ in batch count or padding), '
        'or an empty client; distinct by (configuration, mask / geometries, data digest).')
RULE += (' Wave-4 addition: in a third of the dataset cases the hand-built and one padded geometry are materialised once and evaluated twice under jax.disable_jit (evaluate_average_loss, Mime gradient pass); batch dicts must keep keys and contents.')
ASSUMPTIONS = [
    'generated per-example losses ignore the PRNG key and are finite on all-zero and on finite-garbage padding rows '
    '(masking is by multiplication, DESIGN domain note)',
    'the agnostic domain-metric helper is exercised without a regularizer argument, as the algorithm uses it',
    'float32 results are compared with float64 closed forms at |err| <= 3e-5 * (sum of absolute terms) + 1e-6',
    'hyp_cluster._cluster_losses (private) is the cluster-loss pass; reached through the module attribute',
    'algo family: optax SGD-with-momentum keeps exactly one trace per parameter, so after one round from a zero state the '
    'server opt_state equals the server gradient; clients may be empty but at least one has an example',
    'masks are bool arrays as produced by padded_batch (with a bool mask XLA turns mask*inf into 0, so the safe_div inside '
    'grad() is not observable through the returned gradient; the average-loss safe_div is)',
]
SHARDS = {'quick': 4, 'thorough': 8}
SHARD_TIMEOUT = {'quick': 900, 'thorough': 3000}
EXHAUSTIVE = {'quick': False, 'thorough': False}
MIN_HITS = {
    'quick': {
        'mon:grad': 1500, 'mon:avgloss': 2500, 'mon:regonce': 2500, 'mon:empty': 1500, 'mon:evaluator': 2000,
        'mon:mime': 3000, 'mon:domain': 4000, 'mon:cluster': 2000, 'mon:geom': 2000, 'mon:algo': 30, 'algo-all-clients-empty': 12,
        'fully-padded-batch': 150, 'arbitrary-mask': 100, 'garbage-padding': 200, 'empty-client': 30, 'empty-domain': 400,
        'via-model': 300, 'reg:with-centre': 300, 'reg:none': 150, 'geometry:hand-built': 100, 'algo:mime': 2,
        'algo:mime_lite': 2, 'algo:agnostic_fed_avg': 2, 'algo:hyp_cluster': 2, 'mon:eager': 1000, 'hit:eager-repeat-avgloss': 300, 'hit:cluster-losses-on-pmap': 150, 'hit:big-batch-domain-pass': 30, 'hit:loss-raised-mid-evaluation': 100, 'hit:twin-regularizers': 100, 'hit:regularizer-moved-between-builds': 300,
    },
    'thorough': {
        'mon:grad': 15000, 'mon:avgloss': 25000, 'mon:regonce': 25000, 'mon:empty': 15000, 'mon:evaluator': 20000,
        'mon:mime': 30000, 'mon:domain': 40000, 'mon:cluster': 20000, 'mon:geom': 20000, 'mon:algo': 500, 'algo-all-clients-empty': 150,
        'fully-padded-batch': 1500, 'arbitrary-mask': 1000, 'garbage-padding': 2000, 'empty-client': 300,
        'empty-domain': 4000, 'via-model': 3000, 'reg:with-centre': 3000, 'reg:none': 1500, 'geometry:hand-built': 1000,
        'algo:mime': 25, 'algo:mime_lite': 25, 'algo:agnostic_fed_avg': 25, 'algo:hyp_cluster': 25,
        'mon:eager': 10000, 'hit:eager-repeat-avgloss': 3000, 'hit:regularizer-moved-between-builds': 3000,
    },
}
TECHNIQUE = ('runtime monitoring: float64 closed-form gradients / losses / per-domain sums on every execution + differential '
             'across padded-batch geometries of the same dataset; whole algorithm rounds observed through their server state')
LEVEL_TEXT = ('Every generated padded batch and every (dataset, geometry) pair is executed on the real gradient, average-loss, '
              'Mime, agnostic and HypCluster code; each output is compared with a float64 closed form that shares no code with '
              'fedjax and with the same quantity under the other geometries. Held on the executions listed, not a proof.')
LEVEL_NOTE = ('Trusts NumPy float64 arithmetic and the hand-derived closed forms (self-checked against finite differences at '
              'start-up); the generated losses ignore the PRNG key.')

RT = 3e-5
AT = 1e-6
BATCH_SHAPES = [1, 2, 3, 4, 5, 8, 16]
GEOM_BS = [1, 2, 3, 5, 8, 16]
GEOM_BUCKETS = [1, 2, 3]
MAX_N = 12
UNPADDED_SHAPES = (1, 2, 3, 5, 8, 12)


# ------------------------------------------------------------- float64 oracles
class LinOracle:
  """loss_i = 0.5 (x_i . w + b - y_i)^2"""
  kind = 'lin'

  def __init__(self, d):
    self.d = d
    self.name = f'lin-d{d}'

  def init_params(self, rng):
    return {'w': rng.uniform(-2, 2, size=(self.d,)).astype(np.float32), 'b': np.float32(rng.uniform(-2, 2))}

  def data(self, rng, n, garbage=False):
    if garbage:
      return {'x': rng.uniform(-10, 10, size=(n, self.d)).astype(np.float32),
              'y': rng.uniform(-10, 10, size=(n,)).astype(np.float32)}
    return {'x': (rng.standard_normal(size=(n, self.d)) * 1.5).astype(np.float32),
            'y': (rng.standard_normal(size=(n,)) * 2).astype(np.float32)}

  def rows(self, params, ex):
    """Per-row loss, loss scale, per-row gradient terms and their scales (float64)."""
    w = np.asarray(params['w'], np.float64)
    b = float(params['b'])
    X = np.asarray(ex['x'], np.float64)
    Y = np.asarray(ex['y'], np.float64)
    r = X @ w + b - Y
    rs = np.abs(X) @ np.abs(w) + abs(b) + np.abs(Y)
    loss = 0.5 * r * r
    lscale = 0.5 * rs * rs
    g = {'w': r[:, None] * X, 'b': r}
    gs = {'w': rs[:, None] * np.abs(X), 'b': rs}
    return loss, lscale, g, gs


class SoftmaxOracle:
  """loss_i = logsumexp(x_i W + b) - (x_i W + b)[y_i]"""
  kind = 'softmax'

  def __init__(self, d, k):
    self.d, self.k = d, k
    self.name = f'softmax-d{d}-k{k}'

  def init_params(self, rng):
    return {'W': rng.uniform(-2, 2, size=(self.d, self.k)).astype(np.float32),
            'b': rng.uniform(-2, 2, size=(self.k,)).astype(np.float32)}

  def data(self, rng, n, garbage=False):
    s = rng.uniform(-10, 10, size=(n, self.d)) if garbage else rng.standard_normal(size=(n, self.d)) * 1.5
    return {'x': s.astype(np.float32), 'y': rng.randint(0, self.k, size=(n,)).astype(np.int32)}

  def rows(self, params, ex):
    W = np.asarray(params['W'], np.float64)
    b = np.asarray(params['b'], np.float64)
    X = np.asarray(ex['x'], np.float64)
    Y = np.asarray(ex['y']).astype(np.int64)
    n = X.shape[0]
    z = X @ W + b
    zs = np.abs(X) @ np.abs(W) + np.abs(b)
    m = z.max(axis=1, keepdims=True) if n else np.zeros((0, 1))
    e = np.exp(z - m)
    p = e / e.sum(axis=1, keepdims=True)
    lse = (m[:, 0] + np.log(e.sum(axis=1))) if n else np.zeros((0,))
    loss = lse - z[np.arange(n), Y]
    lscale = 2 * zs.max(axis=1) + np.log(self.k) if n else np.zeros((0,))
    onehot = np.zeros_like(z)
    onehot[np.arange(n), Y] = 1
    dz = p - onehot
    dzs = (1 + zs.max(axis=1, keepdims=True)) * np.ones_like(z) if n else np.zeros_like(z)
    g = {'W': X[:, :, None] * dz[:, None, :], 'b': dz}
    gs = {'W': np.abs(X)[:, :, None] * dzs[:, None, :], 'b': dzs}
    return loss, lscale, g, gs


class RegOracle:

  def __init__(self, kind, weight=0.0, center=None, pweights=None):
    self.kind, self.weight, self.center, self.pweights = kind, weight, center, pweights

  def value(self, params):
    if self.kind == 'none':
      return 0.0, 0.0
    tot = 0.0
    for k, p in params.items():
      d = np.asarray(p, np.float64) - (np.asarray(self.center[k], np.float64) if self.center is not None else 0.0)
      pw = np.asarray(self.pweights[k], np.float64) if self.pweights is not None else 1.0
      tot += float(np.sum(pw * d * d))
    return self.weight * tot, abs(self.weight * tot) + self.weight * sum(
        float(np.sum(np.asarray(p, np.float64)**2)) for p in params.values())

  def grad(self, params):
    out, sc = {}, {}
    for k, p in params.items():
      p64 = np.asarray(p, np.float64)
      if self.kind == 'none':
        out[k] = np.zeros_like(p64)
        sc[k] = np.zeros_like(p64)
        continue
      c = np.asarray(self.center[k], np.float64) if self.center is not None else 0.0
      pw = np.asarray(self.pweights[k], np.float64) if self.pweights is not None else 1.0
      out[k] = 2 * self.weight * pw * (p64 - c)
      sc[k] = 2 * self.weight * pw * (np.abs(p64) + np.abs(c))
    return out, sc


def oracle_selfcheck(core):
  """Closed-form gradients vs central finite differences of the closed-form losses (float64)."""
  rng = np.random.RandomState(12345)
  for orc in (LinOracle(3), SoftmaxOracle(2, 3)):
    params = {k: np.asarray(v, np.float64) for k, v in orc.init_params(rng).items()}
    ex = orc.data(rng, 5)
    _, _, g, _ = orc.rows(params, ex)
    for k in params:
      flat = params[k].reshape(-1)
      for j in range(flat.size):
        h = 1e-6
        pp = {kk: vv.copy() for kk, vv in params.items()}
        pm = {kk: vv.copy() for kk, vv in params.items()}
        pp[k].reshape(-1)[j] += h
        pm[k].reshape(-1)[j] -= h
        if pp[k].ndim == 0:
          pp[k] = np.float64(flat[0] + h)
          pm[k] = np.float64(flat[0] - h)
        fd = (orc.rows(pp, ex)[0].mean() - orc.rows(pm, ex)[0].mean()) / (2 * h)
        an = g[k].mean(axis=0).reshape(-1)[j]
        if abs(fd - an) > 1e-5 * (1 + abs(an)):
          raise core.Inconclusive(f'oracle self-check failed for {orc.name} leaf {k}[{j}]: fd={fd} analytic={an}')


# ------------------------------------------------------------ configurations
REG_KINDS = ['none', 'l2', 'centre', 'centre+pw']


class Config:
  """One (model, regularizer) pair with every fedjax object built exactly once (bounds compilations)."""

  def __init__(self, ctx, idx, mods):
    jax, jnp, fedjax, models, regularizers, mime, afa, hc = mods
    self.idx = idx
    mi, ri = idx // 4, idx % 4
    self.orc = [LinOracle(1), LinOracle(3), SoftmaxOracle(2, 3), SoftmaxOracle(1, 2)][mi]
    self.reg_kind = REG_KINDS[ri]
    self.via_model = (mi + ri) % 2 == 1
    self.num_domains = 2 + idx % 3
    r = ctx.rng('config', idx)
    template = self.orc.init_params(r)
    weight = float(r.choice([0.05, 0.1, 0.37, 1.0]))
    center = {k: np.asarray(r.uniform(-1.5, 1.5, size=np.shape(v)), np.float32) for k, v in template.items()}
    pw = {k: np.asarray(r.uniform(0.0, 2.0, size=np.shape(v)), np.float32) for k, v in template.items()}
    if self.reg_kind == 'none':
      self.reg, self.regorc = None, RegOracle('none')
    elif self.reg_kind == 'l2':
      self.reg, self.regorc = regularizers.l2_regularizer(weight), RegOracle('l2', weight)
    elif self.reg_kind == 'centre':
      self.reg = regularizers.l2_regularizer(weight, center_params={k: jnp.asarray(v) for k, v in center.items()})
      self.regorc = RegOracle('centre', weight, center)
    else:
      self.reg = regularizers.l2_regularizer(weight, center_params={k: jnp.asarray(v) for k, v in center.items()},
                                             params_weights={k: jnp.asarray(v) for k, v in pw.items()})
      self.regorc = RegOracle('centre+pw', weight, center, pw)
    self.descr = {'config': idx, 'model': self.orc.name, 'regularizer': self.reg_kind, 'reg_weight': weight if ri else 0,
                  'via_model': self.via_model, 'num_domains': self.num_domains}

    if self.orc.kind == 'lin':

      def forward(params, batch, rng=None):
        return batch['x'] @ params['w'] + params['b']

      def loss_from_output(batch, out):
        r_ = out - batch['y']
        return 0.5 * r_ * r_
    else:

      def forward(params, batch, rng=None):
        return batch['x'] @ params['W'] + params['b']

      def loss_from_output(batch, out):
        lse = jax.nn.logsumexp(out, axis=-1)
        picked = jnp.take_along_axis(out, batch['y'][:, None].astype(jnp.int32), axis=-1)[:, 0]
        return lse - picked

    if self.via_model:
      model = models.Model(
          init=lambda rng: None,
          apply_for_train=forward,
          apply_for_eval=lambda params, batch: forward(params, batch),
          train_loss=loss_from_output,
          eval_metrics={})
      self.loss = models.model_per_example_loss(model)
      self.grad_fn = models.model_grad(model, self.reg)
      self.build_grad = lambda reg_: models.model_grad(model, reg_)
    else:

      def per_example_loss(params, batch, rng):
        del rng   # key-ignoring by construction
        return loss_from_output(batch, forward(params, batch))

      self.loss = per_example_loss
      self.grad_fn = models.grad(per_example_loss, self.reg)
      self.build_grad = lambda reg_: models.grad(per_example_loss, reg_)
    self.evaluator = models.AverageLossEvaluator(self.loss, self.reg)
    # the same evaluator built while the pmap backend is in effect (it yields clients ordered by decreasing batch count, not in
    # the order it was given them)
    import fedjax as _fj
    with _fj.for_each_client_backend('pmap'):
      self.evaluator_pmap = models.AverageLossEvaluator(self.loss, self.reg)
    self.mime_grads = mime.create_grads_for_each_client(self.grad_fn)
    self.domain_metrics = afa.create_domain_metrics_for_each_client(self.loss, self.num_domains)

  def classes(self):
    out = [f'reg:{self.reg_kind}', f'model:{self.orc.name}']
    if self.reg_kind in ('centre', 'centre+pw'):
      out.append('reg:with-centre')
    if self.via_model:
      out.append('via-model')
    return out


QUICK_CONFIGS = [(0, 0), (1, 1), (2, 2), (3, 3), (0, 1), (1, 2), (2, 3), (3, 0)]   # (model, regularizer)


def config_index(ctx, i):
  """Configuration of case i. Thorough: all 16, each shard sees 2. Quick: 8 of the 16 (every model and every
  regularizer kind, half through fedjax.Model), 2 per shard, the regularizer column rotated by VERIF_SEED."""
  if not ctx.quick:
    return i % 16
  m, r = QUICK_CONFIGS[i % 8]
  return m * 4 + (r + ctx.seed) % 4


# ------------------------------------------------------------------- helpers
def digest(*arrays):
  m = hashlib.sha256()
  for a in arrays:
    a = np.asarray(a)
    m.update(str(a.dtype).encode() + str(a.shape).encode() + np.ascontiguousarray(a).tobytes())
  return m.hexdigest()[:16]


def to64(tree):
  return {k: np.asarray(v).astype(np.float64) for k, v in tree.items()}


def within(obs, exp, scale):
  obs = np.asarray(obs, np.float64)
  exp = np.asarray(exp, np.float64)
  if obs.shape != exp.shape:
    return False
  if not np.all(np.isfinite(obs)):
    return False
  return bool(np.all(np.abs(obs - exp) <= RT * np.asarray(scale, np.float64) + AT))


def tree_within(obs, exp, scale):
  if set(obs) != set(exp):
    return False
  return all(within(obs[k], exp[k], scale[k]) for k in exp)


def has_nan(x):
  if isinstance(x, dict):
    return any(has_nan(v) for v in x.values())
  return not bool(np.all(np.isfinite(np.asarray(x, np.float64))))


def build_padded(rng, cfg, real, B, positions, garbage, MK, domain=None):
  """Hand-built padded batch: `real` rows placed at `positions` of a size-B batch."""
  n = len(positions)
  base = cfg.orc.data(rng, B, garbage=True) if garbage else {k: np.zeros((B,) + v.shape[1:], v.dtype) for k, v in real.items()
                                                              if k != 'domain_id'}
  batch = {}
  for k, v in base.items():
    a = np.array(v, copy=True)
    if n:
      a[positions] = real[k]
    batch[k] = a
  if 'domain_id' in real:
    did = rng.randint(0, cfg.num_domains, size=B).astype(np.int32) if garbage else np.zeros(B, np.int32)
    if n:
      did[positions] = real['domain_id']
    batch['domain_id'] = did
  mask = np.zeros(B, np.bool_)
  mask[positions] = True
  batch[MK] = mask
  for a in batch.values():
    a.flags.writeable = False
  return batch


def expected_dataset(cfg, params, ex):
  """Closed forms for one dataset: average loss (+reg once), mean gradient (+reg once), sums."""
  n = len(ex['y'])
  loss, lscale, g, gs = cfg.orc.rows(params, ex)
  regv, regs = cfg.regorc.value(params)
  regg, reggs = cfg.regorc.grad(params)
  out = {'n': n}
  out['data_loss'] = float(loss.mean()) if n else 0.0
  out['data_loss_scale'] = float(lscale.mean()) if n else 0.0
  out['avg_loss'] = out['data_loss'] + regv
  out['avg_loss_scale'] = out['data_loss_scale'] + regs
  out['reg_value'], out['reg_scale'] = regv, regs
  out['data_grad'] = {k: (v.mean(axis=0) if n else np.zeros(v.shape[1:])) for k, v in g.items()}
  out['data_grad_scale'] = {k: (v.mean(axis=0) if n else np.zeros(v.shape[1:])) for k, v in gs.items()}
  out['reg_grad'], out['reg_grad_scale'] = regg, reggs
  out['grad'] = {k: out['data_grad'][k] + regg[k] for k in g}
  out['grad_scale'] = {k: out['data_grad_scale'][k] + reggs[k] for k in g}
  # Mime pass: sum over batches of (batch grad + reg grad) * num = n * (mean grad + reg grad); 0 for n == 0
  out['mime_sum'] = {k: n * out['grad'][k] for k in g}
  out['mime_sum_scale'] = {k: n * out['grad_scale'][k] for k in g}
  out['loss_rows'], out['loss_rows_scale'] = loss, lscale
  return out


# ---------------------------------------------------------------- batch family
def batch_case(ctx, mods, cfgs, MK, i, rng):
  jax, jnp, fedjax, models = mods[0], mods[1], mods[2], mods[3]
  cfg = cfgs(config_index(ctx, i))
  B = int(BATCH_SHAPES[rng.randint(len(BATCH_SHAPES))])
  u = rng.rand()
  if u < 0.12:
    n = 0
  elif u < 0.22:
    n = min(B, MAX_N)
  elif u < 0.6:
    cand = [v for v in UNPADDED_SHAPES if v <= B]
    n = int(cand[rng.randint(len(cand))])
  else:
    n = int(rng.randint(0, min(B, MAX_N) + 1))
  arbitrary = rng.rand() < 0.5
  garbage = rng.rand() < 0.5
  positions = np.sort(rng.choice(B, size=n, replace=False)) if arbitrary else np.arange(n)
  if arbitrary and n:
    positions = rng.permutation(positions)       # real rows in arbitrary order as well
  params = cfg.orc.init_params(rng)
  real = cfg.orc.data(rng, n)
  real['domain_id'] = rng.randint(0, cfg.num_domains, size=n).astype(np.int32)   # same batch structure as the dataset family
  batch = build_padded(rng, cfg, real, B, positions, garbage, MK)
  key = jax.random.PRNGKey(int(rng.randint(2**31 - 1)))
  exp = expected_dataset(cfg, params, real)
  jparams = {k: jnp.asarray(v) for k, v in params.items()}
  wit = {**cfg.descr, 'B': B, 'n_real': n, 'positions': positions.tolist(), 'padding': 'garbage' if garbage else 'zeros',
         'params': params, 'real_rows': real}
  which = 'model_grad' if cfg.via_model else 'grad'

  # ---- gradient on the padded batch vs closed form
  r = ctx.call(which, cfg.grad_fn, jparams, batch, key, witness=wit)
  g_pad = to64(r.value) if r.ok else None
  if g_pad is not None:
    w_ = {**wit, 'observed': g_pad, 'expected': exp['grad']}
    if n == 0:
      ctx.check(not has_nan(g_pad), 'empty/grad-nan-on-fully-padded-batch', f'{which}: NaN/Inf gradient for a batch without real rows', w_)
    ctx.check(tree_within(g_pad, exp['grad'], exp['grad_scale']), 'grad/padded-batch-vs-closed-form',
              f'{which} on a padded batch differs from the closed-form gradient of the real rows (+ regularizer once)', w_)
    if cfg.reg is not None:
      resid = {k: g_pad[k] - exp['data_grad'][k] for k in g_pad}
      ctx.check(tree_within(resid, exp['reg_grad'], exp['grad_scale']), 'regonce/grad-regularizer-not-once',
                f'{which}: gradient minus data term is not exactly one regularizer gradient', {**w_, 'residual': resid,
                                                                                            'reg_grad': exp['reg_grad']})
  # ---- ONE regularizer object whose centre the caller moves between rounds (a proximal term towards the round's server
  #      parameters), the gradient function being built anew from it each round: every build carries the regularizer as it is
  #      when that build is first used, exactly once
  if i % 5 == 2 and n > 0:
    class _MovingProx:
      def __init__(self, weight, centre):
        self.weight, self.centre = weight, centre

      def __call__(self, p):
        return self.weight * sum(jnp.sum(jnp.square(p[k] - self.centre[k])) for k in sorted(p))

    mw = float([0.25, 1.0, 3.0][i % 3])
    mreg = _MovingProx(mw, None)
    for rnd, off in enumerate((0.5, -1.25, 2.0)):
      centre = {k: np.asarray(v, np.float32) + np.float32(off) for k, v in params.items()}
      if rnd == 1:
        mreg.centre.update({k: jnp.asarray(v) for k, v in centre.items()})      # moved in place ...
      else:
        mreg.centre = {k: jnp.asarray(v) for k, v in centre.items()}            # ... or replaced
      mw_ = {**wit, 'moving_regularizer_weight': mw, 'round': rnd, 'centre_offset': off,
             'centre_changed': ['set', 'updated in place', 'replaced'][rnd]}
      rm = ctx.call(which + '[rebuilt]', lambda: cfg.build_grad(mreg)(jparams, batch, key), witness=mw_)
      if rm.ok:
        gm = to64(rm.value)
        want = {k: 2.0 * mw * (np.asarray(params[k], np.float64) - np.asarray(centre[k], np.float64)) for k in params}
        resid = {k: gm[k] - exp['data_grad'][k] for k in gm}
        sc = {k: np.asarray(exp['grad_scale'][k], np.float64) + np.abs(want[k]) + 1.0 for k in want}
        ctx.count('hit:regularizer-moved-between-builds')
        ctx.check(tree_within(resid, want, sc), 'regonce/rebuilt-grad-carries-an-earlier-regularizer-state',
                  f'{which} built anew from a regularizer object whose centre moved since the previous build: gradient minus data '
                  'term is not this round\'s regularizer gradient', {**mw_, 'residual': resid, 'expected_reg_grad': want})

  # ---- the same function on the real rows alone (no padding, no mask); 6 row counts bound the compilations
  alone = n in UNPADDED_SHAPES
  if alone:
    r2 = ctx.call(which, cfg.grad_fn, jparams, dict(real), key, witness={**wit, 'variant': 'real rows only'})
    if r2.ok:
      g_real = to64(r2.value)
      ctx.check(tree_within(g_real, exp['grad'], exp['grad_scale']), 'grad/unpadded-batch-vs-closed-form',
                f'{which} on the real rows alone differs from the closed-form gradient', {**wit, 'observed': g_real,
                                                                                         'expected': exp['grad']})
      if g_pad is not None:
        sc2 = {k: 2 * v for k, v in exp['grad_scale'].items()}
        ctx.check(tree_within(g_pad, g_real, sc2), 'grad/padded-vs-real-rows-alone',
                  f'{which} on the padded batch differs from {which} on the real rows alone', {**wit, 'padded': g_pad,
                                                                                             'unpadded': g_real})
  # ---- average loss of the single padded batch
  r3 = ctx.call('evaluate_average_loss', models.evaluate_average_loss, jparams, [batch], key, cfg.loss, cfg.reg, witness=wit)
  if r3.ok:
    v = float(r3.value)
    w_ = {**wit, 'observed': v, 'expected': exp['avg_loss']}
    if n == 0:
      ctx.check(np.isfinite(v), 'empty/avgloss-nan-on-fully-padded-batch', 'evaluate_average_loss: NaN for a batch without real rows', w_)
    ctx.check(within(v, exp['avg_loss'], exp['avg_loss_scale']), 'avgloss/padded-batch-vs-closed-form',
              'evaluate_average_loss on a padded batch differs from mean loss of the real rows + regularizer', w_)
    if cfg.reg is not None:
      ctx.check(within(v - exp['data_loss'], exp['reg_value'], exp['avg_loss_scale']), 'regonce/avgloss-regularizer-not-once',
                'evaluate_average_loss minus data term is not exactly one regularizer value', w_)
    if alone:
      r4 = ctx.call('evaluate_average_loss', models.evaluate_average_loss, jparams, [dict(real)], key, cfg.loss, cfg.reg,
                    witness={**wit, 'variant': 'real rows only'})
      if r4.ok:
        ctx.check(within(v, float(r4.value), 2 * exp['avg_loss_scale']), 'avgloss/padded-vs-real-rows-alone',
                  'evaluate_average_loss differs between the padded batch and the real rows alone',
                  {**wit, 'padded': v, 'unpadded': float(r4.value)})

  klass = cfg.classes() + [f'B={B}']
  if n == 0:
    klass.append('fully-padded-batch')
  if n == B:
    klass.append('no-padding')
  if arbitrary and 0 < n < B:
    klass.append('arbitrary-mask')
  if garbage and n < B:
    klass.append('garbage-padding')
  nontrivial = n < B
  ctx.case_done((cfg.idx, B, tuple(positions.tolist()), garbage, digest(*params.values(), *real.values())) if nontrivial else None,
                sample={k: v for k, v in wit.items() if k != 'real_rows'}, klass=klass)


# -------------------------------------------------------------- dataset family
def hand_geometry(rng, cfg, ex, MK):
  """Batches with real rows at arbitrary positions and fully padded batches inserted anywhere."""
  n = len(ex['y'])
  B = int(BATCH_SHAPES[rng.randint(len(BATCH_SHAPES))])
  garbage = rng.rand() < 0.5
  chunks = []
  i = 0
  while i < n:
    c = int(rng.randint(1, B + 1))
    chunks.append((i, min(n, i + c)))
    i += c
  n_empty = int(rng.randint(1, 3))
  for _ in range(n_empty):
    chunks.insert(int(rng.randint(0, len(chunks) + 1)), (0, 0))
  batches = []
  for lo, hi in chunks:
    real = {k: v[lo:hi] for k, v in ex.items()}
    pos = rng.permutation(np.sort(rng.choice(B, size=hi - lo, replace=False))) if hi > lo else np.zeros((0,), np.int64)
    batches.append(build_padded(rng, cfg, real, B, pos, garbage, MK))
  return batches, {'kind': 'hand-built', 'B': B, 'batches': len(batches), 'fully_padded_batches': n_empty,
                   'padding': 'garbage' if garbage else 'zeros'}


def dataset_case(ctx, mods, cfgs, MK, i, rng):
  jax, jnp, fedjax, models, regularizers, mime, afa, hc = mods
  from fedjax.core import client_datasets as cd
  from fedjax.core import tree_util
  cfg = cfgs(config_index(ctx, i))
  D = cfg.num_domains
  n_clients = int(rng.randint(1, 4))
  sizes = []
  for c in range(n_clients):
    u = rng.rand()
    sizes.append(0 if u < 0.18 else int(rng.randint(1, MAX_N + 1)))
  live_domains = sorted(rng.choice(D, size=int(rng.randint(1, D + 1)), replace=False).tolist())
  params = cfg.orc.init_params(rng)
  params2 = cfg.orc.init_params(rng)
  jparams = {k: jnp.asarray(v) for k, v in params.items()}
  jparams2 = {k: jnp.asarray(v) for k, v in params2.items()}
  alpha = rng.uniform(0.1, 2.0, size=D).astype(np.float32)
  ids = [bytes([97 + c]) + b'\x00' * (c % 2) for c in range(n_clients)]
  keys = [jax.random.PRNGKey(int(rng.randint(2**31 - 1))) for _ in range(n_clients)]
  exs, dss = [], []
  for c in range(n_clients):
    ex = cfg.orc.data(rng, sizes[c])
    ex['domain_id'] = np.asarray(rng.choice(live_domains, size=sizes[c]), np.int32)
    for a in ex.values():
      a.flags.writeable = False
    exs.append(ex)
    dss.append(cd.ClientDataset(ex))
  exps = [expected_dataset(cfg, params, ex) for ex in exs]
  exps2 = [expected_dataset(cfg, params2, ex) for ex in exs]
  # geometries
  all_geoms = [(b, k) for b in GEOM_BS for k in GEOM_BUCKETS]
  n_geo = 4 if ctx.quick else 5
  chosen = [all_geoms[j] for j in rng.choice(len(all_geoms), size=n_geo, replace=False)]
  chosen[0] = (1, int(rng.choice(GEOM_BUCKETS)))
  chosen[1] = (16, int(rng.choice(GEOM_BUCKETS)))
  geoms = [{'kind': 'padded_batch', 'batch_size': b, 'buckets': k} for b, k in chosen]
  wit = {**cfg.descr, 'client_sizes': sizes, 'live_domains': live_domains, 'params': params, 'alpha': alpha,
         'examples_client0': {k: v[:6] for k, v in exs[0].items()}}

  def batches_for(geom, c):
    if geom['kind'] == 'padded_batch':
      return list(dss[c].padded_batch(batch_size=geom['batch_size'], num_batch_size_buckets=geom['buckets']))
    return geom['_batches'][c]

  hand = {'kind': 'hand-built', '_batches': [], 'detail': []}
  for c in range(n_clients):
    b_, d_ = hand_geometry(rng, cfg, exs[c], MK)
    hand['_batches'].append(b_)
    hand['detail'].append(d_)
  geoms.append(hand)

  per_geom = []   # observed quantities per geometry for the differential
  for geom in geoms:
    gdesc = {k: v for k, v in geom.items() if k != '_batches'}
    gw = {**wit, 'geometry': gdesc}
    obs = {'avg': [], 'ev': [], 'mime_sum': [], 'mime_num': [], 'dloss': [], 'dnum': [], 'cl': []}
    ctx.klass('geometry:' + geom['kind'])
    # (a) evaluate_average_loss per client
    for c in range(n_clients):
      bts = batches_for(geom, c)
      r = ctx.call('evaluate_average_loss', models.evaluate_average_loss, jparams, iter(bts), keys[c], cfg.loss, cfg.reg,
                   witness={**gw, 'client': c})
      if not r.ok:
        obs['avg'].append(None)
        continue
      v = float(r.value)
      obs['avg'].append(v)
      w_ = {**gw, 'client': c, 'n': sizes[c], 'observed': v, 'expected': exps[c]['avg_loss']}
      if sizes[c] == 0:
        ctx.check(np.isfinite(v), 'empty/avgloss-nan-without-real-examples', 'evaluate_average_loss: NaN for a client without real examples', w_)
      ctx.check(within(v, exps[c]['avg_loss'], exps[c]['avg_loss_scale']), 'avgloss/dataset-vs-closed-form',
                'evaluate_average_loss over padded batches differs from mean loss + regularizer (once)', w_)
      if cfg.reg is not None:
        ctx.check(within(v - exps[c]['data_loss'], exps[c]['reg_value'], exps[c]['avg_loss_scale']),
                  'regonce/avgloss-regularizer-not-once', 'average loss minus data term is not exactly one regularizer value', w_)
    # (b) AverageLossEvaluator (global params; per-client params in a third of the cases)
    per_client = (i // 16) % 3 == 0
    if per_client:
      clients = [(ids[c], batches_for(geom, c), keys[c], jparams) for c in range(n_clients)]
      r = ctx.call('AverageLossEvaluator.evaluate_per_client_params',
                   lambda: dict(cfg.evaluator.evaluate_per_client_params(clients)), witness=gw)
    else:
      clients = [(ids[c], batches_for(geom, c), keys[c]) for c in range(n_clients)]
      r = ctx.call('AverageLossEvaluator.evaluate_global_params',
                   lambda: dict(cfg.evaluator.evaluate_global_params(jparams, clients)), witness=gw)
    if r.ok:
      ctx.check(set(r.value) == set(ids), 'evaluator/client-ids', 'AverageLossEvaluator did not return every client exactly once', gw)
      for c in range(n_clients):
        if ids[c] not in r.value:
          obs['ev'].append(None)
          continue
        v = float(r.value[ids[c]])
        obs['ev'].append(v)
        w_ = {**gw, 'client': c, 'n': sizes[c], 'observed': v, 'expected': exps[c]['avg_loss'], 'per_client_params': per_client}
        if sizes[c] == 0:
          ctx.check(np.isfinite(v), 'empty/evaluator-nan-without-real-examples', 'AverageLossEvaluator: NaN for an empty client', w_)
        ctx.check(within(v, exps[c]['avg_loss'], exps[c]['avg_loss_scale']), 'evaluator/dataset-vs-closed-form',
                  'AverageLossEvaluator differs from mean loss + regularizer (once)', w_)
    # (c) Mime full-batch gradient pass
    clients = [(ids[c], batches_for(geom, c), keys[c]) for c in range(n_clients)]
    r = ctx.call('mime.create_grads_for_each_client', lambda: dict(cfg.mime_grads(jparams, clients)), witness=gw)
    if r.ok and set(r.value) == set(ids):
      outs = [r.value[ids[c]] for c in range(n_clients)]
      for c in range(n_clients):
        gsum, num = to64(outs[c][0]), float(outs[c][1])
        obs['mime_sum'].append(gsum)
        obs['mime_num'].append(num)
        w_ = {**gw, 'client': c, 'n': sizes[c], 'observed_sum': gsum, 'observed_num': num, 'expected_sum': exps[c]['mime_sum']}
        if sizes[c] == 0:
          ctx.check(not has_nan(gsum) and np.isfinite(num), 'empty/mime-nan-without-real-examples', 'Mime gradient pass: NaN for an empty client', w_)
        ctx.check(num == sizes[c], 'mime/num-not-number-of-real-examples', f'Mime pass counted {num} examples, client has {sizes[c]}', w_)
        ctx.check(tree_within(gsum, exps[c]['mime_sum'], exps[c]['mime_sum_scale']), 'mime/grads-sum-vs-closed-form',
                  'Mime pass: sum of grads*num differs from n * (mean gradient + regularizer gradient)', w_)
      # server gradient exactly as mime.apply derives it
      rs = ctx.call('mime.server_grads', lambda: tree_util.tree_inverse_weight(*tree_util.tree_sum(iter([o for o in outs]))), witness=gw)
      if rs.ok:
        sg = to64(rs.value)
        N = sum(sizes)
        if N:
          allx = {k: np.concatenate([ex[k] for ex in exs]) for k in exs[0]}
          e_all = expected_dataset(cfg, params, allx)
          e_g, e_s = e_all['grad'], e_all['grad_scale']
        else:
          e_g = {k: np.zeros(np.shape(v)) for k, v in params.items()}
          e_s = e_g
        w_ = {**gw, 'observed': sg, 'expected': e_g, 'total_examples': N}
        if N == 0:
          ctx.check(not has_nan(sg), 'empty/mime-server-grad-nan', 'Mime server gradient is NaN when no client has an example', w_)
        ctx.check(tree_within(sg, e_g, e_s), 'mime/server-grad-vs-closed-form',
                  'Mime server gradient sum(grads*n)/sum(n) differs from the full-batch gradient (+ regularizer once)', w_)
        if cfg.reg is not None and N:
          resid = {k: sg[k] - e_all['data_grad'][k] for k in sg}
          ctx.check(tree_within(resid, e_all['reg_grad'], e_s), 'regonce/mime-regularizer-not-once',
                    'Mime server gradient minus data term is not exactly one regularizer gradient', w_)
        obs['server_grad'] = sg
    elif r.ok:
      ctx.violation('mime/client-ids', 'Mime gradient pass did not return every client exactly once', gw)
    # (d) agnostic domain metrics (no regularizer argument, as the algorithm uses it)
    shared = {'params': jparams, 'alpha': jnp.asarray(alpha)}
    clients = [(ids[c], batches_for(geom, c), keys[c]) for c in range(n_clients)]
    r = ctx.call('agnostic.create_domain_metrics_for_each_client', lambda: dict(cfg.domain_metrics(shared, clients)), witness=gw)
    if r.ok and set(r.value) == set(ids):
      for c in range(n_clients):
        o = r.value[ids[c]]
        dl, dn, beta = np.asarray(o['domain_loss'], np.float64), np.asarray(o['domain_num'], np.float64), float(o['beta'])
        e_dl, e_ds, e_dn = np.zeros(D), np.zeros(D), np.zeros(D)
        np.add.at(e_dl, exs[c]['domain_id'], exps[c]['loss_rows'])
        np.add.at(e_ds, exs[c]['domain_id'], exps[c]['loss_rows_scale'])
        np.add.at(e_dn, exs[c]['domain_id'], 1.0)
        e_beta = float(np.sum(alpha.astype(np.float64) * e_dn))
        obs['dloss'].append(dl)
        obs['dnum'].append(dn)
        w_ = {**gw, 'client': c, 'n': sizes[c], 'domain_loss': dl, 'domain_num': dn, 'beta': beta, 'expected_loss': e_dl,
              'expected_num': e_dn, 'expected_beta': e_beta, 'domain_ids': exs[c]['domain_id']}
        if sizes[c] == 0:
          ctx.check(not (has_nan(dl) or has_nan(dn) or not np.isfinite(beta)), 'empty/domain-nan-without-real-examples',
                    'agnostic domain metrics: NaN for an empty client', w_)
        ctx.check(dn.shape == (D,) and bool(np.all(dn == e_dn)), 'domain/count-not-number-of-real-examples',
                  'agnostic domain metrics: per-domain counts differ from the real examples per domain', w_)
        ctx.check(within(dl, e_dl, e_ds), 'domain/loss-sum-vs-closed-form',
                  'agnostic domain metrics: per-domain loss sums differ from np.add.at over the real examples', w_)
        ctx.check(within(beta, e_beta, np.sum(alpha * e_dn)), 'domain/beta', 'agnostic domain metrics: beta != sum(alpha * domain_num)', w_)
        if len(live_domains) < D and sizes[c]:
          ctx.klass('empty-domain')
    elif r.ok:
      ctx.violation('domain/client-ids', 'domain-metric pass did not return every client exactly once', gw)
    # (e) HypCluster cluster-loss pass (needs real padded_batch hparams)
    if geom['kind'] == 'padded_batch':
      hp = cd.PaddedBatchHParams(batch_size=geom['batch_size'], num_batch_size_buckets=geom['buckets'])
      hclients = [(ids[c], dss[c], keys[c]) for c in range(n_clients)]
      cps = [jparams, jparams2]
      r = ctx.call('hyp_cluster._cluster_losses', hc._cluster_losses, cfg.evaluator, cps, hclients, hp, witness=gw)   # pylint: disable=protected-access
      if r.ok:
        for c in range(n_clients):
          got = [float(x) for x in r.value.get(ids[c], [])]
          want = [exps[c]['avg_loss'], exps2[c]['avg_loss']]
          sc = [exps[c]['avg_loss_scale'], exps2[c]['avg_loss_scale']]
          obs['cl'].append(got)
          w_ = {**gw, 'client': c, 'n': sizes[c], 'observed': got, 'expected': want, 'params2': params2}
          if sizes[c] == 0:
            ctx.check(all(np.isfinite(g) for g in got) and len(got) == 2, 'empty/cluster-loss-nan-without-real-examples',
                      'HypCluster cluster loss is NaN for an empty client', w_)
          ctx.check(len(got) == 2 and all(within(g, w, s) for g, w, s in zip(got, want, sc)), 'cluster/loss-vs-closed-form',
                    'HypCluster cluster losses differ from mean loss + regularizer per cluster', w_)
      # the cluster-loss pass through an evaluator on the pmap backend: each client must still get ITS OWN losses
      if n_clients >= 2 and i % 2 == 0:
        r = ctx.call('hyp_cluster._cluster_losses[pmap]', hc._cluster_losses, cfg.evaluator_pmap, cps, hclients, hp,   # pylint: disable=protected-access
                     witness={**gw, 'backend': 'pmap'})
        if r.ok:
          ctx.count('hit:cluster-losses-on-pmap')
          for c in range(n_clients):
            got = [float(x) for x in r.value.get(ids[c], [])]
            want = [exps[c]['avg_loss'], exps2[c]['avg_loss']]
            sc = [exps[c]['avg_loss_scale'], exps2[c]['avg_loss_scale']]
            ctx.check(len(got) == 2 and all(within(g, w, s_) for g, w, s_ in zip(got, want, sc)), 'cluster/loss-vs-closed-form',
                      'HypCluster cluster losses (evaluator on the pmap backend) differ from mean loss + regularizer per cluster '
                      'of that client', {**gw, 'backend': 'pmap', 'client': c, 'n': sizes[c], 'observed': got, 'expected': want})
      r = ctx.call('hyp_cluster.maximization_step', hc.maximization_step, cfg.evaluator, cps, hclients, hp, witness=gw)
      if r.ok:
        for c in range(n_clients):
          want = [exps[c]['avg_loss'], exps2[c]['avg_loss']]
          margin = abs(want[0] - want[1])
          tol = 4 * (RT * max(exps[c]['avg_loss_scale'], exps2[c]['avg_loss_scale']) + AT)
          if margin > tol:
            got = int(r.value[ids[c]])
            ctx.check(got == int(np.argmin(want)), 'cluster/assignment', 'maximization step did not assign the client to its lowest-loss cluster',
                      {**gw, 'client': c, 'observed': got, 'expected_losses': want})
    per_geom.append((gdesc, obs))

  # ---- differential across geometries
  def spread_ok(vals, scale):
    vals = [v for v in vals if v is not None]
    if len(vals) < 2:
      return True
    a = np.stack([np.asarray(v, np.float64) for v in vals])
    if not np.all(np.isfinite(a)):
      return False
    return bool(np.all(a.max(axis=0) - a.min(axis=0) <= 2 * (RT * np.asarray(scale, np.float64) + AT)))

  gnames = [g for g, _ in per_geom]
  for c in range(n_clients):
    w_ = {**wit, 'client': c, 'n': sizes[c], 'geometries': gnames}
    for name, scale, key, what in (
        ('avg', exps[c]['avg_loss_scale'], 'geom/evaluate_average_loss', 'evaluate_average_loss'),
        ('ev', exps[c]['avg_loss_scale'], 'geom/AverageLossEvaluator', 'AverageLossEvaluator'),
    ):
      vals = [o[name][c] if c < len(o[name]) else None for _, o in per_geom]
      ctx.check(spread_ok(vals, scale), key, f'{what} changes with (batch_size, buckets) / padding layout', {**w_, 'values': vals})
    vals = [o['mime_num'][c] for _, o in per_geom if c < len(o['mime_num'])]
    ctx.check(len(set(vals)) <= 1, 'geom/mime-num', 'Mime example count changes with the batch geometry', {**w_, 'values': vals})
    for leaf in params:
      vals = [o['mime_sum'][c][leaf] for _, o in per_geom if c < len(o['mime_sum'])]
      ctx.check(spread_ok(vals, exps[c]['mime_sum_scale'][leaf]), 'geom/mime-grads-sum', 'Mime grads sum changes with the batch geometry',
                {**w_, 'leaf': leaf, 'values': vals})
    vals = [o['dnum'][c] for _, o in per_geom if c < len(o['dnum'])]
    ctx.check(spread_ok(vals, 0.0), 'geom/domain-num', 'per-domain counts change with the batch geometry', {**w_, 'values': vals})
    e_ds = np.zeros(D)
    np.add.at(e_ds, exs[c]['domain_id'], exps[c]['loss_rows_scale'])
    vals = [o['dloss'][c] for _, o in per_geom if c < len(o['dloss'])]
    ctx.check(spread_ok(vals, e_ds), 'geom/domain-loss', 'per-domain loss sums change with the batch geometry', {**w_, 'values': vals})
    vals = [o['cl'][c] for _, o in per_geom if c < len(o['cl']) and len(o['cl'][c]) == 2]
    ctx.check(spread_ok(vals, max(exps[c]['avg_loss_scale'], exps2[c]['avg_loss_scale'])), 'geom/cluster-loss',
              'HypCluster cluster losses change with the maximization batch geometry', {**w_, 'values': vals})

  # ---- twin regularizers: l2_regularizer objects built one after the other with the SAME weight but other centres / parameter
  #      weights (a proximal term rebuilt every round): each evaluation must add ITS OWN regularizer exactly once
  if i % 4 == 1 and n_clients:
    c = 0
    bts = batches_for(geoms[0], c)
    rw = float([0.05, 0.5, 2.0][i % 3])
    base_r = ctx.call('evaluate_average_loss', models.evaluate_average_loss, jparams, bts, keys[c], cfg.loss, None, witness=wit)
    if base_r.ok:
      for twin in range(3):
        centre = {k: np.asarray(v) + np.float32(0.5 * (twin + 1)) for k, v in params.items()}
        pw = None if twin < 2 else {k: np.full(np.shape(v), 2.0, np.float32) for k, v in params.items()}
        reg_t = regularizers.l2_regularizer(rw, center_params={k: jnp.asarray(v) for k, v in centre.items()},
                                            params_weights=None if pw is None else {k: jnp.asarray(v) for k, v in pw.items()})
        want = rw * sum(float(np.sum((2.0 if pw is not None else 1.0) * (np.asarray(params[k], np.float64) - centre[k]) ** 2)) for k in params)
        tw = {**wit, 'twin': twin, 'weight': rw, 'centre_offset': 0.5 * (twin + 1), 'params_weights': pw is not None}
        rt = ctx.call('evaluate_average_loss', models.evaluate_average_loss, jparams, bts, keys[c], cfg.loss, reg_t, witness=tw)
        if rt.ok:
          got = float(rt.value) - float(base_r.value)
          ctx.count('hit:twin-regularizers')
          ctx.check(abs(got - want) <= 1e-4 * (abs(want) + abs(float(base_r.value)) + 1), 'regonce/avgloss-other-regularizer-instance',
                    f'average loss with l2_regularizer(weight={rw}, centre #{twin}) minus the unregularised average loss is {got}, this '
                    f'regularizer\'s value is {want}', {**tw, 'observed': got, 'expected': want})

  # ---- eager mode (jax.disable_jit): the same MATERIALISED batches evaluated repeatedly. Without jit the library code sees the
  # caller's own dict objects, so anything it does to a batch in place (dropping / rewriting the mask) shows on the next use.
  if i % 3 == 0:
    for geom in (hand, geoms[0]):
      gdesc = {k: v for k, v in geom.items() if k != '_batches'}
      gw = {**wit, 'geometry': gdesc, 'mode': 'jax.disable_jit, same batch objects evaluated repeatedly'}
      held = [batches_for(geom, c) for c in range(n_clients)]
      before = [[(sorted(b), digest(*[np.asarray(b[k]) for k in sorted(b)])) for b in bts] for bts in held]
      with jax.disable_jit():
        for rep in range(2):
          for c in range(n_clients):
            r = ctx.call('evaluate_average_loss[eager]', models.evaluate_average_loss, jparams, held[c], keys[c], cfg.loss, cfg.reg,
                         witness={**gw, 'client': c, 'repetition': rep})
            if r.ok:
              v = float(r.value)
              ctx.count('hit:eager-repeat-avgloss')
              ctx.check(within(v, exps[c]['avg_loss'], exps[c]['avg_loss_scale']), 'eager/avgloss-vs-closed-form',
                        'evaluate_average_loss without jit, on batches that were already evaluated once, differs from mean loss + '
                        'regularizer (once)', {**gw, 'client': c, 'n': sizes[c], 'repetition': rep, 'observed': v,
                                               'expected': exps[c]['avg_loss']})
          clients = [(ids[c], held[c], keys[c]) for c in range(n_clients)]
          r = ctx.call('mime.create_grads_for_each_client[eager]', lambda: dict(cfg.mime_grads(jparams, clients)), witness=gw)
          if r.ok and set(r.value) == set(ids):
            for c in range(n_clients):
              gsum, num = to64(r.value[ids[c]][0]), float(r.value[ids[c]][1])
              w_ = {**gw, 'client': c, 'n': sizes[c], 'repetition': rep, 'observed_sum': gsum, 'observed_num': num}
              ctx.check(num == sizes[c], 'eager/mime-num', f'Mime pass without jit counted {num} examples, client has {sizes[c]}', w_)
              ctx.check(tree_within(gsum, exps[c]['mime_sum'], exps[c]['mime_sum_scale']), 'eager/mime-grads-sum',
                        'Mime pass without jit on already-used batches: sum of grads*num differs from the closed form', w_)
      # a loss that raises while one of the held batches is processed (here: on the last batch of each client) must not leave
      # that batch altered: the next ordinary evaluation of the same batch objects gives the same value as before
      class _LossFailure(Exception):
        pass

      for c in range(n_clients):
        if not held[c]:
          continue
        last_rows = int(np.asarray(held[c][-1][MK]).shape[0])

        def bad_loss(p_, b_, r_, last_rows=last_rows):
          if int(next(v_ for k_, v_ in b_.items() if k_ != MK).shape[0]) == last_rows:
            raise _LossFailure('user loss failed on this batch')
          return cfg.loss(p_, b_, r_)

        try:
          models.evaluate_average_loss(jparams, held[c], keys[c], bad_loss, cfg.reg)
        except _LossFailure:
          ctx.count('hit:loss-raised-mid-evaluation')
        except Exception as e_:  # pylint: disable=broad-except
          ctx.violation('eager/failing-loss-call-raised-something-else',
                        f'evaluate_average_loss with a loss that raises a user exception raised {type(e_).__name__} instead', {**gw, 'client': c})
        r = ctx.call('evaluate_average_loss[after-failed-call]', models.evaluate_average_loss, jparams, held[c], keys[c], cfg.loss, cfg.reg,
                     witness={**gw, 'client': c})
        if r.ok:
          v = float(r.value)
          ctx.check(within(v, exps[c]['avg_loss'], exps[c]['avg_loss_scale']), 'eager/avgloss-after-failed-call',
                    'evaluate_average_loss on batches that an earlier, FAILED call (loss raised) had been given differs from mean loss + '
                    'regularizer', {**gw, 'client': c, 'n': sizes[c], 'observed': v, 'expected': exps[c]['avg_loss']})
      after = [[(sorted(b), digest(*[np.asarray(b[k]) for k in sorted(b)])) for b in bts] for bts in held]
      ctx.check(before == after, 'eager/batches-mutated',
                'evaluating padded batches (no jit) changed the caller\'s batch dicts (keys or contents)',
                {**gw, 'keys_before': [[k for k, _ in bts] for bts in before], 'keys_after': [[k for k, _ in bts] for bts in after]})

  klass = cfg.classes() + [f'clients={n_clients}']
  if any(s == 0 for s in sizes):
    klass.append('empty-client')
  if sum(sizes) == 0:
    klass.append('all-clients-empty')
  nontrivial = True   # >= 5 geometries incl. batch_size 1 vs 16 vs hand-built always differ in batch count / padding
  ctx.case_done((cfg.idx, tuple(sizes), tuple(chosen), digest(*params.values(), *[v for ex in exs for v in ex.values()])),
                sample={**wit, 'geometries': gnames}, klass=klass)



# ----------------------------------------------------------------- algo family
def algo_case(ctx, mods, cfgs, i, rng, force_empty=False):
  """One real algorithm round (eager, jax.disable_jit) under 3 padded-batch geometries.

  Mime / Mime-lite: with an SGD+momentum base optimizer the new server opt_state *is* the full-batch
  server gradient; agnostic FedAvg: the new domain window is the per-domain count and the new domain
  weights are a closed form of the per-domain mean losses; HypCluster: client diagnostics carry the
  maximization-step assignment.
  """
  jax, jnp, fedjax, models, regularizers, mime, afa, hc = mods
  from fedjax.core import client_datasets as cd
  from fedjax.core import optimizers
  from fedjax.algorithms import mime_lite
  cfg = cfgs(config_index(ctx, i))
  D = cfg.num_domains
  algo_name = ['mime', 'mime_lite', 'agnostic_fed_avg', 'hyp_cluster'][(i + i // 4) % 4]   # every algorithm, every shard
  if force_empty:
    algo_name = ['mime', 'mime_lite'][(i + i // 4) % 2]
  n_clients = int(rng.randint(1, 4))
  sizes = [0 if rng.rand() < 0.2 else int(rng.randint(1, MAX_N + 1)) for _ in range(n_clients)]
  all_empty = force_empty or (algo_name in ('mime', 'mime_lite') and rng.rand() < 0.2)
  if all_empty:
    sizes = [0] * n_clients       # a round in which no participating client has a real example
  elif sum(sizes) == 0:
    sizes[0] = int(rng.randint(1, MAX_N + 1))
  live_domains = sorted(rng.choice(D, size=int(rng.randint(1, D + 1)), replace=False).tolist())
  params = cfg.orc.init_params(rng)
  params2 = cfg.orc.init_params(rng)
  jparams = {k: jnp.asarray(v) for k, v in params.items()}
  jparams2 = {k: jnp.asarray(v) for k, v in params2.items()}
  ids = [bytes([97 + c]) for c in range(n_clients)]
  seeds = [int(rng.randint(2**31 - 1)) for _ in range(n_clients)]
  exs = []
  for c in range(n_clients):
    ex = cfg.orc.data(rng, sizes[c])
    ex['domain_id'] = np.asarray(rng.choice(live_domains, size=sizes[c]), np.int32)
    for a in ex.values():
      a.flags.writeable = False
    exs.append(ex)
  allx = {k: np.concatenate([ex[k] for ex in exs]) for k in exs[0]}
  e_all = None if all_empty else expected_dataset(cfg, params, allx)
  geoms = [(1, int(rng.choice(GEOM_BUCKETS))), (16, int(rng.choice(GEOM_BUCKETS))),
           (int(rng.choice([2, 3, 5, 8])), int(rng.choice(GEOM_BUCKETS)))]
  train_hp = cd.ShuffleRepeatBatchHParams(batch_size=4, num_epochs=1, seed=int(rng.randint(1000)))
  dw0 = rng.uniform(0.5, 1.5, size=D)
  dw0 = (dw0 / dw0.sum()).astype(np.float64)
  dlr = float(rng.choice([0.05, 0.1, 0.5]))
  wit = {**cfg.descr, 'algorithm': algo_name, 'client_sizes': sizes, 'live_domains': live_domains, 'params': params,
         'geometries': geoms, 'examples_client0': {k: v[:6] for k, v in exs[0].items()}}
  results = []
  for bs, buckets in geoms:
    gw = {**wit, 'geometry': {'batch_size': bs, 'buckets': buckets}}
    php = cd.PaddedBatchHParams(batch_size=bs, num_batch_size_buckets=buckets)
    clients = [(ids[c], cd.ClientDataset(exs[c]), jax.random.PRNGKey(seeds[c])) for c in range(n_clients)]

    def one_round():
      with jax.disable_jit():
        if algo_name == 'mime':
          alg = mime.mime(cfg.loss, optimizers.sgd(0.05, momentum=0.9), train_hp, php, 1.0, cfg.reg)
          st = alg.init(jparams)
        elif algo_name == 'mime_lite':
          alg = mime_lite.mime_lite(cfg.loss, optimizers.sgd(0.05, momentum=0.9), train_hp, php, 1.0, cfg.reg)
          st = alg.init(jparams)
        elif algo_name == 'agnostic_fed_avg':
          alg = afa.agnostic_federated_averaging(cfg.loss, optimizers.sgd(0.05), optimizers.sgd(1.0), train_hp, php,
                                                 [float(x) for x in dw0], dlr, init_domain_window=[1.0] * D, regularizer=cfg.reg)
          st = alg.init(jparams)
        else:
          alg = hc.hyp_cluster(cfg.loss, optimizers.sgd(0.05), optimizers.sgd(1.0), php, train_hp, regularizer=cfg.reg)
          st = alg.init([jparams, jparams2])
        return alg.apply(st, clients)

    r = ctx.call(f'{algo_name}.apply', one_round, witness=gw)
    if not r.ok:
      results.append(None)
      continue
    st, diag = r.value
    if algo_name in ('mime', 'mime_lite'):
      leaves = [np.asarray(l, np.float64) for l in jax.tree_util.tree_leaves(st.opt_state)]
      names = sorted(params)
      ok_struct = len(leaves) == len(names) and all(l.shape == np.shape(params[k]) for l, k in zip(leaves, names))
      if not ok_struct:
        raise RuntimeError('momentum state does not mirror the params tree (harness assumption)')
      sg = dict(zip(names, leaves))
      if all_empty:
        w_ = {**gw, 'observed_server_grads': sg, 'expected': 0}
        ctx.check(not has_nan(sg) and not has_nan(to64(st.params)), f'empty/{algo_name}-server-grad-nan',
                  f'{algo_name}: NaN in the server gradient / params after a round without any real example', w_)
        ctx.check(all(bool(np.all(v == 0)) for v in sg.values()), f'empty/{algo_name}-server-grad-not-zero',
                  f'{algo_name}: a round without any real example must give a zero full-batch gradient', w_)
        ctx.count('algo-all-clients-empty')
        results.append(None)
        continue
      w_ = {**gw, 'observed_server_grads': sg, 'expected': e_all['grad']}
      ctx.check(not has_nan(sg), f'empty/{algo_name}-server-grad-nan', f'{algo_name}: NaN in the server gradient', w_)
      ctx.check(tree_within(sg, e_all['grad'], e_all['grad_scale']), f'algo/{algo_name}-server-grad-vs-closed-form',
                f'{algo_name}.apply: server gradient differs from the full-batch gradient (+ regularizer once)', w_)
      if cfg.reg is not None:
        resid = {k: sg[k] - e_all['data_grad'][k] for k in sg}
        ctx.check(tree_within(resid, e_all['reg_grad'], e_all['grad_scale']), f'regonce/{algo_name}-regularizer-not-once',
                  f'{algo_name}.apply: server gradient minus data term is not exactly one regularizer gradient', w_)
      results.append({'server_grads': sg, 'params': to64(st.params)})
    elif algo_name == 'agnostic_fed_avg':
      e_dl, e_ds, e_dn = np.zeros(D), np.zeros(D), np.zeros(D)
      np.add.at(e_dl, allx['domain_id'], e_all['loss_rows'])
      np.add.at(e_ds, allx['domain_id'], e_all['loss_rows_scale'])
      np.add.at(e_dn, allx['domain_id'], 1.0)
      mean_l = np.where(e_dn > 0, e_dl / np.maximum(e_dn, 1), 0.0)
      mean_s = np.where(e_dn > 0, e_ds / np.maximum(e_dn, 1), 0.0)
      e_w = dw0 * np.exp(dlr * mean_l)
      e_w = e_w / e_w.sum()
      win = np.asarray(st.domain_window[-1], np.float64)
      dw = np.asarray(st.domain_weights, np.float64)
      w_ = {**gw, 'domain_window': win, 'domain_weights': dw, 'expected_counts': e_dn, 'expected_weights': e_w,
            'init_domain_weights': dw0, 'domain_learning_rate': dlr}
      ctx.check(not has_nan(dw) and not has_nan(win), 'empty/agnostic-domain-weights-nan', 'agnostic FedAvg: NaN domain weights/window', w_)
      ctx.check(win.shape == (D,) and bool(np.all(win == e_dn)), 'algo/agnostic-domain-count',
                'agnostic FedAvg: new domain window differs from the per-domain number of real examples', w_)
      ctx.check(within(dw, e_w, 4 * (dlr * mean_s + 1) * e_w), 'algo/agnostic-domain-weights',
                'agnostic FedAvg: new domain weights differ from w*exp(lr*mean domain loss)/Z', w_)
      results.append({'domain_weights': dw, 'domain_window': win})
    else:
      got = {c: int(diag[ids[c]]['cluster_id']) for c in range(n_clients) if ids[c] in diag}
      ctx.check(len(got) == n_clients, 'algo/hyp-client-ids', 'hyp_cluster: diagnostics miss a client', gw)
      clear = {}
      for c, cl in got.items():
        e1 = expected_dataset(cfg, params, exs[c])
        e2 = expected_dataset(cfg, params2, exs[c])
        want = [e1['avg_loss'], e2['avg_loss']]
        tol = 4 * (RT * max(e1['avg_loss_scale'], e2['avg_loss_scale']) + AT)
        if abs(want[0] - want[1]) > tol:
          clear[c] = cl
          ctx.check(cl == int(np.argmin(want)), 'algo/hyp-cluster-id', 'hyp_cluster.apply assigned a client to the higher-loss cluster',
                    {**gw, 'client': c, 'n': sizes[c], 'observed': cl, 'expected_losses': want, 'params2': params2})
      results.append({'cluster_ids': clear})
  # ---- differential across the geometries
  live = [r_ for r_ in results if r_ is not None]
  if len(live) >= 2:
    if algo_name in ('mime', 'mime_lite'):
      for k in params:
        vals = np.stack([r_['server_grads'][k] for r_ in live])
        ctx.check(bool(np.all(vals.max(0) - vals.min(0) <= 2 * (RT * e_all['grad_scale'][k] + AT))), f'geom/{algo_name}-server-grad',
                  f'{algo_name}.apply: server gradient changes with grads_batch_hparams', {**wit, 'leaf': k, 'values': vals})
        pv = np.stack([r_['params'][k] for r_ in live])
        ctx.check(bool(np.all(pv.max(0) - pv.min(0) <= 4 * (RT * (np.abs(pv).max(0) + e_all['grad_scale'][k]) + AT))),
                  f'geom/{algo_name}-params', f'{algo_name}.apply: new server params change with grads_batch_hparams',
                  {**wit, 'leaf': k, 'values': pv})
    elif algo_name == 'agnostic_fed_avg':
      wv = np.stack([r_['domain_window'] for r_ in live])
      ctx.check(bool(np.all(wv.max(0) == wv.min(0))), 'geom/agnostic-domain-count', 'agnostic FedAvg: domain window changes with domain_batch_hparams',
                {**wit, 'values': wv})
      dv = np.stack([r_['domain_weights'] for r_ in live])
      ctx.check(bool(np.all(dv.max(0) - dv.min(0) <= 1e-4 * dv.max(0) + AT)), 'geom/agnostic-domain-weights',
                'agnostic FedAvg: domain weights change with domain_batch_hparams', {**wit, 'values': dv})
    else:
      common = set.intersection(*[set(r_['cluster_ids']) for r_ in live])
      same = all(len({r_['cluster_ids'][c] for r_ in live}) == 1 for c in common)
      ctx.check(same, 'geom/hyp-cluster-id', 'hyp_cluster.apply: assignment changes with maximization_batch_hparams', wit)
  klass = cfg.classes() + [f'algo:{algo_name}']
  if any(s_ == 0 for s_ in sizes):
    klass.append('algo-empty-client')
  ctx.case_done((cfg.idx, algo_name, tuple(sizes), tuple(geoms), digest(*params.values(), *allx.values())), sample=wit, klass=klass)


def bigbatch_case(ctx, mods, rng, case_no):
  """Large padded batches (hundreds to thousands of real rows of ONE domain per batch) with a reduced-precision per-example
  loss: the per-domain example COUNTS and beta are exact integers whatever the loss dtype and the batch size; with a float32
  loss the per-domain loss sums and the average loss are batch-size independent too."""
  jax, jnp, fedjax, models, regularizers, mime, afa, hc = mods
  from fedjax.core import client_datasets as cd
  D = 2
  ldt, lname = [(jnp.bfloat16, 'bfloat16'), (jnp.float16, 'float16'), (jnp.float32, 'float32')][case_no % 3]
  n = int([300, 700, 1300, 2600][case_no % 4]) + int(rng.randint(0, 7))
  x = rng.uniform(-1, 1, size=(n, 2)).astype(np.float32)
  y = (x @ np.array([1.0, -2.0]) + 0.1 * rng.randn(n)).astype(np.float32)
  dom = (rng.rand(n) < 0.08).astype(np.int32)          # nearly everything in domain 0
  ex = {'x': x, 'y': y, 'domain_id': dom}
  params = {'w': jnp.asarray(rng.randn(2).astype(np.float32))}
  alpha = np.array([0.75, 1.5], np.float32)

  def loss(p, b, r):
    del r
    return (0.5 * jnp.square(b['x'] @ p['w'] - b['y'])).astype(ldt)

  fn = afa.create_domain_metrics_for_each_client(loss, D)
  counts = np.array([(dom == d).sum() for d in range(D)], np.float64)
  rows64 = 0.5 * (x.astype(np.float64) @ np.asarray(params['w'], np.float64) - y) ** 2
  wit = {'family': 'bigbatch', 'loss_dtype': lname, 'examples': n, 'per_domain_counts': counts}
  seen = []
  for bs in (64, 512, 1024, 4096):
    batches = list(cd.ClientDataset(ex).padded_batch(batch_size=bs))
    w = {**wit, 'batch_size': bs}
    r = ctx.call('agnostic.create_domain_metrics_for_each_client', lambda: dict(fn({'params': params, 'alpha': jnp.asarray(alpha)},
                 [(b'big', batches, jax.random.PRNGKey(0))])), witness=w)
    if not r.ok or b'big' not in r.value:
      continue
    o = r.value[b'big']
    dn, beta = np.asarray(o['domain_num'], np.float64), float(np.asarray(o['beta'], np.float64))
    ctx.count('hit:big-batch-domain-pass')
    ctx.check(dn.shape == (D,) and bool(np.all(dn == counts)), 'domain/count-not-number-of-real-examples',
              f'per-domain counts {dn} with a {lname} loss and batch size {bs}; the client has {counts} examples per domain', {**w, 'observed': dn})
    ctx.check(abs(beta - float(np.sum(alpha * counts))) <= 1e-4 * float(np.sum(alpha * counts)), 'domain/beta',
              f'beta {beta} != sum(alpha * counts) = {float(np.sum(alpha * counts))} (loss dtype {lname}, batch size {bs})', w)
    if lname == 'float32':
      dl = np.asarray(o['domain_loss'], np.float64)
      e_dl = np.array([rows64[dom == d].sum() for d in range(D)])
      ctx.check(bool(np.all(np.abs(dl - e_dl) <= 2e-4 * (e_dl + 1))), 'domain/loss-sum-vs-closed-form',
                f'per-domain loss sums {dl} differ from {e_dl} (batch size {bs}, {n} examples)', w)
      r2 = ctx.call('evaluate_average_loss', models.evaluate_average_loss, params, batches, jax.random.PRNGKey(1), loss, None, witness=w)
      if r2.ok:
        seen.append(float(r2.value))
        ctx.check(abs(float(r2.value) - rows64.mean()) <= 2e-4 * (rows64.mean() + 1), 'avgloss/dataset-vs-closed-form',
                  f'evaluate_average_loss {float(r2.value)} over {n} examples in batches of {bs}; mean loss {rows64.mean()}', w)
  ctx.case_done(('bigbatch', lname, n), sample=wit, klass=['bigbatch', 'bigbatch:' + lname])


# ------------------------------------------------------------------------- run
def run(ctx):
  from vmon import core
  import jax
  import jax.numpy as jnp
  import fedjax
  from fedjax.core import models
  from fedjax.core import regularizers
  from fedjax.core import client_datasets as cd
  from fedjax.algorithms import mime
  from fedjax.algorithms import agnostic_fed_avg as afa
  from fedjax.algorithms import hyp_cluster as hc
  import warnings
  warnings.filterwarnings('ignore', message='Some donated buffers were not usable')
  if fedjax.grad is not models.grad or fedjax.model_grad is not models.model_grad or \
      fedjax.evaluate_average_loss is not models.evaluate_average_loss:
    raise RuntimeError('fedjax public aliases do not point at fedjax.core.models')
  oracle_selfcheck(core)
  MK = cd.EXAMPLE_MASK_KEY
  mods = (jax, jnp, fedjax, models, regularizers, mime, afa, hc)
  cache = {}

  def cfgs(idx):
    if idx not in cache:
      cache[idx] = Config(ctx, idx, mods)
    return cache[idx]

  import time
  n_batch, n_data, n_algo = (1600, 320, 16) if ctx.quick else (16000, 2400, 200)
  t0 = time.time()
  for cid, rng in ctx.cases('batch', n_batch):
    batch_case(ctx, mods, cfgs, MK, int(cid.split('/')[1]), rng)
  ctx.notes['shard0_seconds_batch_family'] = round(time.time() - t0, 1)
  t0 = time.time()
  for cid, rng in ctx.cases('dataset', n_data):
    dataset_case(ctx, mods, cfgs, MK, int(cid.split('/')[1]), rng)
  ctx.notes['shard0_seconds_dataset_family'] = round(time.time() - t0, 1)
  t0 = time.time()
  for cid, rng in ctx.cases('algo', n_algo):
    algo_case(ctx, mods, cfgs, int(cid.split('/')[1]), rng)
  for cid, rng in ctx.cases('algo-empty', 8 if ctx.quick else 64):
    algo_case(ctx, mods, cfgs, int(cid.split('/')[1]), rng, force_empty=True)
  ctx.notes['shard0_seconds_algo_family'] = round(time.time() - t0, 1)
  for cid, rng in ctx.cases('bigbatch', 12 if ctx.quick else 96):
    bigbatch_case(ctx, mods, rng, int(cid.split('/')[1]))
TECHNIQUE += '; gradient functions rebuilt from one regularizer object whose centre moves between builds'
RULE += " Wave-8 addition: one regularizer object whose centre is replaced / updated in place between rounds, model_grad / grad built anew each round: gradient minus data term must be that round's regularizer gradient."
