"""C15 — Centralised streams over many clients neither lose nor duplicate.

Families
  pbox / prand   padded_batch_client_datasets + padded_batch_federated_data over client-size sequences
  reject         mismatching preprocessor objects / feature sets must raise ValueError
  shuf / shufr   buffered_shuffle over every kind of base iterable and every buffer size
  repeat         RepeatableIterator, 3 passes over every kind of base iterable
  bsb / bsbr     buffered_shuffle_batch_client_datasets (one finite pass)
  fds            shuffle_repeat_batch_federated_data (prefix of the infinite stream) + shuffled_clients passes
All datasets carry a unique int64 `idx` column (unique across clients), so concatenation order, loss and
duplication are directly observable.
"""
import itertools
import signal

import numpy as np

from vmon import gen
from vmon.core import HarnessError, Inconclusive, bit_equal

PROPERTY = 'C15'
LEVEL = 'exploration'
RULE = ('Exhaustive box of client-size sequences sizes in {0..2B+1}^m, m<=3, B<=4, buckets<=3 [thorough: B<=5, and m<=4 for B<=3] through '
        'padded_batch_client_datasets (list/tuple/generator/iterator/RepeatableIterator inputs) and padded_batch_federated_data '
        '(InMemoryFederatedData with hostile byte ids); random longer sequences (m<=12, B<=33, buckets<=6); ValueError '
        'rejection cases; buffered_shuffle exhaustive over length 0..L x buffer 1..len+2 x 9 base-iterable kinds with 5-12 '
        'seeds; RepeatableIterator 3 passes per base kind; buffered_shuffle_batch_client_datasets over a small exhaustive '
        'box x every buffer size plus random points; shuffle_repeat_batch_federated_data prefixes. Non-trivial: padded '
        'point with >=2 clients or a remainder; shuffle/repeat with >=2 items; batch-shuffle with >=2 examples; distinct by '
        'the full case parameters.')
RULE += (' Wave-4 addition: the first padded stream of every case is held while a second stream of the same layout and sizes but other values is batched, then re-compared bit for bit.')
ASSUMPTIONS = [
    'generated batch preprocessors are strictly per-example (commute with slicing and concatenation)',
    'for a total of zero examples only "no real row is produced" is demanded (an all-padding batch is accepted)',
    'one trailing batch without any real row (observed when the stream ends with empty clients right after a full '
    'batch) is counted as class *:trailing-all-padding-batch and accepted: nothing is lost or duplicated and all '
    'earlier batches stay full',
    '"non-trivial order" is judged only for length>=4 and buffer>=2: the output must differ from the input order for at '
    'least one of 5 seeds (12 seeds when length<6)',
    'shuffle_repeat_batch_federated_data: only per-batch shape, id validity, row integrity and seed reproducibility are '
    'judged on a finite prefix; it is never run on a federated dataset without examples (does not terminate)',
    'RepeatableIterator passes are never interleaved with each other (docstring); one pass may be consumed in pieces',
]
SHARDS = {'quick': 4, 'thorough': 14}
SHARD_TIMEOUT = {'quick': 600, 'thorough': 2400}
EXHAUSTIVE = {'quick': True, 'thorough': True}
MIN_HITS = {
    'quick': {
        'hit:held-batches': 3000, 'hit:examples-changed-after-construction': 800, 'repeat:sized-one-shot': 8, 'repeat:sized-changing-iterable': 8, 'hit:fresh-interpreter-stream': 100, 'shuffle:long-input': 10, 'fd-form:derived-subset': 300, 'mon:concat-pcd': 3500, 'mon:concat-pfd': 3500, 'mon:full-pcd': 15000, 'mon:full-pfd': 15000, 'mon:bucket-pcd': 7000,
        'mon:bucket-pfd': 7000, 'mon:repeat-padded': 6000, 'mon:reject': 400, 'reject:padded-preprocessor': 60,
        'reject:padded-features': 60, 'reject:bsb-preprocessor': 50, 'reject:bsb-features': 50,
        'mon:multiset-shuffle': 2500, 'mon:repro-shuffle': 2500, 'mon:order-shuffle': 400, 'mon:repeat-iter': 300,
        'mon:bsbshape': 2500, 'mon:multiset-bsb': 2500, 'mon:bsbrows': 2500, 'mon:repro-bsb': 2500, 'mon:order-bsb': 300,
        'mon:fdstream': 900, 'fds:seed=0': 10, 'mon:repro-fdstream': 150, 'mon:clients': 200, 'mon:repro-clients': 200, 'mon:readonly': 4000,
        'padded:fits-in-buffer': 1000, 'padded:exactly-fills': 500, 'padded:spans-several-batches': 1000,
        'padded:leaves-exact-batch': 1000, 'padded:empty-client': 1000, 'padded:total=0': 20, 'repeat:copying': 40,
        'repeat:container': 50, 'shuffle:buffer>len': 100, 'shuffle:buffer=len': 50, 'shuffle:buffer<len': 200,
        'shuffle:buffer=1': 40, 'iter:generator': 500, 'iter:repeatable-gen': 500,
    },
    'thorough': {
        'mon:concat-pcd': 25000, 'mon:concat-pfd': 25000, 'mon:full-pcd': 150000, 'mon:full-pfd': 150000,
        'mon:bucket-pcd': 50000, 'mon:bucket-pfd': 50000, 'mon:repeat-padded': 40000, 'mon:reject': 6000,
        'reject:padded-preprocessor': 900, 'reject:padded-features': 900, 'reject:bsb-preprocessor': 700,
        'reject:bsb-features': 700, 'mon:multiset-shuffle': 25000, 'mon:repro-shuffle': 25000, 'mon:order-shuffle': 4000,
        'mon:repeat-iter': 900, 'mon:bsbshape': 20000, 'mon:multiset-bsb': 20000, 'mon:bsbrows': 20000,
        'mon:repro-bsb': 20000, 'mon:order-bsb': 3000, 'mon:fdstream': 18000, 'fds:seed=0': 200, 'mon:repro-fdstream': 3000,
        'mon:clients': 4000, 'mon:repro-clients': 4000, 'mon:readonly': 35000,
        'padded:fits-in-buffer': 15000, 'padded:exactly-fills': 8000, 'padded:spans-several-batches': 20000,
        'padded:leaves-exact-batch': 12000, 'padded:empty-client': 12000, 'padded:total=0': 200, 'repeat:copying': 130,
        'repeat:container': 130, 'shuffle:buffer>len': 700, 'shuffle:buffer=len': 350, 'shuffle:buffer<len': 4000,
        'shuffle:buffer=1': 350, 'iter:generator': 4000, 'iter:repeatable-gen': 4000,
    },
}

MASK = '__mask__'
# A trailing batch without any real row is not excluded by the property text (see ASSUMPTIONS). Set to False to
# report it under the mechanism key full-*/trailing-all-padding-batch instead of counting it as a class.
ACCEPT_TRAILING_ALL_PADDING_BATCH = True


# ----------------------------------------------------------------------------- references
def ref_final_size(r, b, k):
  """Bucket rule of the padded_batch docstring for a final batch of r real rows (1 <= r <= b)."""
  if r == b:
    return b
  cands, cur = [], b
  for _ in range(k):
    cands.append(cur)
    cur //= 2
  return min(c for c in cands if c >= r)


def make_chain(rng, feature_names):
  """0-2 strictly per-example preprocessing functions; returns (fns, description)."""
  fns, descr = [], []
  names = list(feature_names)
  for j in range(int(rng.randint(0, 3))):
    kind = int(rng.randint(3))
    if kind == 0:
      mult = int(rng.randint(2, 9))
      new = f'd{j}'

      def f(ex, mult=mult, new=new, j=j):
        return {**ex, new: (ex['idx'] * mult + j + 1).astype(np.float32)}

      names.append(new)
      descr.append(f'derive:{new}=idx*{mult}+{j + 1}')
    elif kind == 1:
      cand = [n for n in names if n != 'idx' and not n.startswith(('bytes', 's5', 'u3'))]
      if not cand:
        continue
      tgt = cand[int(rng.randint(len(cand)))]

      def f(ex, tgt=tgt):
        return {**ex, tgt: ex[tgt].astype(np.float64) * 2}

      descr.append(f'cast:{tgt}->f64*2')
    else:
      cand = [n for n in names if n != 'idx']
      if not cand:
        continue
      tgt = cand[int(rng.randint(len(cand)))]

      def f(ex, tgt=tgt):
        return {k: v for k, v in ex.items() if k != tgt}

      names.remove(tgt)
      descr.append(f'drop:{tgt}')
    fns.append(f)
  return fns, descr


def make_clients(rng, sizes, with_features=True):
  """Raw column dicts (one per client) with ids unique across clients; all read-only."""
  k = int(rng.randint(0, 3)) if with_features else 0
  sel = rng.choice(len(gen.FEATURE_KINDS), size=k, replace=False) if k else []
  kinds = [gen.FEATURE_KINDS[i] for i in sel]
  base = int(rng.randint(0, 500)) if rng.rand() < 0.6 else 0
  raws, digs = [], []
  for s in sizes:
    raw = gen.make_examples(rng, s, kinds=kinds, idx_base=base)
    # fixed-width string columns naturally differ in width from client to client (np.array(list_of_words) picks the
    # longest word of THAT client): narrow / widen per client without changing any value
    for name, col in list(raw.items()):
      if col.dtype.kind in 'SU':
        longest = max([len(v) for v in col.ravel().tolist()] + [1])
        raw[name] = col.astype(f'{col.dtype.kind}{longest + int(rng.randint(0, 4))}')
    base += s
    if len(raw) >= 2 and rng.rand() < 0.3:
      # the same feature SET listed in another key order (clients built by different code paths): still "identical features"
      names = list(raw)
      rng.shuffle(names)
      raw = {k_: raw[k_] for k_ in names}
    digs.append(gen.freeze(raw))
    raws.append(raw)
  return raws, digs, kinds


def concat_ref(raws, fns):
  """Harness reference: the chain applied to the concatenation of all clients."""
  ref = {name: np.concatenate([r[name] for r in raws], axis=0) for name in raws[0]}
  for f in fns:
    ref = f(ref)
  return ref


def wrap_iterable(kind, items, fd_mod):
  if kind == 'list':
    return list(items)
  if kind == 'tuple':
    return tuple(items)
  if kind == 'generator':
    return (x for x in items)
  if kind == 'iterator':
    return iter(list(items))
  if kind == 'repeatable-gen':
    return fd_mod.RepeatableIterator(x for x in items)
  if kind == 'repeatable-list':
    return fd_mod.RepeatableIterator(list(items))
  raise AssertionError(kind)


class BoundedPass:
  """Iterates one pass of `it` but never more than `limit` items (a replay that grows must not hang the harness)."""

  def __init__(self, it, limit):
    self.it, self.limit, self.overflow = it, limit, False

  def __iter__(self):
    k = 0
    for x in self.it:
      k += 1
      if k > self.limit:
        self.overflow = True
        return
      yield x


ITER_KINDS = ['list', 'tuple', 'generator', 'iterator', 'repeatable-gen', 'repeatable-list']


# ----------------------------------------------------------------------------- padded batching
def make_fd(fedjax, mapping, fns, form):
  """The same logical dataset + batch-preprocessor chain, as a plain in-memory dataset or as a DERIVED subset view of it (subset
  over all ids, chain appended with preprocess_batch(), optionally sliced over the full range): iteration order of every form is
  sorted client-id order."""
  from fedjax.core import client_datasets as cd
  from fedjax.core import federated_data as fdm
  if form == 'in-memory':
    return fedjax.InMemoryFederatedData(mapping, preprocess_batch=cd.BatchPreprocessor(fns))
  fd = fdm.SubsetFederatedData(fedjax.InMemoryFederatedData(mapping), list(mapping))
  for f in fns:
    fd = fd.preprocess_batch(f)
  if form == 'derived-subset-sliced':
    fd = fd.slice(None, None)
  return fd


FD_FORMS = ('in-memory', 'derived-subset', 'derived-subset-sliced')
# seeded stream observations of the current fds case (compared with a fresh-interpreter replay under another PYTHONHASHSEED)
FDS_TRACE = None


def judge_padded(ctx, fam, batches, ref, total, b, k, wit):
  """fam: 'pcd' (client datasets) or 'pfd' (federated data) -> monitor families concat-*, full-*, bucket-*."""
  if total == 0:
    ok = len(batches) <= 1 and all(MASK in bt and not np.any(bt[MASK]) for bt in batches)
    ctx.check(ok, f'concat-{fam}/rows-from-nothing', f'{len(batches)} batches with real rows from zero examples', wit)
    if batches:
      ctx.klass(f'{fam}:all-padding-batch-from-zero-examples')
      if not ACCEPT_TRAILING_ALL_PADDING_BATCH:
        ctx.violation(f'full-{fam}/trailing-all-padding-batch', 'a batch without any real row from zero examples', wit)
    return
  nb = -(-total // b)
  for i, bt in enumerate(batches):
    m = bt.get(MASK)
    if m is None or getattr(m, 'dtype', None) != np.bool_ or m.ndim != 1:
      ctx.violation(f'full-{fam}/mask-missing', f'batch {i}: mask missing or not a 1-d bool array', wit)
      return
    if set(bt) - {MASK} != set(ref):
      ctx.violation(f'concat-{fam}/feature-set', f'batch {i} features {sorted(bt)} != {sorted(ref)}', wit)
      return
    if any(v.shape[0] != len(m) for v in bt.values()):
      ctx.violation(f'full-{fam}/ragged-batch', f'batch {i}: features with different row counts', wit)
      return
  # A single trailing batch without any real row (emitted when the stream ends with empty clients right after a
  # full batch) neither loses nor duplicates anything and leaves every earlier batch full: the property does not
  # exclude it. It is counted, not judged; the batch before it is then judged as a non-final (= full) batch.
  judged = batches
  trailing_pad = len(batches) == nb + 1 and not batches[-1][MASK].any()
  if trailing_pad:
    ctx.klass(f'{fam}:trailing-all-padding-batch')
    judged = batches[:-1]
    if not ACCEPT_TRAILING_ALL_PADDING_BATCH:
      ctx.violation(f'full-{fam}/trailing-all-padding-batch',
                    f'{len(batches)} batches for {total} examples: the last one has no real row', wit)
  ctx.check(len(judged) == nb, f'full-{fam}/batch-count',
            f'{len(batches)} batches, expected ceil({total}/{b})={nb} (plus at most one batch without real rows)', wit)
  struct_ok = True
  for i, bt in enumerate(judged):
    m = bt[MASK]
    last = i == len(judged) - 1 and not trailing_pad
    if not last:
      if not ctx.check(len(m) == b and bool(m.all()), f'full-{fam}/nonfinal-not-full',
                       f'non-final batch {i} has {len(m)} rows, {int(m.sum())} real (batch_size {b})', {**wit, 'batch': i}):
        struct_ok = False
    elif len(judged) == nb:
      r = total - (nb - 1) * b
      exp = ref_final_size(r, b, k)
      ctx.check(len(m) == exp, f'bucket-{fam}/final-size',
                f'final batch of {r} real rows has {len(m)} rows, the bucket rule gives {exp}', {**wit, 'batch': i})
      ctx.check(int(m.sum()) == r and bool(m[:r].all()), f'bucket-{fam}/final-mask',
                f'final batch mask {m.tolist()} is not a True-prefix of {r} rows', {**wit, 'batch': i})
  if not struct_ok:
    return
  ok = bool(batches)
  for name, col in (ref.items() if batches else ()):
    got = np.concatenate([bt[name][bt[MASK]] for bt in batches], axis=0)
    if not bit_equal(got, col):
      ok = False
      wit = {**wit, 'feature': name, 'got': got, 'expected': col}
      break
  ctx.check(ok, f'concat-{fam}/content', 'un-padded rows differ from the concatenation of the client datasets in order', wit)


def same_batches(x, y):
  return len(x) == len(y) and all(set(a) == set(c) and all(bit_equal(a[f], c[f]) for f in a) for a, c in zip(x, y))


def carry_classes(sizes, b):
  out = set()
  c0 = 0
  for s in sizes:
    carry = c0 % b
    if s == 0:
      out.add('empty-client')
    else:
      if carry + s < b:
        out.add('fits-in-buffer')
      if carry and carry + s == b:
        out.add('exactly-fills')
      if carry + s >= 2 * b:
        out.add('spans-several-batches')
      if (c0 + s) % b == 0 and s >= b:
        out.add('leaves-exact-batch')
      if s > b and (c0 + s) % b:
        out.add('tail-after-full-batches')
    c0 += s
  if c0 and c0 % b == 0:
    out.add('total-multiple-of-B')
  if c0 == 0:
    out.add('total=0')
  return sorted(out)


def padded_point(ctx, fedjax, cd, fd_mod, rng, b, k, sizes):
  sizes = list(sizes)
  m = len(sizes)
  total = sum(sizes)
  raws, digs, kinds = make_clients(rng, sizes)
  fns, descr = make_chain(rng, raws[0].keys()) if m else ([], [])
  shared = int(rng.randint(3))
  if fns or shared == 0:
    pre = cd.BatchPreprocessor(fns)
  else:
    pre = cd.NoOpBatchPreprocessor
  dsets = [cd.ClientDataset(r, pre) if (fns or shared != 2) else cd.ClientDataset(r) for r in raws]
  ref = concat_ref(raws, fns) if m else {}
  ikind = ITER_KINDS[int(rng.randint(len(ITER_KINDS)))]
  style = int(rng.randint(3))
  wit = {'batch_size': b, 'buckets': k, 'sizes': sizes, 'features': [kd[0] for kd in kinds], 'chain': descr,
         'iterable': ikind, 'invocation': ['kwargs', 'hparams', 'hparams+override'][style]}

  def hp_call(fn, first):
    if style == 0:
      return fn(first, batch_size=b, num_batch_size_buckets=k)
    if style == 1:
      return fn(first, cd.PaddedBatchHParams(batch_size=b, num_batch_size_buckets=k))
    return fn(first, cd.PaddedBatchHParams(batch_size=b + 2, num_batch_size_buckets=1), batch_size=b,
              num_batch_size_buckets=k)

  src = wrap_iterable(ikind, dsets, fd_mod)
  npass = 3 if ikind.startswith('repeatable') or ikind in ('list', 'tuple') else 1
  if ikind.startswith('repeatable'):
    src = BoundedPass(src, m)

  def run_cd():
    return [list(hp_call(fedjax.padded_batch_client_datasets, src)) for _ in range(npass)]

  r = ctx.call('padded_batch_client_datasets', run_cd, witness=wit)
  if r.ok:
    passes = r.value
    judge_padded(ctx, 'pcd', passes[0], ref, total, b, k, wit)
    if npass > 1:
      ctx.check(all(same_batches(passes[0], p) for p in passes[1:]), 'repeat-padded/pass-differs',
                f'batching the same {ikind} of datasets again yields different batches', wit)
    if isinstance(src, BoundedPass):
      ctx.check(not src.overflow, 'repeat-padded/pass-yields-extra-items',
                f'a pass over a RepeatableIterator of {m} datasets yields more than {m} items', wit)

  # ---- batches already handed out stay what they were: the first stream's batches are still held (as list(...) of an
  #      evaluation stream is) while a second stream of the same layout and sizes -- hence the same padded shapes -- but
  #      different values is batched
  if r.ok and total > 0:
    held = r.value[0]
    snap = [{f: np.array(v, copy=True) for f, v in bt.items()} for bt in held]
    raws2 = []
    for raw in raws:
      raw2 = {}
      for name, v in raw.items():
        if v.dtype.kind in 'iu':
          raw2[name] = (v + np.asarray(7, v.dtype)).astype(v.dtype)
        elif v.dtype.kind == 'f':
          raw2[name] = (v * np.asarray(-2, v.dtype) - np.asarray(1, v.dtype)).astype(v.dtype)
        elif v.dtype.kind == 'b':
          raw2[name] = ~v
        else:
          raw2[name] = np.roll(v, 1, axis=0) if len(v) > 1 else v.copy()
      raws2.append(raw2)
    dsets2 = [cd.ClientDataset(r2_, pre) if (fns or shared != 2) else cd.ClientDataset(r2_) for r2_ in raws2]
    r2 = ctx.call('padded_batch_client_datasets', lambda: list(hp_call(fedjax.padded_batch_client_datasets, dsets2)), witness=wit)
    if r2.ok:
      ctx.count('hit:held-batches')
      bad = next(((i, f) for i, (x, y) in enumerate(zip(held, snap)) for f in y if f not in x or not bit_equal(x[f], y[f])), None)
      ctx.check(bad is None and len(held) == len(snap), 'held/padded-batches-changed-by-later-stream',
                'padded batches of one stream, still held by the consumer, changed when another stream of the same layout was '
                'batched', {**wit, 'first_changed': bad})

  # ---- datasets whose example dict is filled / grown / shrunk by the caller AFTER ClientDataset(...) was constructed (a
  #      ClientDataset keeps the caller's mapping by reference and exposes it as raw_examples): what is batched is what the
  #      datasets hold when the stream is consumed
  if m and total > 0 and (len(sizes) + b + total) % 3 == 0:
    how = ['grown', 'shrunk', 'replaced'][(b + total) % 3]
    live = []
    for raw in raws:
      n_ = len(next(iter(raw.values())))
      n0 = {'grown': n_ // 2, 'shrunk': n_, 'replaced': n_}[how]
      live.append({f: (np.concatenate([v, v[:1]]) if how == 'shrunk' and n_ else np.zeros_like(v) if how == 'replaced' else v[:n0]).copy() for f, v in raw.items()})
    dsets3 = [cd.ClientDataset(lv, pre) if (fns or shared != 2) else cd.ClientDataset(lv) for lv in live]
    lens0 = [len(d_) for d_ in dsets3]
    for lv, raw in zip(live, raws):
      for f, v in raw.items():
        lv[f] = v.copy()
    r3 = ctx.call('padded_batch_client_datasets', lambda: list(hp_call(fedjax.padded_batch_client_datasets, dsets3)),
                  witness={**wit, 'examples_after_construction': how})
    if r3.ok:
      ctx.count('hit:examples-changed-after-construction')
      w3 = {**wit, 'examples_after_construction': how, 'len_at_construction': lens0}
      ctx.check([len(d_) for d_ in dsets3] == sizes, 'live/len-stale-after-caller-changed-examples',
                'len(ClientDataset) is not the number of examples its raw_examples hold now', w3)
      judge_padded(ctx, 'pcd-live', r3.value, ref, total, b, k, w3)

  if m:
    ids = gen.hostile_client_ids(rng, m)
    # (InMemoryFederatedData itself insists on one key ORDER for all clients -- its own input validation, not this property's
    #  business: hand it the clients with their features in one order)
    mapping = {cid: {k_: raw[k_] for k_ in sorted(raw)} for cid, raw in zip(ids, raws)}
    if rng.rand() < 0.5:  # insertion order must not matter: clients() iterates in sorted id order
      keys = list(mapping)
      rng.shuffle(keys)
      mapping = {kk: mapping[kk] for kk in keys}
    form = FD_FORMS[(len(sizes) + b + k + total) % 3]
    witf = {**wit, 'client_ids': ids, 'dataset_form': form}
    ctx.count('fd-form:' + form)

    def run_fd():
      fd = make_fd(fedjax, mapping, fns, form)
      return [list(hp_call(fedjax.padded_batch_federated_data, fd)) for _ in range(2)]

    r = ctx.call('padded_batch_federated_data', run_fd, witness=witf)
    if r.ok:
      judge_padded(ctx, 'pfd', r.value[0], ref, total, b, k, witf)
      ctx.check(same_batches(r.value[0], r.value[1]), 'repeat-padded/federated-differs',
                'padded_batch_federated_data over the same data yields different batches', witf)

  ctx.check([gen.digest(x) for x in raws] == digs, 'readonly/raw-mutated', 'raw client arrays changed', wit)
  klass = ['padded:' + c for c in carry_classes(sizes, b)] if m else ['padded:no-clients']
  klass.append('iter:' + ikind)
  nontrivial = m >= 2 or (m == 1 and sizes[0] % b != 0)
  ctx.case_done(('padded', b, k, tuple(sizes), tuple(wit['features']), tuple(descr), ikind) if nontrivial else None,
                sample=wit, klass=klass)


# ----------------------------------------------------------------------------- rejection
MISMATCH_KINDS = ['preprocessor-other', 'preprocessor-equal-content', 'preprocessor-noop-vs-empty', 'feature-added',
                  'feature-removed', 'feature-renamed']


def reject_point(ctx, fedjax, cd, rng):
  b = int(rng.randint(1, 7))
  m = int(rng.randint(2, 6))
  sizes = [int(rng.randint(0, 2 * b + 2)) for _ in range(m)]
  if rng.rand() < 0.3:
    sizes[int(rng.randint(m))] = 0
  j = int(rng.randint(1, m))
  kind = MISMATCH_KINDS[int(rng.randint(len(MISMATCH_KINDS)))]
  raws, _, kinds = make_clients(rng, sizes)
  if not kinds:  # need one removable feature
    for r_ in raws:
      r_['w'] = np.ones((len(r_['idx']),), np.float32)
  fn1 = lambda ex: {**ex, 'd': ex['idx'] * 2}
  fns = [fn1] if rng.rand() < 0.6 else []
  pre = cd.BatchPreprocessor(fns)
  pres = [pre] * m
  raws = [dict(r_) for r_ in raws]
  if kind == 'preprocessor-other':
    pres[j] = cd.BatchPreprocessor(fns + [lambda ex: dict(ex)])
  elif kind == 'preprocessor-equal-content':
    pres[j] = cd.BatchPreprocessor(fns)
  elif kind == 'preprocessor-noop-vs-empty':
    pres = [cd.BatchPreprocessor()] * m
    pres[j] = cd.NoOpBatchPreprocessor
  elif kind == 'feature-added':
    raws[j]['extra'] = np.zeros((sizes[j],), np.int32)
  elif kind == 'feature-removed':
    del raws[j][[n for n in raws[j] if n != 'idx'][0]]
  else:
    name = [n for n in raws[j] if n != 'idx'][0]
    raws[j][name + '_x'] = raws[j].pop(name)
  dsets = [cd.ClientDataset(r_, p) for r_, p in zip(raws, pres)]
  which = 'padded' if rng.rand() < 0.55 else 'bsb'
  ikind = ['list', 'generator'][int(rng.randint(2))]
  wit = {'function': which, 'batch_size': b, 'sizes': sizes, 'mismatch_at': j, 'mismatch': kind, 'iterable': ikind,
         'features': [list(r_) for r_ in raws]}
  src = list(dsets) if ikind == 'list' else (d for d in dsets)
  if which == 'padded':
    call = lambda: list(fedjax.padded_batch_client_datasets(src, batch_size=b, num_batch_size_buckets=int(rng.randint(1, 4))))
    entry = 'padded_batch_client_datasets'
  else:
    buf = int(rng.randint(1, sum(sizes) + 3))
    wit['buffer_size'] = buf
    call = lambda: list(
        fedjax.buffered_shuffle_batch_client_datasets(src, batch_size=b, buffer_size=buf, rng=np.random.RandomState(3)))
    entry = 'buffered_shuffle_batch_client_datasets'
  r = ctx.call(entry, call, expect=(ValueError,), witness=wit)
  group = 'preprocessor' if kind.startswith('preprocessor') else 'features'
  if r.ok:
    ctx.check(False, f'reject/{which}-no-valueerror-{group}',
              f'{entry} accepted datasets with mismatching {group} ({kind} at position {j})', wit)
  elif isinstance(r.exc, ValueError):
    ctx.check(True, f'reject/{which}-{group}', '', wit)
    ctx.count(f'reject:{which}-{group}')
  ctx.case_done(('reject', which, b, tuple(sizes), j, kind, ikind), sample=wit, klass=['reject:' + kind])


# ----------------------------------------------------------------------------- buffered_shuffle / RepeatableIterator
BASE_KINDS = ['list', 'tuple', 'dict', 'str', 'bytes', 'generator', 'iterator', 'range', 'custom-iterable', 'changing-iterable',
              'sized-changing-iterable', 'sized-one-shot']


class _Iterable:
  """A re-iterable object that is none of the builtin containers."""

  def __init__(self, items):
    self._items = list(items)

  def __iter__(self):
    return iter(list(self._items))


class _ChangingIterable:
  """A re-iterable source that does NOT yield the same items on every iter() call (a reader over a growing log, an unseeded
  shuffled view): only its FIRST pass defines what a RepeatableIterator over it must replay."""

  def __init__(self, items):
    self._items = list(items)
    self._calls = 0

  def __iter__(self):
    self._calls += 1
    if self._calls == 1:
      return iter(list(self._items))
    return iter([x + 1000 * self._calls for x in reversed(self._items)] + [-self._calls])


class _SizedChangingIterable(_ChangingIterable):
  """The same, but it also has a length (a data loader that reshuffles on every epoch)."""

  def __len__(self):
    return len(self._items)


class _SizedOneShot:
  """A progress-bar style wrapper: knows its total, but iterates an underlying one-pass stream."""

  def __init__(self, items):
    self._n = len(items)
    self._stream = (x for x in list(items))

  def __len__(self):
    return self._n

  def __iter__(self):
    return self._stream


def make_base(kind, n):
  """Returns (factory of a fresh base iterable, expected item list); items are pairwise distinct."""
  if kind == 'str':
    items = [chr(0x41 + i) for i in range(n)]
    return (lambda: ''.join(items)), items
  if kind == 'bytes':
    items = [(i * 7 + 3) % 256 for i in range(n)]
    return (lambda: bytes(items)), items
  items = [i * 3 + 1 for i in range(n)]
  if kind == 'list':
    return (lambda: list(items)), items
  if kind == 'tuple':
    return (lambda: tuple(items)), items
  if kind == 'dict':
    return (lambda: {i: str(i) for i in items}), items
  if kind == 'generator':
    return (lambda: (x for x in items)), items
  if kind == 'iterator':
    return (lambda: iter(list(items))), items
  if kind == 'range':
    return (lambda: range(1, 3 * n + 1, 3)), items
  if kind == 'custom-iterable':
    return (lambda: _Iterable(items)), items
  if kind == 'changing-iterable':
    return (lambda: _ChangingIterable(items)), items
  if kind == 'sized-changing-iterable':
    return (lambda: _SizedChangingIterable(items)), items
  if kind == 'sized-one-shot':
    return (lambda: _SizedOneShot(items)), items
  raise AssertionError(kind)


def order_seeds(n):
  return 5 if n >= 6 else 12


def shuffle_point(ctx, cd, rng, n, buf, kind):
  factory, items = make_base(kind, n)
  judged = n >= 4 and buf >= 2
  nseeds = order_seeds(n) if judged else 2
  seeds = [int(s) for s in rng.randint(0, 2**32 - 1, size=nseeds)]
  seeds[0] = 0 if rng.rand() < 0.5 else seeds[0]   # seed 0: a fixed but falsy seed
  wit = {'length': n, 'buffer_size': buf, 'base': kind, 'seeds': seeds}
  identity = 0
  ok_run = True
  for sd in seeds:
    r = ctx.call('buffered_shuffle',
                 lambda: [list(cd.buffered_shuffle(factory(), buf, np.random.RandomState(sd))) for _ in range(2)],
                 witness={**wit, 'seed': sd})
    if not r.ok:
      ok_run = False
      break
    o1, o2 = r.value
    ctx.check(len(o1) == n and sorted(o1) == sorted(items), 'multiset-shuffle/loses-or-duplicates',
              f'output multiset of buffered_shuffle differs from its input ({len(o1)} items out of {n})',
              {**wit, 'seed': sd, 'output': o1})
    ctx.check(o1 == o2, 'repro-shuffle/same-seed-differs', 'two runs with the same seed differ', {**wit, 'seed': sd})
    identity += o1 == items
  if judged and ok_run:
    ctx.check(identity < nseeds, 'order-shuffle/always-input-order',
              f'output equals the input order for every one of {nseeds} seeds', wit)
  klass = ['shuffle:' + kind]
  klass.append('shuffle:buffer>len' if buf > n else ('shuffle:buffer=len' if buf == n else
                                                    ('shuffle:buffer=1' if buf == 1 else 'shuffle:buffer<len')))
  ctx.case_done(('shuffle', n, buf, kind, tuple(seeds)) if n >= 2 else None, sample=wit, klass=klass)


def repeat_point(ctx, fd_mod, n, kind):
  factory, items = make_base(kind, n)
  wit = {'length': n, 'base': kind}

  def go():
    # Each pass is read through islice(n + 1): a correct pass ends (and resets the iterator) at request n + 1; a pass
    # that yields more than n items is cut there, reported, and the iterator is not used any further.
    it = fd_mod.RepeatableIterator(factory())
    out = []
    for _ in range(3):
      out.append(list(itertools.islice(it, n + 1)))
      if len(out[-1]) > n:
        break
    return out

  r = ctx.call('RepeatableIterator', go, witness=wit)
  if r.ok:
    p = r.value
    ctx.check(p[0] == items, 'repeat-iter/first-pass-differs-from-base', 'first pass is not the items of the base iterable',
              {**wit, 'passes': p})
    ctx.check(len(p) == 3 and p[1] == p[0] and p[2] == p[0], 'repeat-iter/later-pass-differs',
              'a later pass does not replay exactly the items of the first pass', {**wit, 'passes': p})
    if len(p) < 3:
      ctx.case_done(None, sample=wit, klass=['repeat:' + kind])
      return

  # one pass consumed in pieces (next() a few items, then a for loop; a for loop with break, then another for loop):
  # `for` calls iter() on the object again in the middle of a pass, which must NOT restart the pass
  def go_piecewise():
    it = fd_mod.RepeatableIterator(factory())
    passes = []
    for pno in range(4):
      got = []
      k = (pno + n) % (n + 1) if n else 0
      try:
        for _ in range(k):
          got.append(next(it))
        ended = False
      except StopIteration:
        ended = True
      if not ended:
        if pno % 2:
          for x in it:                      # for ... break, then a second for over the same object
            got.append(x)
            if len(got) >= min(n, k + 1):
              break
          else:
            ended = True
        if not ended:
          for j, x in enumerate(it):
            got.append(x)
            if j > n + 2:
              break
      passes.append(got)
    return passes

  if n >= 1:
    r = ctx.call('RepeatableIterator', go_piecewise, witness=wit)
    if r.ok:
      ctx.check(all(p_ == items for p_ in r.value), 'repeat-iter/piecewise-pass-differs',
                'a pass consumed in pieces (next() / for-break / for) is not exactly the first pass', {**wit, 'passes': r.value})

  # the docstring's usage: consecutive map() objects over the same iterator
  def go_map():
    it = fd_mod.RepeatableIterator(factory())
    m1 = map(lambda x: (x, 1), it)
    m2 = map(lambda x: (x, 2), it)
    return list(m1), list(m2)

  r = ctx.call('RepeatableIterator', go_map, witness=wit)
  if r.ok:
    a, c = r.value
    ctx.check([x for x, _ in a] == items and [x for x, _ in c] == items, 'repeat-iter/map-usage-differs',
              'two consecutive map() passes over one RepeatableIterator differ', {**wit, 'first': a, 'second': c})
  copying = kind not in ('list', 'tuple', 'dict', 'str', 'bytes')
  ctx.case_done(('repeat', n, kind) if n >= 2 else None, sample=wit,
                klass=['repeat:' + kind, 'repeat:copying' if copying else 'repeat:container'])


# ----------------------------------------------------------------------------- buffered_shuffle_batch_client_datasets
def bsb_point(ctx, fedjax, cd, fd_mod, rng, b, sizes, buf):
  sizes = list(sizes)
  total = sum(sizes)
  m = len(sizes)
  raws, digs, kinds = make_clients(rng, sizes)
  fns, descr = make_chain(rng, raws[0].keys()) if m else ([], [])
  pre = cd.BatchPreprocessor(fns) if (fns or rng.rand() < 0.5) else cd.NoOpBatchPreprocessor
  dsets = [cd.ClientDataset(r_, pre) for r_ in raws]
  ref = concat_ref(raws, fns) if m else {}
  base_id = int(ref['idx'][0]) if total else 0
  judged = total >= 4 and buf >= 2
  nseeds = order_seeds(total) if judged else 2
  seeds = [int(s) for s in rng.randint(0, 2**32 - 1, size=nseeds)]
  ikind = ['list', 'generator', 'repeatable-gen'][int(rng.randint(3))]
  wit = {'batch_size': b, 'sizes': sizes, 'buffer_size': buf, 'features': [kd[0] for kd in kinds], 'chain': descr,
         'iterable': ikind, 'seeds': seeds}
  nb = -(-total // b)
  identity = 0
  ok_run = True
  for sd in seeds:
    w = {**wit, 'seed': sd}
    r = ctx.call(
        'buffered_shuffle_batch_client_datasets', lambda: [
            list(
                fedjax.buffered_shuffle_batch_client_datasets(
                    wrap_iterable(ikind, dsets, fd_mod), batch_size=b, buffer_size=buf, rng=np.random.RandomState(sd)))
            for _ in range(2)
        ], witness=w)
    if not r.ok:
      ok_run = False
      break
    o1, o2 = r.value
    rows = [len(bt['idx']) if 'idx' in bt else -1 for bt in o1]
    shape_ok = (len(o1) == nb and all(x == b for x in rows[:-1]) and (not rows or 1 <= rows[-1] <= b) and
                all(all(v.shape[0] == n_ for v in bt.values()) for bt, n_ in zip(o1, rows)))
    ctx.check(shape_ok, 'bsbshape/batch-rows', f'batch row counts {rows[:20]} for {total} examples, batch_size {b}', w)
    ctx.check(same_batches(o1, o2), 'repro-bsb/same-seed-differs', 'two runs with the same seed differ', w)
    if not all(set(bt) == set(ref) for bt in o1):
      ctx.violation('multiset-bsb/feature-set', 'a batch does not carry the preprocessed feature set', w)
      continue
    ids = np.concatenate([bt['idx'] for bt in o1]) if o1 else np.zeros((0,), np.int64)
    ctx.check(sorted(ids.tolist()) == (ref['idx'].tolist() if total else []), 'multiset-bsb/loses-or-duplicates',
              'examples emitted in one pass are not exactly the input examples', {**w, 'ids': ids})
    if total and len(ids) and set(ids.tolist()) <= set(ref['idx'].tolist()):
      pos = ids - base_id
      rows_ok = all(
          bit_equal(np.concatenate([bt[name] for bt in o1], axis=0), col[pos]) for name, col in ref.items())
      ctx.check(rows_ok, 'bsbrows/feature-mismatch', 'a feature row does not belong to the emitted example', w)
      identity += bool(np.array_equal(ids, ref['idx']))
  if judged and ok_run:
    ctx.check(identity < nseeds, 'order-bsb/always-input-order',
              f'the example stream equals the input order for every one of {nseeds} seeds', wit)
  ctx.check([gen.digest(x) for x in raws] == digs, 'readonly/raw-mutated', 'raw client arrays changed', wit)
  klass = ['bsb:total=0' if total == 0 else ('bsb:total%B=0' if total % b == 0 else 'bsb:remainder')]
  klass.append('bsb:buffer>=total' if buf >= total else 'bsb:buffer<total')
  ctx.case_done(('bsb', b, tuple(sizes), buf, tuple(descr), ikind) if total >= 2 else None, sample=wit, klass=klass)


# ----------------------------------------------------------------------------- federated stream
def fds_point(ctx, fedjax, cd, rng):
  m = int(rng.randint(1, 8))
  b = int(rng.randint(1, 12))
  sizes = [int(rng.randint(0, 2 * b + 2)) for _ in range(m)]
  if sum(sizes) == 0:
    sizes[int(rng.randint(m))] = int(rng.randint(1, b + 2))  # an all-empty federated stream never terminates
  total = sum(sizes)
  raws, digs, kinds = make_clients(rng, sizes)
  fns, descr = make_chain(rng, raws[0].keys())
  pre = cd.BatchPreprocessor(fns)
  ref = concat_ref(raws, fns)
  base_id = int(ref['idx'][0])
  ids = gen.hostile_client_ids(rng, m)
  mapping = {cid: {k_: raw[k_] for k_ in sorted(raw)} for cid, raw in zip(ids, raws)}
  cbuf = int(rng.randint(1, m + 3))
  ebuf = int(rng.randint(1, total + 3))
  # boundary seeds are forced: 0 is a fixed seed that is falsy in Python, 1 and 2**32-1 are the ends of the range
  u = rng.rand()
  seed = None if u < 0.2 else (int([0, 1, 2**32 - 1][rng.randint(3)]) if u < 0.45 else int(rng.randint(0, 2**32 - 1)))
  nbat = -(-total // b) + int(rng.randint(0, 2 * (-(-total // b)) + 3))
  wit = {'batch_size': b, 'sizes': sizes, 'client_ids': ids, 'client_buffer_size': cbuf, 'example_buffer_size': ebuf,
         'seed': seed, 'batches_taken': nbat, 'features': [kd[0] for kd in kinds], 'chain': descr}

  form = FD_FORMS[(m + b + cbuf + ebuf) % 3]
  wit['dataset_form'] = form
  ctx.count('fd-form:' + form)

  def go():
    fd = make_fd(fedjax, mapping, fns, form)
    out = []
    for _ in range(2):
      out.append(
          list(
              itertools.islice(
                  fedjax.shuffle_repeat_batch_federated_data(
                      fd, batch_size=b, client_buffer_size=cbuf, example_buffer_size=ebuf, seed=seed), nbat)))
    return fd, out

  r = ctx.call('shuffle_repeat_batch_federated_data', go, witness=wit)
  if r.ok:
    fd, (o1, o2) = r.value
    for o in ((o1,) if seed is not None else (o1, o2)):
      ctx.check(len(o) == nbat, 'fdstream/ended-early', f'the infinite stream ended after {len(o)} batches', wit)
      ok = all(set(bt) == set(ref) and all(v.shape[0] == b for v in bt.values()) for bt in o)
      if not ctx.check(ok, 'fdstream/batch-rows', f'a batch does not have exactly batch_size={b} rows of every feature',
                       wit):
        continue
      if not o:
        continue
      sid = np.concatenate([bt['idx'] for bt in o])
      pos = sid - base_id
      valid = bool(((pos >= 0) & (pos < total)).all())
      if ctx.check(valid, 'fdstream/invalid-id', 'an emitted id belongs to no client', {**wit, 'ids': sid}):
        rows_ok = all(
            bit_equal(np.concatenate([bt[name] for bt in o], axis=0), col[pos]) for name, col in ref.items())
        ctx.check(rows_ok, 'fdstream/feature-mismatch', 'a feature row does not belong to the emitted example', wit)
    if seed is not None:
      ctx.check(same_batches(o1, o2), 'repro-fdstream/same-seed-differs', 'two streams with the same seed differ', wit)
      if FDS_TRACE is not None and o1:
        FDS_TRACE.append(['stream', form, seed, np.concatenate([bt['idx'] for bt in o1]).tolist()])

    # buffered shuffling of clients: every pass of shuffled_clients() emits every client exactly once
    def go_clients():
      s = 11 if seed is None else seed
      return [[cid for cid, _ in itertools.islice(fd.shuffled_clients(cbuf, s), 3 * m)] for _ in range(2)]

    rc = ctx.call('shuffled_clients', go_clients, witness=wit)
    if rc.ok:
      c1, c2 = rc.value
      passes = [c1[i * m:(i + 1) * m] for i in range(3)]
      ctx.check(all(sorted(p) == sorted(ids) for p in passes), 'clients/pass-not-permutation',
                'a pass of shuffled_clients does not emit every client exactly once', {**wit, 'passes': passes})
      ctx.check(c1 == c2, 'repro-clients/same-seed-differs', 'shuffled_clients differs between two runs with one seed',
                wit)
      if FDS_TRACE is not None:
        FDS_TRACE.append(['clients', form, 11 if seed is None else seed, [c.hex() for c in c1]])
  ctx.check([gen.digest(x) for x in raws] == digs, 'readonly/raw-mutated', 'raw client arrays changed', wit)
  ctx.case_done(('fds', b, tuple(sizes), cbuf, ebuf, seed, nbat), sample=wit,
                klass=['fds:seed=None' if seed is None else 'fds:seeded', 'fds:seed=0' if seed == 0 else 'fds:seed!=0', 'fds:empty-client' if 0 in sizes else 'fds:no-empty'])


def reject_fd_point(ctx, fedjax, cd, rng):
  """The federated entry point: a client-level preprocessor gives EMPTY clients another feature set than the others (it returns
  early for them). Batching such a federation must be refused with ValueError, wherever the empty client sits."""
  m = int(rng.randint(2, 6))
  pos = int(rng.randint(m))
  sizes = [0 if i == pos else int(rng.randint(1, 6)) for i in range(m)]
  base = 0
  mapping = {}
  for i, sz in enumerate(sizes):
    mapping[b'r%02d' % i] = {'idx': np.arange(base, base + sz, dtype=np.int64), 'f32': rng.randn(sz).astype(np.float32)}
    base += sz

  def add_feature(client_id, ex):
    if len(ex['idx']) == 0:
      return ex
    return {**ex, 'derived': ex['f32'] * 2}

  b = int(rng.randint(1, 6))
  entry = 'padded_batch_federated_data'      # (a shuffled infinite stream need not meet the empty client within a finite prefix)
  wit = {'family': 'reject-fd', 'sizes': sizes, 'empty_client_position': pos, 'batch_size': b, 'entry': entry}

  def go():
    fd = fedjax.InMemoryFederatedData(mapping).preprocess_client(add_feature)
    if entry == 'padded_batch_federated_data':
      return list(fedjax.padded_batch_federated_data(fd, batch_size=b))
    return list(itertools.islice(fedjax.shuffle_repeat_batch_federated_data(fd, batch_size=b, client_buffer_size=2, example_buffer_size=4, seed=1), 6))

  r = ctx.call(entry, go, expect=(ValueError,), witness=wit)
  ctx.count('reject:fd-empty-client-other-features')
  ctx.check(not r.ok, 'reject/fd-no-valueerror-empty-client-features',
            f'{entry} accepted a federation whose empty client has another feature set than the others', wit)
  ctx.case_done(('reject-fd', tuple(sizes), b, entry), sample=wit, klass=['reject-fd'])


# ----------------------------------------------------------------------------- driver
def size_seqs(b, max_m):
  for m in range(0, max_m + 1):
    yield from itertools.product(range(0, 2 * b + 2), repeat=m)


def guarded(ctx, fn, *args, **kwargs):
  """Per-case wall-clock alarm (DESIGN 2.7): a case that does not terminate is INCONCLUSIVE, never a violation,
  and must not take the whole shard (and the violations it already recorded) down with it."""
  seconds = 20 if ctx.quick else 120
  fam = 'watchdog:timeouts:' + str(ctx.cur_case).split('/')[0]
  if ctx.counters.get(fam, 0) >= 2:  # the family keeps hanging: do not burn the shard's budget on it
    ctx.count('watchdog:skipped-after-timeouts')
    return

  def on_alarm(signum, frame):
    raise Inconclusive(f'case exceeded {seconds}s wall-clock (possible non-termination)')

  old = signal.signal(signal.SIGALRM, on_alarm)
  signal.setitimer(signal.ITIMER_REAL, seconds)
  try:
    fn(*args, **kwargs)
  except Inconclusive as e:
    ctx.count(fam)
    ctx.inconclusive_because(str(e))
  finally:
    signal.setitimer(signal.ITIMER_REAL, 0)
    signal.signal(signal.SIGALRM, old)


def run(ctx):
  import fedjax
  from fedjax.core import client_datasets as cd
  from fedjax.core import federated_data as fd_mod
  q = ctx.quick

  # ---- padded: exhaustive box
  bmax = 4 if q else 5
  box = ((b, k, sizes) for b in range(1, bmax + 1) for k in range(1, 4)
         for sizes in size_seqs(b, 3 if (q or b > 3) else 4))
  for cid, (b, k, sizes) in ctx.enum('pbox', box):
    guarded(ctx, padded_point, ctx, fedjax, cd, fd_mod, ctx.rng('pbox', b, k, sizes), b, k, sizes)
  # ---- padded: random longer sequences
  for cid, rng in ctx.cases('prand', 1500 if q else 30000):
    b = int(rng.randint(1, 34))
    k = int(rng.randint(1, 7))
    m = int(rng.randint(1, 13))
    sizes = []
    for _ in range(m):
      u = rng.rand()
      if u < 0.15:
        s = 0
      elif u < 0.35:
        s = int(rng.randint(1, b + 1))  # smaller than / equal to B
      elif u < 0.5:
        s = b * int(rng.randint(1, 4))  # multiples of B
      elif u < 0.6 and sizes:
        s = (-sum(sizes)) % b or b  # completes a batch exactly
      else:
        s = int(rng.randint(0, 3 * b + 3))
      sizes.append(s)
    guarded(ctx, padded_point, ctx, fedjax, cd, fd_mod, rng, b, k, sizes)
  # ---- rejection
  for cid, rng in ctx.cases('reject', 600 if q else 8000):
    guarded(ctx, reject_point, ctx, fedjax, cd, rng)
  for cid, rng in ctx.cases('reject-fd', 120 if q else 1500):
    guarded(ctx, reject_fd_point, ctx, fedjax, cd, rng)

  # ---- buffered_shuffle: exhaustive (length, buffer, base kind)
  lmax = 10 if q else 16
  sbox = ((n, buf, kind) for n in range(0, lmax + 1) for buf in range(1, n + 3) for kind in BASE_KINDS)
  for cid, (n, buf, kind) in ctx.enum('shuf', sbox):
    guarded(ctx, shuffle_point, ctx, cd, ctx.rng('shuf', n, buf, kind), n, buf, kind)
  for cid, rng in ctx.cases('shufr', 400 if q else 10000):
    n = int(rng.randint(lmax + 1, 120))
    buf = int(rng.randint(1, n + 3))
    if rng.rand() < 0.3:
      buf = [1, 2, n - 1, n, n + 1, n + 2][int(rng.randint(6))]
    guarded(ctx, shuffle_point, ctx, cd, rng, n, buf, BASE_KINDS[int(rng.randint(len(BASE_KINDS)))])
  # ---- long inputs (any internal block / chunk size of the shuffler): thousands of items, sized and unsized sources
  for cid, rng in ctx.cases('shufbig', 12 if q else 80):
    i = int(cid.split('/')[1])
    n = int([4097, 4200, 5000, 8193, 9000, 16500][i % 6]) + int(rng.randint(0, 3))
    buf = int([1, 7, 100, 1000, 4096, n - 1][rng.randint(6)])
    ctx.count('shuffle:long-input')
    guarded(ctx, shuffle_point, ctx, cd, rng, n, buf, ['list', 'tuple', 'range', 'generator', 'iterator', 'dict'][i % 6 if i < 12 else int(rng.randint(6))])
  # ---- RepeatableIterator
  rbox = ((n, kind) for n in list(range(0, 13 if q else 41)) + [64, 200] for kind in BASE_KINDS)
  for cid, (n, kind) in ctx.enum('repeat', rbox):
    guarded(ctx, repeat_point, ctx, fd_mod, n, kind)

  # ---- buffered_shuffle_batch_client_datasets: small exhaustive box x every buffer size
  bb = 2 if q else 3
  bsbox = ((b, sizes, buf) for b in range(1, bb + 1) for m in range(0, 4)
           for sizes in itertools.product(range(0, b + 2), repeat=m) for buf in range(1, sum(sizes) + 3))
  for cid, (b, sizes, buf) in ctx.enum('bsb', bsbox):
    guarded(ctx, bsb_point, ctx, fedjax, cd, fd_mod, ctx.rng('bsb', b, sizes, buf), b, sizes, buf)
  for cid, rng in ctx.cases('bsbr', 400 if q else 8000):
    b = int(rng.randint(1, 34))
    m = int(rng.randint(1, 9))
    sizes = [0 if rng.rand() < 0.15 else int(rng.randint(0, 2 * b + 2)) for _ in range(m)]
    tot = sum(sizes)
    buf = int(rng.randint(1, tot + 3))
    if rng.rand() < 0.3:
      buf = max(1, [1, 2, tot - 1, tot, tot + 1, tot + 2][int(rng.randint(6))])
    guarded(ctx, bsb_point, ctx, fedjax, cd, fd_mod, rng, b, sizes, buf)

  # ---- federated stream
  global FDS_TRACE
  traces = {}
  for cid, rng in ctx.cases('fds', 400 if q else 8000):
    FDS_TRACE = []
    guarded(ctx, fds_point, ctx, fedjax, cd, rng)
    traces[cid], FDS_TRACE = FDS_TRACE, None
  if ctx.xproc_child:
    return traces
  # ---- "reproducibly for a fixed seed" also means: in another process. The first fds histories of this shard are replayed in
  # a fresh interpreter under another PYTHONHASHSEED; seeded streams and shuffled client passes must be identical.
  from vmon import xproc
  sel = [c for c in traces if traces[c]][:40 if q else 150]
  if sel:
    hs = 1 + (ctx.seed + ctx.shard) % 97
    other = xproc.run_child('vmon.checks.c15', {'tier': ctx.tier, 'seed': ctx.seed, 'cases': sel}, hs, timeout=1500)
    for cid in sel:
      ctx.cur_case = cid
      mine, theirs = traces[cid], other['traces'].get(cid)
      if theirs is None or [e[:3] for e in mine] != [e[:3] for e in theirs]:
        raise HarnessError(f'{cid}: the fresh-interpreter replay ran a different case (harness is hash-dependent)')
      ctx.count('hit:fresh-interpreter-stream')
      bad = next((i for i, (a, c_) in enumerate(zip(mine, theirs)) if a != c_), None)
      w = None
      if bad is not None:
        a, c_ = mine[bad], theirs[bad]
        w = {'other_pythonhashseed': hs, 'what': a[0], 'dataset_form': a[1], 'seed': a[2], 'this_process': a[3][:40],
             'fresh_process': c_[3][:40]}
      ctx.check(bad is None, 'xproc/seeded-stream-differs-in-fresh-process',
                'a seeded federated stream / shuffled client pass differs when the same program runs in a new Python process '
                '(other PYTHONHASHSEED)', w)
    ctx.cur_case = None


def _xproc_child(payload):
  from vmon.core import Ctx
  ctx = Ctx(PROPERTY, payload['tier'], payload['seed'], 0, 1)
  ctx.xproc_child = True
  ctx.only_cases = set(payload['cases'])
  return {'traces': run(ctx)}



if __name__ == '__main__':
  from vmon import xproc as _xproc
  _xproc.child_main(_xproc_child)


TECHNIQUE = ('runtime monitoring: concatenation / bucket-rule / multiset / replay checkers over unique example ids, on an '
             'exhaustive small box of client-size sequences and (length, buffer, base-iterable) triples plus random larger points')
LEVEL_TEXT = ('Every client-size sequence of a small box is pushed through the real padded_batch_client_datasets and '
              'padded_batch_federated_data (exhaustive within the box) and judged against the concatenation of the client '
              'datasets and the documented bucket rule; buffered_shuffle, buffered_shuffle_batch_client_datasets and '
              'RepeatableIterator are run for every (length, buffer size, base iterable kind) of a small box and judged by '
              'multiset, same-seed replay and pass-replay checkers; shuffle_repeat_batch_federated_data is judged on finite '
              'prefixes. Held-on-observed, not a proof beyond the boxes; seeds are sampled.')
LEVEL_NOTE = ('Trusts NumPy concatenation/boolean indexing and the harness re-implementation of the bucket rule; the '
              '"non-trivial order" monitors have a false-alarm chance below 1e-14 per case.')

TECHNIQUE += '; seeded streams replayed in a fresh interpreter under another PYTHONHASHSEED; derived subset views; shuffles of 4e3-1.6e4 items'
TECHNIQUE += '; datasets whose example mapping is grown / shrunk / replaced after construction; sized one-shot and sized changing bases for RepeatableIterator'
RULE += ' Wave-8 addition: a third of the padded points batch datasets whose raw_examples mapping the caller filled, shrank or replaced after ClientDataset(...) was constructed (the stream must hold the current examples; len() must be current); RepeatableIterator / buffered_shuffle bases include a sized wrapper over a one-pass stream and a sized iterable that changes on every iter().'
