"""Source-free failpoint engine on Python 3.12 `sys.monitoring` LINE events (DESIGN §2.5).

A *dynamic line event* is one execution of one source line of a code object whose file is in a chosen target
set. The engine numbers these events 0, 1, 2, ... in execution order for the duration of a `with` block and can

  * record them            with Recorder(files) as rec: fn()      -> rec.events  (list of Event)
  * crash at event k       with Injector(files, k) as inj: fn()   -> raises Crash out of the line about to run
  * kill at event k        with Injector(files, k, kill=True): fn() -> os._exit(77) (real, un-catchable death;
                                                                     only useful in a sacrificial sub-process)

`Crash` derives from BaseException, so `except Exception` in the code under test cannot swallow it, while `with`
blocks and `finally` clauses of the interrupted code still run (files are flushed and closed: the most adverse
*durable* image an interruption can leave). The event is delivered *before* the line executes, so "crash at
event k" means: lines 0..k-1 ran completely, line k did not start.

Targets
  files: iterable of file names (made canonical with os.path.realpath); an item may also be a pair
         `(file name, iterable of function names)` to restrict that file to code objects whose `co_name` or
         `co_qualname` is listed, e.g. `[downloads.__file__, (shutil.__file__, ['copyfileobj'])]`.
         LINE events are requested globally, and the callback answers `sys.monitoring.DISABLE` for every location
         of a code object outside the target set, so non-target code pays one callback per distinct line and then
         runs at full speed.
  funcs: optional iterable of function names applied to every file that has no restriction of its own.

Hooks
  Injector(..., on_fire=f): `f(event)` is called at event k *before* the interruption is delivered, i.e. while the
  interrupted frames are still alive and nothing has been flushed or closed. Reading files there (through a fresh
  descriptor) shows what the operating system holds at that instant = the image a real kill would leave; reading
  them after the `with` block shows the image an exception leaves. In kill mode it is the last code that runs.

Both classes are one-shot context managers; they may be used sequentially many thousands of times in one process
(the tool id is released in __exit__, and disabled locations are re-armed with restart_events() in __enter__) and
may be nested (each active instance takes its own free tool id; at most 6 exist). Only events of the thread that
entered the block are counted unless `all_threads=True`.

Typical enumeration:

    with failpoint.Recorder([mod.__file__]) as rec:
      reference = fn()
    for ev in rec.events:
      try:
        with failpoint.Injector([mod.__file__], ev.ordinal) as inj:
          fn()
      except failpoint.Crash:
        pass
      assert inj.fired and inj.event[:3] == ev[:3]    # the run is deterministic up to the crash point
      ... inspect the durable state, restart, compare with `reference` ...

This module shares no code with fedjax and imports nothing but the standard library.
"""
import collections
import os
import sys
import threading

KILL_EXIT_CODE = 77
_PREFERRED_TOOL_IDS = (3, 4, 2, 1, 5, 0)   # 0/1/2/5 are the conventional debugger/coverage/profiler/optimizer ids
_TOOL_NAME = 'vmon-failpoint'

Event = collections.namedtuple('Event', 'file line func ordinal')


class Crash(BaseException):
  """Injected interruption. BaseException: must not be caught by `except Exception`."""

  def __init__(self, event):
    super().__init__(f'injected crash at {os.path.basename(event.file)}:{event.line} ({event.func}) '
                     f'event #{event.ordinal}')
    self.event = event


class FailpointError(RuntimeError):
  """Misuse of the engine (harness bug), e.g. no free tool id."""


def canonical(path):
  return os.path.realpath(path)


class _Session:
  """Common machinery: tool-id management, target filtering, event numbering."""

  def __init__(self, files, funcs=None, all_threads=False, max_events=5_000_000):
    if isinstance(files, (str, bytes, os.PathLike)):
      files = [files]
    default_funcs = frozenset(funcs) if funcs else None
    self.targets = {}         # canonical file name -> None (every code object) | frozenset of function names
    for f in files:
      if isinstance(f, (tuple, list)):
        f, only = f
        only = frozenset([only] if isinstance(only, str) else only)
      else:
        only = default_funcs
      self.targets[canonical(os.fspath(f))] = only
    if not self.targets:
      raise FailpointError('empty target file set')
    self.files = frozenset(self.targets)
    self.all_threads = all_threads
    self.max_events = max_events
    self.count = 0            # number of target events seen so far (= ordinal of the next one)
    self.overflow = False
    self._tool = None
    self._thread = None
    self._code_is_target = {}   # code object -> bool (strong refs only for the duration of the block)
    self._file_is_target = {}

  # ------------------------------------------------------------------ context
  def __enter__(self):
    if self._tool is not None:
      raise FailpointError('failpoint sessions are one-shot; create a new object')
    mon = sys.monitoring
    for tid in _PREFERRED_TOOL_IDS:
      if mon.get_tool(tid) is None:
        break
    else:
      raise FailpointError('no free sys.monitoring tool id')
    mon.use_tool_id(tid, _TOOL_NAME)
    self._tool = tid
    self._thread = threading.get_ident()
    try:
      mon.register_callback(tid, mon.events.LINE, self._on_line)
      # Locations answered with DISABLE by an earlier session must fire again for this one.
      mon.restart_events()
      mon.set_events(tid, mon.events.LINE)
    except BaseException:
      self._release()
      raise
    return self

  def __exit__(self, et, ev, tb):
    self._release()
    return False

  def _release(self):
    mon = sys.monitoring
    tid = self._tool
    if tid is None or tid < 0:
      return
    try:
      mon.set_events(tid, 0)
      mon.register_callback(tid, mon.events.LINE, None)
    finally:
      mon.free_tool_id(tid)
      self._tool = -1
      self._code_is_target.clear()

  # ----------------------------------------------------------------- callback
  def _is_target(self, code):
    t = self._code_is_target.get(code)
    if t is None:
      fn = code.co_filename
      key = self._file_is_target.get(fn, 0)
      if key == 0:
        key = fn if fn in self.targets else canonical(fn)
        key = self._file_is_target[fn] = key if key in self.targets else None
      if key is None:
        t = False
      else:
        only = self.targets[key]
        t = only is None or code.co_name in only or code.co_qualname in only
      self._code_is_target[code] = t
    return t

  def _on_line(self, code, line):
    if not self._is_target(code):
      return sys.monitoring.DISABLE
    if not self.all_threads and threading.get_ident() != self._thread:
      return None
    k = self.count
    self.count = k + 1
    return self._event(code, line, k)

  def _event(self, code, line, k):   # pragma: no cover - overridden
    raise NotImplementedError


class Recorder(_Session):
  """Records every dynamic line event of the target files: `rec.events` = [Event(file, line, func, ordinal)]."""

  def __init__(self, files, funcs=None, all_threads=False, max_events=5_000_000):
    super().__init__(files, funcs, all_threads, max_events)
    self.events = []

  def _event(self, code, line, k):
    if k < self.max_events:
      self.events.append(Event(code.co_filename, line, code.co_qualname, k))
    else:
      self.overflow = True
    return None

  def distinct_lines(self):
    return sorted({(e.file, e.line) for e in self.events})


class Injector(_Session):
  """Interrupts the run at dynamic event `k` (0-based) of the target files.

  kill=False: raises Crash(event) out of the line that was about to run (at most once per session).
  kill=True : calls os._exit(KILL_EXIT_CODE) instead (nothing is flushed, no handler runs).
  on_fire   : optional `f(event)` called first in both modes (see "Hooks" in the module docstring).
  After the block: `inj.fired` (bool), `inj.event` (Event or None), `inj.count` (events seen; > k iff fired).
  """

  def __init__(self, files, k, kill=False, funcs=None, all_threads=False, on_fire=None):
    super().__init__(files, funcs, all_threads)
    if k < 0:
      raise FailpointError('k must be >= 0')
    self.k = int(k)
    self.kill = kill
    self.on_fire = on_fire
    self.fired = False
    self.event = None

  def _event(self, code, line, k):
    if k != self.k or self.fired:
      # After the crash the unwinding code (with/finally) runs unobserved and unharmed.
      return sys.monitoring.DISABLE if self.fired else None
    self.fired = True
    self.event = ev = Event(code.co_filename, line, code.co_qualname, k)
    if self.on_fire is not None:
      self.on_fire(ev)
    if self.kill:
      os._exit(KILL_EXIT_CODE)
    raise Crash(ev)


def record(files, fn, *args, funcs=None, **kwargs):
  """Convenience: runs fn under a Recorder; returns (result, events)."""
  with Recorder(files, funcs=funcs) as rec:
    out = fn(*args, **kwargs)
  return out, rec.events


def active_tool_ids():
  """Tool ids currently held by failpoint sessions (for leak self-checks)."""
  return [t for t in range(6) if sys.monitoring.get_tool(t) == _TOOL_NAME]
