"""C08 — All federated-dataset implementations expose the same mapping.

A dict reference model and five concrete stacks (in-memory, SQLite written by the real builder, each of the two wrapped in
SubsetFederatedData, and a second SQLite connection opened with PRAGMA reverse_unordered_selects=ON as an "unspecified order"
sanitizer) are driven through the same random history of view operations. After every operation every view of every stack —
the new one and all its ancestors — is observed through every access path and judged against the model, against its own first
observation (a parent must never change) and against the other stacks.
"""
import itertools
import os
import shutil
import sqlite3
import tempfile

import numpy as np

from vmon import gen
from vmon.core import HarnessError as core_HarnessError
from vmon.core import bit_equal

PROPERTY = 'C08'
LEVEL = 'exploration'
RULE = ('Seeded random cases: a logical dataset of 1-8 clients (hostile id classes: trailing NUL families, prefix families, '
        '1-byte ids; 0-5 rows per client; 0-3 extra feature columns of assorted dtypes) and a history of 0-6 view operations '
        'drawn from {slice with bounds from ids / successors id+NUL / prefixes / b"" / random / None incl. start>stop and '
        'start==stop; SubsetFederatedData over a random possibly empty subset of the current ids; preprocess_client (value-'
        'tracing, or row-count-changing "keep first m rows"); preprocess_batch}, applied identically to 5 stacks; all '
        'observations on all stacks and all ancestors after every operation. Non-trivial: the history has >= 1 operation; '
        'distinct by (id tuple, rows per client, feature names, operation descriptions).')
RULE += (' Wave-4 additions: interleaved scans on one view object (half-consumed shuffled stream / client_ids / client_sizes / clients resumed after other scans; two clients() iterators in lock step); the first 25 (quick) / 60 (thorough) histories of each shard are replayed in a fresh interpreter under another PYTHONHASHSEED and must expose identical iteration orders.')
ASSUMPTIONS = [
    'bytes comparison in Python (lexicographic, unsigned) is the order meant by "half-open range" (it is also SQLite BLOB order)',
    'generated preprocessors are pure and per-row (batch level) so all_examples() and concatenated batch() must agree',
    'iteration order need not agree across implementations (docs: "implementation can choose"); it must be stable within one '
    'view and must not depend on unspecified SQL result order (checked with PRAGMA reverse_unordered_selects)',
    'shuffled_clients is never called on an empty view (infinite empty loop, outside the domain)',
    'a stack on which an operation raised (e.g. A5) stops receiving operations; its earlier views stay under observation',
    'several iterators over one view object may be alive at once (single-threaded interleaving); each behaves as if run alone',
    '"deterministic iteration order" includes independence from the interpreter\'s hash randomisation: the first 25 (quick) / '
    '60 (thorough) histories of every shard are replayed in a fresh process with another PYTHONHASHSEED and must expose the same '
    'orders through client_ids / client_sizes / clients / shuffled_clients',
]
SHARDS = {'quick': 4, 'thorough': 14}
SHARD_TIMEOUT = {'quick': 600, 'thorough': 2400}
EXHAUSTIVE = {'quick': False, 'thorough': False}
_DIRS = ('', 'pct%31dir', 'q?mode=rwc', 'h#frag', 'sp ace', "quo'te", 'semi;colon&amp', 'caf\u00e9')
_Q = {
    'mon:ids': 30000, 'mon:sizes': 60000, 'mon:examples': 300000, 'mon:preorder': 6000, 'mon:order': 20000,
    'mon:shuffle': 10000, 'mon:getclients': 6000, 'mon:keyerror': 100000, 'mon:parent': 15000, 'mon:differential': 14000,
    'mon:contract': 500,
    'obs:mem': 1000, 'obs:sql': 1200, 'obs:submem': 1000, 'obs:subsql': 1200, 'obs:sqlr': 1200,
    'reobs:mem': 700, 'reobs:sql': 800, 'reobs:submem': 700, 'reobs:subsql': 800,
    'hit:sqlite-reverse-unordered-order': 1200, 'hit:sqlite-reverse-unordered-shuffled': 1000,
    'op:slice': 250, 'op:subset': 100, 'op:pre_client': 100, 'op:pre_batch': 70,
    'empty-view': 30, 'start>stop': 15, 'boundary-hit': 60, 'enlarging-slice': 40, 'slice-of-subset': 30,
    'subset-of-slice': 30, 'nul-family-ids': 60, 'prefix-family-ids': 40, 'rowchanging-pre': 10,
    'out-of-view-probe-nul-variant': 600,
    **{'dbdir:' + (d or 'plain'): 30 for d in _DIRS},
    'hit:interleaved-scans': 5000, 'mon:interleave': 40000, 'hit:invalid-subset-request': 800,
}
_BULK = {'hit:bulk-absolute-path': 6, 'hit:bulk-relative-path': 6}
# thorough runs 10x the quick number of histories
MIN_HITS = {'quick': dict(_Q, **{'hit:fresh-interpreter-history': 80}, **_BULK),
            'thorough': dict({k: 10 * v for k, v in _Q.items()}, **{'hit:fresh-interpreter-history': 600}, **{k: 6 * v for k, v in _BULK.items()})}
TECHNIQUE = ('runtime monitoring: dict reference model + 5-way implementation differential (in-memory, SQLite via the real '
             'builder, both subset-wrapped, SQLite under reverse_unordered_selects) over random view-operation histories with '
             'value-tracing preprocessors and re-observation of every ancestor view')
LEVEL_TEXT = ('Every generated history is executed on the real FederatedData implementations; after each operation every view '
              '(new and ancestors) of every stack is read through num_clients, client_ids, client_sizes/client_size, clients '
              '(twice), shuffled_clients (two passes), get_clients (request order with repeats), get_client, and out-of-view '
              'probes (KeyError), and judged by an independent dict model, by its own first observation and by the other '
              'stacks. Held-on-observed over the sampled histories; no proof for unsampled ones.')
LEVEL_NOTE = ('Trusts Python bytes ordering, NumPy slicing, sqlite3 and the ~60-line reference model in this file; preprocessor '
              'order is revealed by value (trace*31+k+h(id), btrace*37+k+trace) so reorderings/omissions/duplications change '
              'numbers; sizes under a row-count-changing client preprocessor are only compared between implementations (A15).')

TRACE_COLS = ('trace', 'btrace')
STACKS = ('mem', 'sql', 'submem', 'subsql', 'sqlr')

# Order observations of the current case (list of [stack, depth, field, [hex ids]]) when not None; compared with the same
# case replayed in a fresh interpreter under another PYTHONHASHSEED ("iteration order is deterministic").
ORDER_TRACE = None


def order_trace(wit, field, ids):
  if ORDER_TRACE is not None:
    ORDER_TRACE.append([wit.get('stack'), wit.get('depth'), field, [bytes(c).hex() if isinstance(c, bytes) else repr(c) for c in ids]])


def idh(cid):
  """Small id-dependent constant, different for b'a' and b'a\\x00'."""
  return (len(cid) * 5 + sum(cid)) % 11


# ------------------------------------------------------------------ generators
def make_ids(rng, n):
  fam = set()
  base = bytes(rng.randint(0, 256, size=rng.randint(1, 3)).astype(np.uint8))
  r = rng.rand()
  if r < 0.45:
    fam.update([base, base + b'\x00'])
    if rng.rand() < 0.5:
      fam.add(base + b'\x00\x00')
  elif r < 0.75:
    fam.update([base, base + b'a', base + b'b'])
  fam = sorted(fam)
  rng.shuffle(fam)
  fam = fam[:n]
  rest = [x for x in gen.hostile_client_ids(rng, n) if x not in fam]
  rng.shuffle(rest)
  return sorted(fam + rest[:n - len(fam)])


def make_table(rng, ids):
  k = rng.randint(0, 4)
  # fixed-width string columns (S*/U*) are "string arrays": not serializable by design (C16), hence not storable in SQLite
  # (string columns are not serializable; non-native byte order is normalised by the serialization layer -- both are C16's business)
  pool = [kd for kd in gen.FEATURE_KINDS if not isinstance(kd[1], str) and kd[0] not in ('be32', 'bef4')]
  sel = rng.choice(len(pool), size=k, replace=False) if k else []
  kinds = [pool[i] for i in sel]
  table = {}
  base = 0
  for cid in ids:
    rows = 0 if rng.rand() < 0.1 else int(rng.randint(1, 6))
    ex = gen.make_examples(rng, rows, kinds, idx_base=base)
    ex['trace'] = (ex['idx'] % 5).astype(np.int64)
    ex['btrace'] = np.ones((rows,), dtype=np.int64)
    gen.freeze(ex)
    table[cid] = ex
    base += rows + 3
  return table


def make_cfn(k, kind, m):

  def f(client_id, ex):
    out = dict(ex)
    if kind == 'head':
      out = {n: v[:m] for n, v in out.items()}
    out['trace'] = out['trace'] * 31 + k + idh(client_id)
    return out

  def f_inplace(client_id, ex):
    # "assign into the dict you are given and return it" (not idempotent: applied to the stored examples themselves it would
    # compound from one materialisation of the client to the next)
    ex['trace'] = ex['trace'] * 31 + k + idh(client_id)
    return ex

  return f_inplace if (kind != 'head' and k % 2) else f


def make_bfn(k):

  def g(ex):
    out = dict(ex)
    out['btrace'] = ex['btrace'] * 37 + k + ex['trace']
    return out

  def g_inplace(ex):
    # the common "update the dict you are given and return it" style: same values as g
    ex['btrace'] = ex['btrace'] * 37 + k + ex['trace']
    return ex

  return g_inplace if k % 2 else g


# -------------------------------------------------------------- reference model
class Model:
  """Reference view: the id tuple in the view + the registered preprocessor descriptors."""

  def __init__(self, table, ids, cfns=(), bfns=(), lo=None, hi=None, kinds=()):
    self.table = table
    self.ids = tuple(sorted(ids))
    self.idset = frozenset(ids)
    self.cfns = tuple(cfns)     # (k, kind, m)
    self.bfns = tuple(bfns)     # k
    self.lo, self.hi = lo, hi   # effective range, for case classes only
    self.kinds = tuple(kinds)   # op kinds so far, for case classes only
    self._cache = {}

  @property
  def rowchanging(self):
    return any(kind == 'head' for _, kind, _ in self.cfns)

  @property
  def nchain(self):
    return len(self.cfns) + len(self.bfns)

  def slice(self, start, stop):
    ids = [i for i in self.ids if (start is None or i >= start) and (stop is None or i < stop)]
    lo = self.lo if start is None else (start if self.lo is None else max(self.lo, start))
    hi = self.hi if stop is None else (stop if self.hi is None else min(self.hi, stop))
    return Model(self.table, ids, self.cfns, self.bfns, lo, hi, self.kinds + ('slice',))

  def subset(self, ids):
    assert set(ids) <= self.idset
    return Model(self.table, ids, self.cfns, self.bfns, self.lo, self.hi, self.kinds + ('subset',))

  def pre_client(self, d):
    return Model(self.table, self.ids, self.cfns + (d,), self.bfns, self.lo, self.hi, self.kinds + ('pre_client',))

  def pre_batch(self, k):
    return Model(self.table, self.ids, self.cfns, self.bfns + (k,), self.lo, self.hi, self.kinds + ('pre_batch',))

  def examples(self, cid):
    """(final examples, rows after the client chain). Client chain first, then batch chain, each in registration order."""
    if cid not in self._cache:
      ex = dict(self.table[cid])
      for k, kind, m in self.cfns:
        if kind == 'head':
          ex = {n: v[:m] for n, v in ex.items()}
        ex['trace'] = ex['trace'] * np.int64(31) + np.int64(k + idh(cid))
      rows = len(ex['idx'])
      for k in self.bfns:
        ex['btrace'] = ex['btrace'] * np.int64(37) + np.int64(k) + ex['trace']
      self._cache[cid] = (ex, rows)
    return self._cache[cid]

  def raw_rows(self, cid):
    return len(self.table[cid]['idx'])


def model_selfcheck():
  """Oracle self-check on a hand-computed example (Inconclusive when it fails)."""
  from vmon.core import Inconclusive
  t = {b'a': {'idx': np.arange(3, dtype=np.int64), 'trace': np.array([1, 2, 3], dtype=np.int64),
              'btrace': np.ones(3, dtype=np.int64)},
       b'a\x00': {'idx': np.arange(3, 5, dtype=np.int64), 'trace': np.array([0, 1], dtype=np.int64),
                  'btrace': np.ones(2, dtype=np.int64)}}
  m = Model(t, list(t)).pre_client((1, 'trace', 0)).pre_batch(2).pre_client((3, 'head', 2)).slice(b'a', b'a\x00')
  ex, rows = m.examples(b'a')
  h = idh(b'a')  # (5 + 97) % 11 = 3
  tr = [(1 * 31 + 1 + h) * 31 + 3 + h, (2 * 31 + 1 + h) * 31 + 3 + h]
  ok = (m.ids == (b'a',) and rows == 2 and h == 3 and idh(b'a\x00') == 8 and ex['trace'].tolist() == tr and
        ex['btrace'].tolist() == [37 + 2 + tr[0], 37 + 2 + tr[1]] and ex['idx'].tolist() == [0, 1] and
        m.slice(b'a', b'a').ids == () and m.slice(b'b', b'a').ids == () and m.slice(None, b'a\x00\x00').ids == (b'a',) and
        Model(t, list(t)).slice(b'a\x00', None).ids == (b'a\x00',))
  if not ok:
    raise Inconclusive('reference model self-check failed')


# ---------------------------------------------------------------- op generator
def bound_pool(rng, universe):
  pool = set([b''])
  for i in universe:
    pool.update([i, i + b'\x00', i[:-1], i[:-1] + bytes([max(0, i[-1] - 1)]), i + b'\xff'])
  pool.add(bytes(rng.randint(0, 256, size=rng.randint(1, 4)).astype(np.uint8)))
  return sorted(pool)


def draw_slice(rng, model, pool):
  for attempt in range(6):
    start = None if rng.rand() < 0.25 else pool[rng.randint(len(pool))]
    stop = None if rng.rand() < 0.25 else pool[rng.randint(len(pool))]
    if rng.rand() < 0.5 and model.ids:
      # aim a bound exactly at an id of the current view (the <= vs < boundary)
      tgt = model.ids[rng.randint(len(model.ids))]
      if rng.rand() < 0.5:
        start = tgt
      else:
        stop = tgt
    mode = rng.rand()
    if start is not None and stop is not None:
      if mode < 0.10 and start < stop:
        start, stop = stop, start
      elif mode < 0.16:
        stop = start
    new = model.slice(start, stop)
    if new.ids or not model.ids or rng.rand() < 0.12:
      break
  return start, stop


def draw_op(rng, model, universe, pool, t):
  r = rng.rand()
  k = t + 1
  if r < 0.45:
    start, stop = draw_slice(rng, model, pool)
    return {'kind': 'slice', 'start': start, 'stop': stop, 'style': int(rng.randint(3)),
            'descr': ('slice', start, stop)}
  if r < 0.65:
    if rng.rand() < 0.05:
      ids = []
    else:
      p = [0.5, 0.7, 0.9][rng.randint(3)]
      ids = [i for i in model.ids if rng.rand() < p]
      if not ids and model.ids:
        ids = [model.ids[rng.randint(len(model.ids))]]
    return {'kind': 'subset', 'ids': ids, 'validate': bool(rng.rand() < 0.6), 'as_set': bool(rng.rand() < 0.5),
            'descr': ('subset', tuple(ids))}
  if r < 0.85:
    if rng.rand() < 0.15:
      d = (k, 'head', int(rng.randint(0, 3)))
    else:
      d = (k, 'trace', 0)
    return {'kind': 'pre_client', 'd': d, 'fn': make_cfn(*d), 'descr': ('pre_client',) + d}
  return {'kind': 'pre_batch', 'k': k, 'fn': make_bfn(k), 'descr': ('pre_batch', k)}


def model_apply(model, op):
  if op['kind'] == 'slice':
    return model.slice(op['start'], op['stop'])
  if op['kind'] == 'subset':
    return model.subset(op['ids'])
  if op['kind'] == 'pre_client':
    return model.pre_client(op['d'])
  return model.pre_batch(op['k'])


def fd_apply(fdm, view, op):
  if op['kind'] == 'slice':
    if op['style'] == 0:
      return view.slice(op['start'], op['stop'])
    if op['style'] == 1:
      return view.slice(start=op['start'], stop=op['stop'])
    kw = {}
    if op['start'] is not None:
      kw['start'] = op['start']
    if op['stop'] is not None:
      kw['stop'] = op['stop']
    return view.slice(**kw)
  if op['kind'] == 'subset':
    ids = set(op['ids']) if op['as_set'] else list(op['ids'])
    if not op['as_set'] and len(ids) >= 1 and (len(ids) + len(op['ids'][0])) % 3 == 0:
      ids = ids + [ids[0]] + ids[-1:]      # an id list may name an id twice (e.g. two overlapping lists concatenated)
    return fdm.SubsetFederatedData(view, ids, validate=op['validate'])
  if op['kind'] == 'pre_client':
    return view.preprocess_client(op['fn'])
  return view.preprocess_batch(op['fn'])


def draw_params(rng, model, universe):
  """Access parameters of one view, fixed at its creation so that re-observations are comparable."""
  ids = model.ids
  n = len(ids)
  req = [ids[rng.randint(n)] for _ in range(rng.randint(0, 2 * n + 1))] if n else []
  probes, nulv = [], 0
  for u in universe:
    if u not in model.idset:
      probes.append(u)
  extra = []
  for i in ids:
    for v in (i + b'\x00', i.rstrip(b'\x00'), i[:-1], i + b'\x00\x00'):
      if v not in model.idset and v not in extra and v not in probes:
        extra.append(v)
  rng.shuffle(extra)
  extra = extra[:4]
  for v in (b'', bytes(rng.randint(0, 256, size=3).astype(np.uint8))):
    if v not in model.idset and v not in extra and v not in probes:
      extra.append(v)
  probes = probes + extra
  for v in probes:
    if v + b'\x00' in model.idset or (v.endswith(b'\x00') and v.rstrip(b'\x00') in model.idset) or (
        v.endswith(b'\x00') and v[:-1] in model.idset):
      nulv += 1
  return {'req': req, 'probes': probes, 'nulv': nulv, 'buf': int(rng.randint(1, n + 3)),
          'seed': int(rng.randint(0, 2**31 - 1))}


# ------------------------------------------------------------------ observation
def digest_of(ex):
  return tuple(sorted(gen.digest({k: np.asarray(v) for k, v in ex.items()}).items()))


def compare_ds(ctx, path, cid, ds, model, wit, deep=False):
  """Judges one ClientDataset handed out for `cid`; returns a content digest (None when it could not be read)."""
  w = dict(wit, path=path, client=cid)

  def grab():
    out = {'all': ds.all_examples(), 'len': len(ds)}
    if deep:
      out['batches'] = list(ds.batch(batch_size=2))
    return out

  r = ctx.call(path + '.dataset', grab, witness=w)
  if not r.ok:
    return None
  got = r.value['all']
  dig = digest_of(got)
  if cid not in model.idset:
    return dig      # a foreign id is reported by the id-set monitors
  exp, rows = model.examples(cid)
  names_ok = set(got) == set(exp)
  content_ok = names_ok and all(bit_equal(got[k], exp[k]) for k in exp if k not in TRACE_COLS)
  ctx.check(content_ok, f'examples/{path}-content', f'{path}: examples of a client differ from the reference model',
            dict(w, got_features=sorted(got), exp_features=sorted(exp),
                 got_idx=got.get('idx'), exp_idx=exp['idx']))
  if names_ok:
    chain_ok = all(bit_equal(got[k], exp[k]) for k in TRACE_COLS)
    key = f'preorder/{path}-chain' if model.nchain >= 2 else f'examples/{path}-trace'
    ctx.check(chain_ok, key,
              f'{path}: order-revealing columns differ from client-chain-then-batch-chain in registration order',
              dict(w, got_trace=got['trace'], exp_trace=exp['trace'], got_btrace=got['btrace'], exp_btrace=exp['btrace'],
                   client_chain=model.cfns, batch_chain=model.bfns))
  ctx.check(r.value['len'] == rows, f'examples/{path}-len', f'{path}: len(dataset)={r.value["len"]}, reference rows {rows}', w)
  if deep:
    bs = r.value['batches']
    ok = len(bs) == -(-rows // 2) and all(set(b) == set(exp) for b in bs)
    if ok and bs:
      ok = all(bit_equal(np.concatenate([b[k] for b in bs], axis=0), exp[k]) for k in exp)
    ctx.check(ok, f'examples/{path}-batches', f'{path}: concatenated batch(batch_size=2) differs from the reference', w)
  return dig


def observe(ctx, view, model, params, wit):
  """All observations of one view. Returns a summary of what the view exposed (fields present only when readable)."""
  C = model.ids
  n = len(C)
  summ = {}

  r = ctx.call('num_clients', view.num_clients, witness=wit)
  if r.ok:
    summ['n'] = r.value
    ctx.check(r.value == n, 'ids/num_clients', f'num_clients()={r.value}, reference {n}', wit)

  ids_order = None
  r = ctx.call('client_ids', lambda: list(view.client_ids()), witness=wit)
  if r.ok:
    got = r.value
    ids_order = list(got)
    order_trace(wit, 'client_ids', got)
    summ['ids'] = tuple(sorted(got))
    ctx.check(len(set(got)) == len(got), 'ids/client_ids-duplicate', 'client_ids() repeats an id', dict(wit, got=got))
    ctx.check(sorted(got) == list(C) and all(isinstance(g, bytes) for g in got), 'ids/client_ids-set',
              'client_ids() differs from the reference id set', dict(wit, got=got, expected=C))

  r = ctx.call('client_sizes', lambda: list(view.client_sizes()), witness=wit)
  sizes = None
  sizes_order = None
  if r.ok:
    got = r.value
    sizes = dict(got)
    sizes_order = list(got)
    order_trace(wit, 'client_sizes', [c for c, _ in got])
    summ['sizes'] = tuple(sorted(sizes.items()))
    ctx.check(sorted(c for c, _ in got) == list(C), 'ids/client_sizes-set',
              'client_sizes() ids differ from the reference id set (missing, extra or repeated)',
              dict(wit, got=[c for c, _ in got], expected=C))
    for cid in C:
      r2 = ctx.call('client_size', view.client_size, cid, witness=dict(wit, client=cid))
      if r2.ok and cid in sizes:
        ctx.check(r2.value == sizes[cid], 'sizes/size-vs-sizes',
                  f'client_size(id)={r2.value} but client_sizes() says {sizes[cid]}', dict(wit, client=cid))
      if cid in sizes and not model.rowchanging:
        ctx.check(sizes[cid] == model.examples(cid)[1], 'sizes/vs-reference',
                  f'client_sizes() says {sizes[cid]}, reference rows {model.examples(cid)[1]}', dict(wit, client=cid))

  # clients(): two passes
  r = ctx.call('clients', lambda: [list(view.clients()) for _ in range(2)], witness=wit)
  first_pass_len = 0
  if r.ok:
    p1, p2 = r.value
    first_pass_len = len(p1)
    o1, o2 = [c for c, _ in p1], [c for c, _ in p2]
    summ['order'] = tuple(o1)
    order_trace(wit, 'clients', o1)
    ctx.check(o1 == o2, 'order/clients-two-passes', 'two clients() passes visit clients in different orders',
              dict(wit, first=o1, second=o2))
    ctx.check(sorted(o1) == list(C), 'ids/clients-set', 'clients() ids differ from the reference (missing, extra or repeated)',
              dict(wit, got=o1, expected=C))
    d1 = [compare_ds(ctx, 'clients', c, ds, model, wit) for c, ds in p1]
    if o1 == o2:
      d2 = []
      for c, ds in p2:
        rr = ctx.call('clients.dataset', ds.all_examples, witness=wit)
        d2.append(digest_of(rr.value) if rr.ok else None)
      ctx.check(d1 == d2, 'order/clients-two-passes-content', 'second clients() pass yields different examples', wit)

  # shuffled_clients: two passes (never on an empty view; never when the implementation itself iterates nothing)
  if n and first_pass_len:
    buf, seed = params['buf'], params['seed']
    w = dict(wit, buffer_size=buf, shuffle_seed=seed)
    r = ctx.call('shuffled_clients', lambda: list(itertools.islice(view.shuffled_clients(buf, seed), 2 * n)), witness=w)
    if r.ok:
      items = r.value
      so = [c for c, _ in items]
      summ['shuffled'] = tuple(so)
      order_trace(wit, 'shuffled_clients', so)
      for pno, part in enumerate((so[:n], so[n:])):
        ctx.check(sorted(part) == list(C), 'shuffle/pass-not-permutation',
                  f'shuffled pass {pno} does not visit every client of the view exactly once', dict(w, got=part, expected=C))
      for c, ds in items:
        compare_ds(ctx, 'shuffled', c, ds, model, w)

  # interleaved scans on the SAME view object: a half-consumed pass is neither disturbed by, nor disturbs, other scans
  if n and first_pass_len and 'shuffled' in summ and 'order' in summ and ids_order is not None and sizes_order is not None:
    buf, seed = params['buf'], params['seed']
    k = 1 + (seed + len(params['req'])) % (2 * n - 1) if n > 1 else 1
    w = dict(wit, buffer_size=buf, shuffle_seed=seed, taken_before_other_scans=k)

    def interleaved():
      it = view.shuffled_clients(buf, seed)
      head = [c for c, _ in itertools.islice(it, k)]
      it_ids = view.client_ids()
      first_id = [next(it_ids)]
      it_cl = view.clients()
      first_cl = [next(it_cl)[0]]
      mid_clients = [c for c, _ in view.clients()]
      it_sizes = view.client_sizes()
      first_size = [next(it_sizes)]
      mid_ids = list(view.client_ids())
      mid_sizes = list(view.client_sizes())
      tail = [c for c, _ in itertools.islice(it, 2 * n - k)]
      lock = [(a[0], b[0]) for a, b in zip(view.clients(), view.clients())]
      return (head + tail, mid_clients, mid_ids, mid_sizes, first_id + list(it_ids), first_size + list(it_sizes),
              first_cl + [c for c, _ in it_cl], lock)

    r = ctx.call('interleaved-scans', interleaved, witness=w)
    if r.ok:
      sh, mid_clients, mid_ids, mid_sizes, res_ids, res_sizes, res_cl, lock = r.value
      ctx.count('hit:interleaved-scans')
      ctx.check(tuple(sh) == summ['shuffled'], 'interleave/shuffled-pass-disturbed',
                'a shuffled_clients() stream paused while other scans ran on the same view differs from the uninterrupted stream '
                '(same buffer size and seed)', dict(w, uninterrupted=summ['shuffled'], interleaved=sh))
      for got, want, what in ((mid_clients, list(summ['order']), 'clients()'), (mid_ids, ids_order, 'client_ids()'),
                              (mid_sizes, sizes_order, 'client_sizes()'), (res_ids, ids_order, 'resumed client_ids()'),
                              (res_sizes, sizes_order, 'resumed client_sizes()'), (res_cl, list(summ['order']), 'resumed clients()')):
        ctx.check(got == want, 'interleave/scan-disturbed',
                  f'{what} run while other scans of the same view were half-consumed differs from the same scan run alone',
                  dict(w, scan=what, alone=want, interleaved=got))
      ctx.check(lock == [(c, c) for c in summ['order']], 'interleave/two-clients-iterators',
                'two clients() iterators of one view advanced in lock step do not both visit the view in order',
                dict(w, got=lock, expected=summ['order']))

  # get_clients in request order (with repeats)
  req = params['req']
  # the request is an Iterable of ids: list, tuple, one-shot iterator or generator
  rk = (len(req) + sum(len(c) for c in req)) % 4
  as_req = [lambda: list(req), lambda: tuple(req), lambda: iter(list(req)), lambda: (c for c in list(req))][rk]
  ctx.count('getclients-request-as:' + ['list', 'tuple', 'iterator', 'generator'][rk])
  r = ctx.call('get_clients', lambda: list(view.get_clients(as_req())), witness=dict(wit, request=req, request_kind=rk))
  if r.ok:
    go = [c for c, _ in r.value]
    ctx.check(go == list(req), 'getclients/request-order', 'get_clients() does not echo the request order',
              dict(wit, request=req, got=go))
    for c, ds in r.value:
      compare_ds(ctx, 'get_clients', c, ds, model, wit)

  # get_client
  digs = {}
  for cid in C:
    r = ctx.call('get_client', view.get_client, cid, witness=dict(wit, client=cid))
    if r.ok:
      digs[cid] = compare_ds(ctx, 'get_client', cid, r.value, model, wit, deep=True)
      if sizes is not None and cid in sizes and not model.rowchanging:
        ln = len(r.value)
        ctx.check(sizes[cid] == ln, 'sizes/vs-examples', f'client_sizes() says {sizes[cid]} but len(get_client(id))={ln}',
                  dict(wit, client=cid))
  summ['digests'] = tuple(sorted(digs.items()))

  # ids outside the view must raise KeyError on every point access
  for pid in params['probes']:
    w = dict(wit, probe=pid)
    r = ctx.call('get_client', view.get_client, pid, expect=(KeyError,), witness=w)
    if r.ok or isinstance(r.exc, KeyError):
      ctx.check(not r.ok, 'keyerror/get_client-out-of-view', 'get_client(id outside the view) returned a dataset', w)
    lead = [C[0]] if C else []
    r = ctx.call('get_clients', lambda: list(view.get_clients(lead + [pid])), expect=(KeyError,), witness=w)
    if r.ok or isinstance(r.exc, KeyError):
      ctx.check(not r.ok, 'keyerror/get_clients-out-of-view', 'get_clients([.., id outside the view]) did not raise', w)
    r = ctx.call('client_size', view.client_size, pid, expect=(KeyError,), witness=w)
    if r.ok or isinstance(r.exc, KeyError):
      ctx.check(not r.ok, 'keyerror/client_size-out-of-view', 'client_size(id outside the view) returned a size', w)
  return summ


def compare_sizes(ctx, a, b, model, wit):
  sa, sb = dict(a['sizes']), dict(b['sizes'])
  if sa == sb:
    ctx.check(True, 'sizes/impl-differ', '', None)
    return
  w = dict(wit, sizes_a=a['sizes'], sizes_b=b['sizes'], client_chain=model.cfns)
  if not model.rowchanging:
    ctx.check(False, 'sizes/impl-differ', 'two implementations report different client sizes', w)
    return
  # A15: one side reports the stored raw count, the other the count after the row-changing client preprocessor.
  explained = set(sa) == set(sb) and all(
      sa[c] == sb[c] or (c in model.idset and {sa[c], sb[c]} == {model.raw_rows(c), model.examples(c)[1]}) for c in sa)
  if explained:
    ctx.check(False, 'sizes/rowchanging-preprocessor-impl-differ',
              'with a row-count-changing client preprocessor one implementation reports the stored raw row count and the '
              'other the row count after preprocessing', w)
  else:
    ctx.check(False, 'sizes/rowchanging-unexplained',
              'client sizes differ between implementations in a way not explained by raw-vs-preprocessed counting', w)


class Rec:

  def __init__(self, view, model, params, ops):
    self.view, self.model, self.params, self.ops = view, model, params, ops
    self.first = None
    self.last = None


# ------------------------------------------------------------------------ case
def run_case(ctx, fedjax, mods, rng, tmpdir, case_no):
  fdm, im, sq = mods
  n = int(rng.randint(1, 9))
  ids = make_ids(rng, n)
  n = len(ids)
  table = make_table(rng, ids)
  universe = list(ids)
  pool = bound_pool(rng, universe)
  rows = {c: len(table[c]['idx']) for c in ids}
  ins = list(ids)
  rng.shuffle(ins)
  base_wit = {'ids': ids, 'rows': [rows[c] for c in ids], 'features': list(table[ids[0]]), 'insert_order': ins}

  # the database lives in a directory whose NAME is taken in turn from _DIRS (characters that mean something to URI / SQL /
  # shell parsers); for the percent spelling a sibling directory holding another dataset sits where a decoded path would point
  dname = _DIRS[case_no % len(_DIRS)]
  ddir = os.path.join(tmpdir, dname) if dname else tmpdir
  os.makedirs(ddir, exist_ok=True)
  path = os.path.join(ddir, f'c{case_no}.sqlite')
  ctx.count('dbdir:' + (dname or 'plain'))
  base_wit['db_directory_name'] = dname
  decoy = None
  if '%31' in dname:
    decoy = os.path.join(tmpdir, dname.replace('%31', '1'), f'c{case_no}.sqlite')
    os.makedirs(os.path.dirname(decoy), exist_ok=True)
    with sq.SQLiteFederatedDataBuilder(decoy) as b:
      b.add_many([(b'decoy-client', {'idx': np.arange(3, dtype=np.int64)})])
  conns = []
  stacks, dead = {}, {}
  model0 = Model(table, ids)
  params0 = draw_params(rng, model0, universe)
  try:
    # --- build the concrete stacks from the same logical dataset
    def build():
      with sq.SQLiteFederatedDataBuilder(path) as b:
        cut = int(rng.randint(0, n + 1))
        b.add_many([(c, table[c]) for c in ins[:cut]])
        b.add_many((c, table[c]) for c in ins[cut:])

    if not ctx.call('SQLiteFederatedDataBuilder', build, witness=base_wit).ok:
      ctx.case_done(None, sample=base_wit, klass=['builder-failed'])
      return
    mapping = {c: table[c] for c in ins}

    def mk_sqlr():
      conn = sqlite3.connect(path)
      conns.append(conn)
      conn.execute('PRAGMA reverse_unordered_selects = ON;')
      return sq.SQLiteFederatedData(conn, sq.decompress_and_deserialize)

    makers = {
        'mem': lambda: im.InMemoryFederatedData(mapping),
        'sql': lambda: sq.SQLiteFederatedData.new(path),
        'submem': lambda: fdm.SubsetFederatedData(im.InMemoryFederatedData(dict(mapping)), list(ids) + list(ids)[:1]),
        'subsql': lambda: fdm.SubsetFederatedData(sq.SQLiteFederatedData.new(path), set(ids), validate=False),
        'sqlr': mk_sqlr,
    }
    for name in STACKS:
      r = ctx.call('construct', makers[name], witness=dict(base_wit, stack=name))
      if r.ok:
        stacks[name] = [Rec(r.value, model0, params0, ())]
        c = getattr(r.value, '_connection', None) or getattr(getattr(r.value, '_base', None), '_connection', None)
        if c is not None and c not in conns:
          conns.append(c)
      else:
        stacks[name] = []
        dead[name] = True

    klass = set()
    descrs = []

    def observe_all():
      for name in STACKS:
        for depth, rec in enumerate(stacks[name]):
          wit = dict(base_wit, stack=name, depth=depth, view_ops=rec.ops, all_ops=tuple(descrs))
          s = observe(ctx, rec.view, rec.model, rec.params, wit)
          ctx.count('obs:' + name)
          if rec.first is not None:
            ctx.count('reobs:' + name)
          if rec.first is None:
            rec.first = s
          else:
            for field in s:
              if field not in rec.first:
                continue
              same = s[field] == rec.first[field]
              if field in ('order', 'shuffled'):
                ctx.check(same, 'order/changed-over-time',
                          f'{field} order of a view differs from its earlier observation (same arguments)',
                          dict(wit, before=rec.first[field], now=s[field]))
              else:
                ctx.check(same, 'parent/changed-after-child',
                          f'{field} of a view changed after a view was derived from it / used',
                          dict(wit, field=field, before=rec.first[field], now=s[field]))
          rec.last = s
      # cross-stack differential per depth
      maxd = max(len(stacks[nm]) for nm in STACKS)
      for depth in range(maxd):
        alive = [nm for nm in STACKS if len(stacks[nm]) > depth]
        if len(alive) < 2:
          continue
        ref = alive[0]
        a = stacks[ref][depth]
        for nm in alive[1:]:
          b = stacks[nm][depth]
          wit = dict(base_wit, stack_a=ref, stack_b=nm, depth=depth, view_ops=a.ops)
          for field, key in (('n', 'differential/num_clients'), ('ids', 'differential/ids'),
                             ('digests', 'differential/examples')):
            if field in a.last and field in b.last:
              ctx.check(a.last[field] == b.last[field], key, f'{field} differs between {ref} and {nm}',
                        dict(wit, a=a.last[field], b=b.last[field]))
          if 'sizes' in a.last and 'sizes' in b.last:
            compare_sizes(ctx, a.last, b.last, a.model, wit)
        if len(stacks['sql']) > depth and len(stacks['sqlr']) > depth:
          a, b = stacks['sql'][depth].last, stacks['sqlr'][depth].last
          for field in ('order', 'shuffled'):
            if field in a and field in b:
              ctx.count('hit:sqlite-reverse-unordered-' + field)
              ctx.check(a[field] == b[field], 'order/sqlite-unordered-select',
                        f'SQLite {field} iteration order depends on unspecified SELECT order '
                        '(differs under PRAGMA reverse_unordered_selects)',
                        dict(base_wit, depth=depth, view_ops=stacks['sql'][depth].ops, normal=a[field], reversed=b[field]))

    observe_all()
    model = model0
    L = int(rng.randint(0, 7))
    for t in range(L):
      op = draw_op(rng, model, universe, pool, t)
      new = model_apply(model, op)
      ctx.count('op:' + op['kind'])
      # ---- case classes
      if op['kind'] == 'slice':
        s, e = op['start'], op['stop']
        if s is not None and e is not None and s > e:
          klass.add('start>stop')
        if s is not None and e is not None and s == e:
          klass.add('start==stop')
        if (s in model.idset) or (e in model.idset):
          klass.add('boundary-hit')
        if (model.lo is not None and (s is None or s < model.lo)) or (model.hi is not None and (e is None or e > model.hi)):
          klass.add('enlarging-slice')
        if 'slice' in model.kinds:
          klass.add('nested-slice')
        if 'subset' in model.kinds:
          klass.add('slice-of-subset')
      if op['kind'] == 'subset' and 'slice' in model.kinds:
        klass.add('subset-of-slice')
      if op['kind'] == 'subset' and not op['ids']:
        klass.add('empty-subset')
      if op['kind'] == 'pre_client' and op['d'][1] == 'head':
        klass.add('rowchanging-pre')
      if not new.ids and model.ids:
        klass.add('empty-view')
      if not model.ids:
        klass.add('op-on-empty-view')
      descrs.append(op['descr'])
      params = draw_params(rng, new, universe)
      ctx.count('out-of-view-probe-nul-variant', params['nulv'])
      for name in STACKS:
        if dead.get(name):
          continue
        parent = stacks[name][-1]
        wit = dict(base_wit, stack=name, ops=tuple(descrs))
        r = ctx.call(op['kind'] if op['kind'] != 'subset' else 'SubsetFederatedData', fd_apply, fdm, parent.view, op,
                     witness=wit)
        if r.ok:
          stacks[name].append(Rec(r.value, new, params, tuple(descrs)))
        else:
          dead[name] = True
          ctx.count('stack-stopped:' + name)
      model = new
      observe_all()
      # a subset request naming an id that is NOT in the view it is taken from (but exists elsewhere in the dataset) must be
      # refused with ValueError (validate=True), whatever the view is made of (slices, subsets of subsets, preprocessed views)
      outside = [c for c in universe if c not in model.idset]
      if outside:
        bad = outside[t % len(outside)]
        req = list(model.ids[:1]) + [bad]
        for name in STACKS:
          if dead.get(name) or not stacks[name]:
            continue
          w = dict(base_wit, stack=name, ops=tuple(descrs), requested=req, id_outside_view=bad)
          r = ctx.call('SubsetFederatedData', fdm.SubsetFederatedData, stacks[name][-1].view, list(req), expect=(ValueError,), witness=w)
          ctx.count('hit:invalid-subset-request')
          if r.ok:
            exposed = ctx.call('client_ids', lambda: list(r.value.client_ids()), witness=w)
            ctx.check(False, 'subset/id-outside-view-accepted',
                      'SubsetFederatedData(view, ids, validate=True) accepted an id that is not in the view' +
                      (f' and exposes {exposed.value}' if exposed.ok else ''), w)
          else:
            ctx.check(isinstance(r.exc, ValueError), 'subset/id-outside-view-accepted', 'refused with another exception', w)

    if any(c + b'\x00' in model0.idset for c in ids):
      klass.add('nul-family-ids')
    if any(a != b and b.startswith(a) and not b.endswith(b'\x00') for a in ids for b in ids):
      klass.add('prefix-family-ids')
    if any(rows[c] == 0 for c in ids):
      klass.add('zero-row-client')
    klass.add(f'len={L}')
    key = (tuple(ids), tuple(rows[c] for c in ids), tuple(table[ids[0]]), tuple(descrs)) if L >= 1 else None
    if ORDER_TRACE is not None:
      ORDER_TRACE.append([None, None, 'input', repr((ids, [rows[c] for c in ids], list(table[ids[0]]), ins, descrs))])
    ctx.case_done(key, sample=dict(base_wit, ops=descrs), klass=sorted(klass))
  finally:
    for c in conns:
      try:
        c.close()
      except Exception:  # pylint: disable=broad-except
        pass
    for suffix in ('', '-journal', '-wal', '-shm'):
      for p_ in (path, decoy):
        try:
          if p_:
            os.remove(p_ + suffix)
        except OSError:
          pass


def run_bulk(ctx, mods, rng, tmpdir, case_no):
  """Thousands of clients written by ONE add_many call (list or generator): counts, ids, sizes and spot-checked examples of the
  SQLite dataset (opened by absolute and by relative path) against the in-memory dataset built from the same mapping."""
  fdm, im, sq = mods
  n = int([1001, 1024, 1500, 2049, 3500, 4097][case_no % 6]) + int(rng.randint(0, 3))
  ids = sorted({b'k%05d' % int(v) for v in rng.choice(10**5, size=n, replace=False)})
  rows = rng.randint(0, 3, size=len(ids))
  table, base = {}, 0
  for c, r in zip(ids, rows):
    table[c] = {'idx': np.arange(base, base + int(r), dtype=np.int64)}
    base += int(r)
  path = os.path.join(tmpdir, f'bulk{case_no}.sqlite')
  as_gen = bool(rng.rand() < 0.5)
  wit = {'family': 'bulk', 'clients': len(ids), 'add_many_input': 'generator' if as_gen else 'list'}
  conns = []
  try:

    def build():
      with sq.SQLiteFederatedDataBuilder(path) as b:
        b.add_many(((c, table[c]) for c in ids) if as_gen else [(c, table[c]) for c in ids])

    if not ctx.call('SQLiteFederatedDataBuilder', build, witness=wit).ok:
      return ctx.case_done(None, sample=wit, klass=['bulk', 'builder-failed'])
    mem = im.InMemoryFederatedData(table)
    rel = os.path.relpath(path, os.getcwd())
    for how, p_ in (('absolute-path', path), ('relative-path', rel)):
      w = dict(wit, opened_by=how)
      r = ctx.call('SQLiteFederatedData.new', sq.SQLiteFederatedData.new, p_, witness=dict(w, path=p_))
      if not r.ok:
        continue
      fd = r.value
      conns.append(getattr(fd, '_connection', None))
      ctx.count('hit:bulk-' + how)
      r = ctx.call('num_clients', fd.num_clients, witness=w)
      if r.ok:
        ctx.check(r.value == len(ids) == mem.num_clients(), 'ids/num_clients', f'num_clients()={r.value}, wrote {len(ids)} clients', w)
      r = ctx.call('client_ids', lambda: list(fd.client_ids()), witness=w)
      if r.ok:
        missing = sorted(set(ids) - set(r.value))
        ctx.check(sorted(r.value) == ids, 'ids/client_ids-set', f'client_ids() differs from the written ids ({len(r.value)} of {len(ids)}; '
                  f'first missing at input positions {[ids.index(m) for m in missing[:5]]})', w)
      r = ctx.call('client_sizes', lambda: dict(fd.client_sizes()), witness=w)
      if r.ok:
        ctx.check(r.value == {c: int(k) for c, k in zip(ids, rows)}, 'sizes/vs-reference', 'client_sizes() differs from the written row counts', w)
      spots = sorted({0, 1, len(ids) - 1, len(ids) - 2} | {p for q in (999, 1000, 1001, 1023, 1024, 2000, 2001, 2002, 2048, 3002, 3003, 4096)
                                                            for p in (q,) if p < len(ids)})
      for pos in spots:
        c = ids[pos]
        r = ctx.call('get_client', lambda c=c: fd.get_client(c).all_examples(), witness=dict(w, client=c, input_position=pos))
        if r.ok:
          ctx.check(set(r.value) == {'idx'} and bit_equal(r.value['idx'], table[c]['idx']), 'examples/get_client',
                    f'get_client(id at input position {pos}) differs from what was written', dict(w, client=c))
    ctx.case_done(('bulk', len(ids), as_gen), sample=wit, klass=['bulk'])
  finally:
    for c in conns:
      try:
        c.close()
      except Exception:  # pylint: disable=broad-except
        pass
    for suffix in ('', '-journal', '-wal', '-shm'):
      try:
        os.remove(path + suffix)
      except OSError:
        pass


def install_contract(ctx, fdm):
  """icontract postcondition on intersect_slice_ranges (reached through the module attribute by SQLite slice()).

  The condition records the verdict itself and lets the call proceed, so the differential still sees the consequences.
  """
  import icontract

  def intersect_post(current_start, current_stop, new_start, new_stop, result):
    starts = [x for x in (current_start, new_start) if x is not None]
    stops = [x for x in (current_stop, new_stop) if x is not None]
    want = (max(starts) if starts else None, min(stops) if stops else None)
    ctx.check(tuple(result) == want, 'contract/intersect-slice-ranges',
              'intersect_slice_ranges is not the intersection of the two ranges',
              {'current': (current_start, current_stop), 'new': (new_start, new_stop), 'result': result, 'expected': want})
    return True

  fdm.intersect_slice_ranges = icontract.ensure(intersect_post)(fdm.intersect_slice_ranges)


def run(ctx):
  import fedjax
  from fedjax.core import federated_data as fdm
  from fedjax.core import in_memory_federated_data as im
  from fedjax.core import sqlite_federated_data as sq
  model_selfcheck()
  install_contract(ctx, fdm)
  global ORDER_TRACE
  ncases = 400 if ctx.quick else 4000
  tmpdir = tempfile.mkdtemp(prefix='vmon-c08-', dir=os.environ.get('VMON_WORK') or None)
  traces = {}
  try:
    for cid, rng in ctx.cases('hist', ncases):
      ORDER_TRACE = []
      run_case(ctx, fedjax, (fdm, im, sq), rng, tmpdir, int(cid.split('/')[1]))
      traces[cid] = ORDER_TRACE
      ORDER_TRACE = None
    if not ctx.xproc_child:
      for cid, rng in ctx.cases('bulk', 8 if ctx.quick else 42):
        run_bulk(ctx, (fdm, im, sq), rng, tmpdir, int(cid.split('/')[1]))
  finally:
    shutil.rmtree(tmpdir, ignore_errors=True)
  if ctx.xproc_child:
    return traces
  # ---- "iteration order is deterministic": the first histories of this shard replayed in a FRESH interpreter with another
  # PYTHONHASHSEED must expose every view in the same orders (shards themselves always run with PYTHONHASHSEED=0).
  from vmon import xproc
  sel = list(traces)[:XPROC_CASES['quick' if ctx.quick else 'thorough']]
  if sel:
    hs = 1 + (ctx.seed + ctx.shard) % 97
    other = xproc.run_child('vmon.checks.c08', {'tier': ctx.tier, 'seed': ctx.seed, 'cases': sel}, hs, timeout=1500)
    for cid in sel:
      ctx.cur_case = cid
      mine, theirs = traces[cid], other['traces'].get(cid)
      if theirs is None or [e for e in mine if e[2] == 'input'] != [e for e in theirs if e[2] == 'input']:
        raise core_HarnessError(f'{cid}: the fresh-interpreter replay generated a different history (harness is hash-dependent)')
      ctx.count('hit:fresh-interpreter-history')
      diff = next((i for i, (a, b) in enumerate(zip(mine, theirs)) if a != b), None)
      if diff is None and len(mine) != len(theirs):
        diff = min(len(mine), len(theirs))
      w = None
      if diff is not None:
        a = mine[diff] if diff < len(mine) else None
        b = theirs[diff] if diff < len(theirs) else None
        w = {'other_pythonhashseed': hs, 'this_process': a, 'fresh_process': b, 'observations_compared': len(mine)}
      ctx.check(diff is None, 'order/depends-on-hash-seed',
                'the same history replayed in a fresh Python process (other PYTHONHASHSEED) exposes a view in a different '
                'iteration order', w)
    ctx.cur_case = None
    for key, cnt in other['violation_keys'].items():
      if key not in ctx.violation_keys:
        v = next((v for v in other['violations'] if v['key'] == key), None)
        ctx.cur_case = v['case'] if v else None
        ctx.violation(key, (v['what'] if v else key) + f' [only in the fresh-interpreter replay, PYTHONHASHSEED={hs}]',
                      v['witness'] if v else None)
    ctx.cur_case = None


XPROC_CASES = {'quick': 25, 'thorough': 60}


def _xproc_child(payload):
  from vmon.core import Ctx
  ctx = Ctx(PROPERTY, payload['tier'], payload['seed'], 0, 1)
  ctx.xproc_child = True
  ctx.only_cases = set(payload['cases'])
  traces = run(ctx)
  return {'traces': traces, 'violation_keys': ctx.violation_keys, 'violations': ctx.violations}



if __name__ == '__main__':
  from vmon import xproc as _xproc
  _xproc.child_main(_xproc_child)

TECHNIQUE += '; interleaved scans; bulk builds of 1e3-4e3 clients; replay of histories in a fresh interpreter under another PYTHONHASHSEED'
TECHNIQUE += '; database directories named with URI / SQL / shell metacharacters (with a decoy sibling at the percent-decoded path)'
RULE += " Wave-8 addition: the SQLite file of every history lives in a directory whose name is taken in turn from {plain, 'pct%31dir' (decoy dataset at 'pct1dir'), 'q?mode=rwc', 'h#frag', 'sp ace', quote, 'semi;colon&amp', non-ASCII}."
