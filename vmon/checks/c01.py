"""C01 — A federated-averaging round equals its mathematical definition."""
import numpy as np

from vmon import core, toy

PROPERTY = 'C01'
LEVEL = 'exploration'
RULE = ('Seeded random multi-round FedAvg histories on a linear-regression world (1-16 clients, sizes from '
        '{0,1,2,3,5,7,8,13}, dims 1-3, flat/nested param trees, client optimizers sgd/momentum/adam/adagrad, server '
        'optimizers sgd(1)/sgd(lr)/momentum/adam, batch_size/num_epochs/num_steps/drop_remainder/skip_shuffle lattice, '
        '1-4 rounds); each history runs on the jit backend, with permuted client order, on the debug backend and on the '
        'pmap backend (1-8 forced host devices) and every round of every variant is compared with a float64 NumPy FedAvg '
        'oracle (adaptive tolerance from the float32/float64 oracle gap). Non-trivial: cohort has >=2 clients of '
        'different sizes and at least one client takes >=2 local steps; distinct by (sizes, hparams, optimizers, rounds).')
ASSUMPTIONS = [
    'batch streams consumed by the oracle are the ones the real ClientDataset.shuffle_repeat_batch yields for the '
    'fixed seed (validated separately by C04)',
    'NumPy re-implementations of sgd/momentum/adam/adagrad are self-checked against optax at start-up',
    'Adam histories whose smallest gradient magnitude falls below 1e-4 are discarded as ill-conditioned (counted)',
]
SHARDS = {'quick': 8, 'thorough': 14}
SHARD_TIMEOUT = {'quick': 900, 'thorough': 3400}
ENV = {'XLA_FLAGS': '--xla_force_host_platform_device_count=8'}
MIN_HITS = {
    'quick': {'mon:oracle': 300, 'mon:diag': 300, 'mon:sanitize': 300, 'variant:jit': 60, 'variant:perm': 60,
              'variant:debug': 40, 'variant:pmap': 40, 'mon:empty': 5, 'mon:ownkey': 10, 'empty-client': 20,
              'empty-round-after-nonempty-round:stateful-server': 4, 'x64-round': 40, 'mon:x64': 100, 'mon:optwrap': 200,
              'copt=nesterov': 8, 'sopt=nesterov': 8, 'many-epochs-exact-multiple': 3},
    'thorough': {'mon:oracle': 6000, 'mon:diag': 6000, 'mon:sanitize': 6000, 'variant:jit': 1000, 'variant:perm': 1000,
                 'variant:debug': 600, 'variant:pmap': 600, 'mon:empty': 100, 'mon:ownkey': 100, 'empty-client': 400,
                 'empty-round-after-nonempty-round:stateful-server': 80, 'x64-round': 700, 'mon:x64': 2000, 'mon:optwrap': 3000,
                 'copt=nesterov': 150, 'sopt=nesterov': 150, 'many-epochs-exact-multiple': 80},
}
TECHNIQUE = 'runtime monitoring: float64 reference-model oracle + backend/permutation differential + input-state sanitizer over seeded multi-round histories'
LEVEL_TEXT = ('Every round of every generated history is executed by the real federated_averaging on three backends and judged '
              'against an independent float64 NumPy implementation of the definition (weighted mean of deltas, server optimizer), '
              'with diagnostics key-set, zero-weight and own-key monitors. Held on the histories listed in the evidence; the '
              'hyper-parameter lattice is sampled, not enumerated.')
LEVEL_NOTE = ('Trusts optax for the per-step optimizer rule only through a start-up self-check of the NumPy oracle; trusts the '
              'batch stream of shuffle_repeat_batch (C04). pmap runs on forced host CPU devices.')

SIZES = [0, 1, 2, 3, 5, 7, 8, 13]


def gen_history(rng, quick):
  dim = int(rng.randint(1, 4))
  kind = ['flat', 'nested'][rng.randint(2)]
  nmax = 8 if quick else 16
  n_clients = int(rng.randint(1, nmax + 1)) if rng.rand() < 0.8 else int(rng.randint(1, 4))
  sizes = [int(SIZES[rng.randint(len(SIZES))]) for _ in range(n_clients)]
  mode = rng.rand()
  if mode < 0.08:
    sizes = [0] * n_clients  # nobody has data
  elif mode < 0.25:
    sizes[rng.randint(n_clients)] = 0
  lr = float(np.round(rng.uniform(0.01, 0.3), 3))
  cspec = [('sgd', lr), ('momentum', lr, 0.9), ('adam', min(lr, 0.1)), ('adagrad', lr), ('nesterov', lr, 0.9)][rng.choice(5, p=[.35, .2, .15, .15, .15])]
  slr = float(np.round(rng.uniform(0.1, 1.5), 3))
  sspec = [('sgd', 1.0), ('sgd', slr), ('momentum', slr, 0.9), ('adam', 0.05), ('nesterov', slr, 0.8)][rng.choice(5, p=[.3, .2, .2, .15, .15])]
  bs = int([1, 2, 3, 4, 7, 16][rng.randint(6)])
  ne = [1, 2, None][rng.choice(3, p=[.5, .3, .2])]
  ns = [None, 0, 1, 3][rng.choice(4, p=[.55, .05, .2, .2])]
  if ne is None and ns is None:
    ns = 3
  if ne is None and 0 in sizes:
    ne = 1  # empty dataset + num_epochs=None never terminates (outside the domain)
  if cspec[0] == 'adam':
    if ns is None or ns > 3:
      ns = 3
  hp = dict(batch_size=bs, num_epochs=ne, num_steps=ns, drop_remainder=bool(rng.rand() < 0.3),
            skip_shuffle=bool(rng.rand() < 0.2), seed=int(rng.randint(0, 2**31 - 1)))
  rounds = int(rng.randint(1, 5))
  cohorts = []
  for _ in range(rounds):
    k = int(rng.randint(1, n_clients + 1))
    cohorts.append(sorted(rng.choice(n_clients, size=k, replace=False).tolist()))
  if rng.rand() < 0.08 and rounds >= 2:
    cohorts[int(rng.randint(1, rounds))] = []      # a round with NO sampled client at all
  if rng.rand() < 0.15 and n_clients >= 3:
    # forced class: a round whose whole cohort is empty, AFTER a round that moved the server (stateful server optimizers
    # must still advance on the zero mean delta), followed by a normal round.
    sizes[0] = sizes[1] = 0
    if all(s == 0 for s in sizes[2:]):
      sizes[2] = 5
    if ne is None:
      hp['num_epochs'] = 1
    nonempty = [i for i, s in enumerate(sizes) if s > 0]
    cohorts = [sorted(set(nonempty[:3] + [0])), [0, 1], sorted(set(nonempty[:2] + [1]))]
    if rng.rand() < 0.5:
      cohorts.append([1])
    rounds = len(cohorts)
    if sspec[0] == 'sgd' and rng.rand() < 0.7:
      sspec = [('momentum', slr, 0.9), ('adam', 0.05)][rng.randint(2)]
  if rng.rand() < 0.06:
    # forced class "many epochs": N*E an exact multiple of B although B does not divide N (29*7/7, 15*11/11, 58*7/14), where a
    # step count computed in floating point is one off; small learning rates keep the long client runs well conditioned
    b_, e_, ns_ = [(7, 7, (29, 58, 15)), (11, 11, (15, 30, 29)), (14, 7, (58, 29, 30))][rng.randint(3)]
    sizes = [int(ns_[i % 3]) for i in range(max(2, min(n_clients, 4)))]
    hp.update(batch_size=b_, num_epochs=e_, num_steps=None, drop_remainder=bool(rng.rand() < 0.5))
    cspec, sspec = ('sgd', 0.02), [('sgd', 1.0), ('momentum', 0.5, 0.9)][rng.randint(2)]
    rounds = 2
    cohorts = [list(range(len(sizes))), list(range(len(sizes)))[::-1][:max(1, len(sizes) - 1)]]
  return dict(dim=dim, kind=kind, sizes=sizes, cspec=cspec, sspec=sspec, hp=hp, rounds=rounds, cohorts=cohorts,
              nd=int(rng.randint(1, 9)), init_seed=int(rng.randint(0, 2**31 - 1)))


def expected_steps(n, hp):
  b = hp['batch_size']
  if hp['num_epochs'] is not None:
    s = (n * hp['num_epochs']) // b if hp['drop_remainder'] else -(-(n * hp['num_epochs']) // b)
    if hp['num_steps'] is not None:
      s = min(s, hp['num_steps'])
    return s
  return hp['num_steps']


def snapshot(tree):
  import jax
  return [(l, np.array(l)) for l in jax.tree_util.tree_leaves(tree)]


def verify_snapshot(ctx, snap, what, wit):
  ok = True
  for leaf, val in snap:
    deleted = hasattr(leaf, 'is_deleted') and leaf.is_deleted()
    if deleted:
      ok = False
      break
    if not core.bit_equal(np.asarray(leaf), val):
      ok = False
      break
  ctx.check(ok, f'sanitize/{what}', f'{what}: a caller-owned array was deleted or changed by apply', wit)


def run_history(ctx, fedjax, jax, jnp, h, rng, x64=False):
  from fedjax.algorithms import fed_avg
  from fedjax.core import for_each_client as fec
  dim, kind = h['dim'], h['kind']
  drng = np.random.RandomState(h['init_seed'])
  w_true = drng.randn(dim)
  raw = {}
  base = 0
  for i, n in enumerate(h['sizes']):
    cid = b'c%02d' % i
    raw[cid] = toy.make_client(drng, n, dim, w_true, idx_base=base)
    if x64:
      # 64-bit mode: float64 data and parameters; the round must then be accurate to float64 rounding
      raw[cid] = {k: (v.astype(np.float64) * (1 + 1e-9 * (1 + np.arange(v.size).reshape(v.shape))) if v.dtype.kind == 'f' else v)
                  for k, v in raw[cid].items()}
    for v in raw[cid].values():
      v.flags.writeable = False
    base += n
  ids = sorted(raw)
  init = toy.make_params(drng, dim, kind)
  if x64:
    init = toy.tmap(lambda a: np.asarray(a, np.float64) * (1 + 1e-9), init)
  hp = fedjax.ShuffleRepeatBatchHParams(**h['hp'])
  wit = {k: h[k] for k in ('dim', 'kind', 'sizes', 'cspec', 'sspec', 'hp', 'cohorts', 'nd')}
  if x64:
    wit['jax_enable_x64'] = True

  variants = ['jit', 'perm', 'debug', f'pmap']
  algos, states = {}, {}
  grad_fn = toy.jax_grad_fn()
  devices = jax.local_devices()[:h['nd']]
  for v in variants:
    backend = {'jit': 'jit', 'perm': 'jit', 'debug': 'debug'}.get(v) or fec.ForEachClientPmapBackend(devices)
    with fedjax.for_each_client_backend(backend):
      algos[v] = fed_avg.federated_averaging(grad_fn, toy.fedjax_optimizer(h['cspec']), toy.fedjax_optimizer(h['sspec']), hp)
    r = ctx.call(f'fed_avg.init[{v}]', algos[v].init, toy.tmap(jnp.asarray, init), witness=wit)
    if not r.ok:
      return None
    states[v] = r.value
  o64 = toy.FedAvgOracle(init, h['cspec'], h['sspec'], np.float64)
  o32 = toy.FedAvgOracle(init, h['cspec'], h['sspec'], np.float32)
  steps_total = 0
  nontrivial = False
  discarded = False

  for rnd, cohort_idx in enumerate(h['cohorts']):
    cohort_ids = [ids[i] for i in cohort_idx]
    keys = jax.random.split(jax.random.PRNGKey(rnd), len(cohort_ids))
    dsets = {cid: fedjax.ClientDataset(raw[cid]) for cid in cohort_ids}
    # Oracle consumes the batch stream the real view yields for the fixed seed.
    cohort = []
    for cid in cohort_ids:
      batches = list(dsets[cid].shuffle_repeat_batch(hp))
      exp = expected_steps(len(raw[cid]['x']), h['hp'])
      if len(batches) != exp:
        ctx.violation('oracle/batch-count', f'client stream has {len(batches)} batches, expected {exp}', wit)
      cohort.append((cid, len(raw[cid]['x']), batches))
      steps_total += len(batches)
    sizes_in = [n for _, n, _ in cohort]
    if len(set(sizes_in)) >= 2 and max(len(b) for _, _, b in cohort) >= 2:
      nontrivial = True
    if 0 in sizes_in:
      ctx.count('empty-client')
    prev64 = o64.params
    norms64 = o64.round(cohort)
    o32.round(cohort)
    gap = toy.max_abs_diff(o32.params, o64.params)
    scale = max(1.0, toy.max_abs(o64.params))
    if not toy.all_finite(o64.params) or gap > 1e-2 * scale or min(o64.copt.min_abs_g, o64.sopt.min_abs_g) < 1e-4:
      discarded = True
      ctx.count('discarded-illconditioned')
      break
    tol = 3e-5 * scale * np.sqrt(steps_total + 1.0) + 50 * gap
    if x64:
      # same conditioning estimate (float32-vs-float64 oracle gap), scaled from float32 to float64 rounding with a 64x margin
      tol = tol * 2.0**-29 * 64
      ctx.count('x64-round')
    all_empty = sum(sizes_in) == 0

    for v in variants:
      order = list(range(len(cohort_ids)))
      if v == 'perm':
        rng.shuffle(order)
      clients = [(cohort_ids[i], dsets[cohort_ids[i]], keys[i]) for i in order]
      if v == 'perm' and rnd % 2:
        clients = tuple(clients)        # "Sequence" of clients: list or tuple
      st_in = states[v]
      snap = snapshot(st_in)
      ksnap = snapshot(list(keys))
      r = ctx.call(f'fed_avg.apply[{v.split(":")[0]}]', algos[v].apply, st_in, clients, witness={**wit, 'round': rnd})
      ctx.count('variant:' + v)
      if not r.ok:
        return None
      new_state, diag = r.value
      verify_snapshot(ctx, snap, 'input-state', {**wit, 'round': rnd, 'variant': v})
      verify_snapshot(ctx, ksnap, 'client-keys', {**wit, 'round': rnd, 'variant': v})
      got = toy.to_np(new_state.params)
      if x64:
        ctx.check(all(np.asarray(l).dtype == np.float64 for l in toy.leaves(got)), f'x64/params-dtype-{v}',
                  'float64 parameters came back in another dtype under jax_enable_x64', {**wit, 'round': rnd, 'variant': v})
      diff = toy.max_abs_diff(got, o64.params)
      ctx.check(
          toy.all_finite(got) and diff <= tol, f'oracle/params-{v}',
          f'round {rnd} [{v}]: server params differ from the float64 FedAvg reference by {diff:.3g} (tol {tol:.3g})', {
              **wit, 'round': rnd, 'variant': v, 'got': got, 'expected': o64.params, 'tol': tol
          })
      # diagnostics: exactly one entry per participating client, norm == oracle delta norm
      ctx.check(
          set(diag.keys()) == set(cohort_ids) and len(diag) == len(cohort_ids), f'diag/keyset-{v}',
          f'round {rnd} [{v}]: diagnostics keys {sorted(diag.keys())} != participating ids {cohort_ids}',
          {**wit, 'round': rnd, 'variant': v})
      for cid in cohort_ids:
        if cid in diag:
          dn = float(np.asarray(diag[cid]['delta_l2_norm']))
          ctx.check(
              np.isfinite(dn) and abs(dn - norms64[cid]) <= tol + (1e-11 if x64 else 1e-4) * norms64[cid], f'diag/delta-norm-{v}',
              f'round {rnd} [{v}]: delta_l2_norm {dn} vs reference {norms64[cid]}',
              {**wit, 'round': rnd, 'variant': v, 'client': cid})
      if all_empty:
        if h['sspec'][0] == 'sgd':
          same = all(core.bit_equal(a, b) for a, b in zip(toy.leaves(got), toy.leaves(toy.to_np(st_in.params))))
          ctx.check(same and toy.all_finite(got), f'empty/params-changed-{v}',
                    f'round {rnd} [{v}]: a round without examples changed the parameters (or NaN) under plain SGD',
                    {**wit, 'round': rnd, 'variant': v, 'got': got})
        else:
          ctx.check(toy.all_finite(got), f'empty/nan-{v}', f'round {rnd} [{v}]: NaN/Inf after a round without examples',
                    {**wit, 'round': rnd, 'variant': v, 'got': got})
      states[v] = new_state
    # datasets untouched
    for cid in cohort_ids:
      pass
  klass = [f"copt={h['cspec'][0]}", f"sopt={h['sspec'][0]}"]
  if (h['hp'].get('num_epochs') or 0) >= 7:
    klass.append('many-epochs-exact-multiple')
  if all(s == 0 for s in h['sizes']):
    klass.append('all-empty-population')
  if any(len(c) == 0 for c in h['cohorts']):
    klass.append('round-without-clients')
  if any(all(h['sizes'][i] == 0 for i in c) for c in h['cohorts'][1:]) and any(h['sizes'][i] for i in h['cohorts'][0]):
    klass.append('empty-round-after-nonempty-round')
    if h['sspec'][0] != 'sgd':
      klass.append('empty-round-after-nonempty-round:stateful-server')
  if discarded:
    klass.append('discarded')
  key = (tuple(h['sizes']), tuple(sorted(h['hp'].items(), key=str)), h['cspec'], h['sspec'], h['rounds'],
         tuple(map(tuple, h['cohorts'])))
  ctx.case_done(key if (nontrivial and not discarded) else None, sample=wit, klass=klass)


def run_ownkey(ctx, fedjax, jax, jnp, rng):
  """'with its own random key': a client's update depends on its key and on nobody else's."""
  from fedjax.algorithms import fed_avg
  dim = 2
  drng = np.random.RandomState(int(rng.randint(2**31 - 1)))
  raw = {b'a': toy.make_client(drng, 5, dim), b'b': toy.make_client(drng, 4, dim, idx_base=5),
         b'c': toy.make_client(drng, 3, dim, idx_base=9)}
  hp = fedjax.ShuffleRepeatBatchHParams(batch_size=2, num_epochs=1, seed=int(rng.randint(2**31 - 1)))
  backend = ['jit', 'debug'][rng.randint(2)]
  with fedjax.for_each_client_backend(backend):
    algo = fed_avg.federated_averaging(toy.jax_grad_fn(noise=0.5), fedjax.optimizers.sgd(0.1), fedjax.optimizers.sgd(1.0), hp)
  init = toy.tmap(jnp.asarray, toy.make_params(drng, dim, 'flat'))
  state = algo.init(init)
  k = jax.random.split(jax.random.PRNGKey(int(rng.randint(2**31 - 1))), 6)
  ds = {c: fedjax.ClientDataset(v) for c, v in raw.items()}

  def norms(ka, kb, kc):
    r = ctx.call('fed_avg.apply[ownkey]', algo.apply, state, [(b'a', ds[b'a'], ka), (b'b', ds[b'b'], kb), (b'c', ds[b'c'], kc)])
    if not r.ok:
      return None
    return {c: float(np.asarray(d['delta_l2_norm'])) for c, d in r.value[1].items()}

  base = norms(k[0], k[1], k[2])
  other = norms(k[0], k[3], k[4])   # b and c change their keys
  own = norms(k[5], k[1], k[2])     # a changes its key
  if base is None or other is None or own is None:
    return
  wit = {'backend': backend, 'base': base, 'others_changed': other, 'own_changed': own}
  ctx.check(base[b'a'] == other[b'a'], 'ownkey/depends-on-other-client-key',
            "client a's update changed when only other clients' keys changed", wit)
  ctx.check(base[b'a'] != own[b'a'], 'ownkey/ignores-own-key', "client a's update did not change with its own key", wit)
  ctx.check(base[b'b'] == own[b'b'] and base[b'c'] == own[b'c'], 'ownkey/depends-on-other-client-key',
            "clients b/c changed when only a's key changed", wit)
  ctx.check(len({base[b'a'], base[b'b'], base[b'c']}) == 3, 'ownkey/shared-noise', 'clients produced identical noisy norms', wit)
  ctx.case_done(('ownkey', backend, ctx.cur_case), klass='ownkey')


def run_optwrap(ctx, fedjax, jax, jnp, rng):
  """fedjax.optimizers.<name>(**kwargs) must behave as optax.<name>(**kwargs): every argument is forwarded (differential
  against optax driven directly, three steps on a small tree)."""
  import optax
  O = fedjax.optimizers
  lr = float(np.round(rng.uniform(0.01, 0.5), 3))
  mom = float([0.5, 0.9, 0.99][rng.randint(3)])
  b = lambda: bool(rng.rand() < 0.5)
  menu = {
      'sgd': dict(learning_rate=lr, momentum=[None, mom][rng.randint(2)], nesterov=b()),
      'adam': dict(learning_rate=lr, b1=float([0.9, 0.5][rng.randint(2)]), b2=float([0.999, 0.9][rng.randint(2)]),
                   eps=float([1e-8, 1e-3][rng.randint(2)]), eps_root=float([0.0, 1e-4][rng.randint(2)])),
      'adagrad': dict(learning_rate=lr, initial_accumulator_value=float([0.1, 1.0, 0.0][rng.randint(3)]), eps=float([1e-7, 1e-3][rng.randint(2)])),
      'rmsprop': dict(learning_rate=lr, decay=float([0.9, 0.5][rng.randint(2)]), eps=float([1e-8, 1e-3][rng.randint(2)]),
                      initial_scale=float([0.0, 1.0][rng.randint(2)]), centered=b(), momentum=[None, mom][rng.randint(2)], nesterov=b()),
      'yogi': dict(learning_rate=lr, b1=float([0.9, 0.5][rng.randint(2)]), b2=float([0.999, 0.9][rng.randint(2)]), eps=float([1e-3, 1e-5][rng.randint(2)])),
  }
  name = sorted(menu)[ctx.evaluations % len(menu)]
  kwargs = menu[name]
  if name in ('sgd', 'rmsprop') and kwargs['momentum'] is None:
    kwargs['nesterov'] = False
  wit = {'optimizer': name, 'kwargs': kwargs}
  import inspect
  for fn in (getattr(O, name), getattr(optax, name)):
    kwargs = {k: v for k, v in kwargs.items() if k in inspect.signature(fn).parameters}
  r = ctx.call(f'optimizers.{name}', getattr(O, name), witness=wit, **kwargs)
  if not r.ok:
    return ctx.case_done(None, sample=wit, klass='optwrap:raised')
  fopt, oopt = r.value, getattr(optax, name)(**kwargs)
  p0 = {'w': jnp.asarray(rng.randn(3).astype(np.float32)), 'b': jnp.asarray(np.float32(rng.randn()))}
  fp, fs = p0, fopt.init(p0)
  op, os_ = p0, oopt.init(p0)
  for step in range(3):
    g = {'w': jnp.asarray(rng.randn(3).astype(np.float32)), 'b': jnp.asarray(np.float32(rng.randn()))}
    rr = ctx.call(f'optimizers.{name}.apply', fopt.apply, g, fs, fp, witness={**wit, 'step': step})
    if not rr.ok:
      return ctx.case_done(None, sample=wit, klass='optwrap:raised')
    fs, fp = rr.value
    upd, os_ = oopt.update(g, os_, op)
    op = optax.apply_updates(op, upd)
    d = toy.max_abs_diff(toy.to_np(fp), toy.to_np(op))
    ctx.check(d <= 1e-6 * max(1.0, toy.max_abs(toy.to_np(op))), f'optwrap/{name}-differs-from-optax',
              f'fedjax.optimizers.{name}({kwargs}) differs from optax.{name} with the same arguments after step {step} by {d:.3g}',
              {**wit, 'step': step, 'fedjax': toy.to_np(fp), 'optax': toy.to_np(op)})
  ctx.case_done(('optwrap', name, tuple(sorted((k, str(v)) for k, v in kwargs.items()))), sample=wit, klass=['optwrap', 'optwrap:' + name])


def run(ctx):
  import jax
  import jax.numpy as jnp
  import fedjax
  if len(jax.local_devices()) < 8:
    raise core.Inconclusive(f'only {len(jax.local_devices())} host devices (need 8 forced CPU devices)')
  err = toy.selfcheck_optimizers()
  if err:
    raise core.Inconclusive('oracle self-check failed: ' + err)
  if ctx.xproc_child == 'x64':
    # fresh interpreter started with JAX_ENABLE_X64=1 (see the end of run()): float64 histories only
    if not jax.config.jax_enable_x64:
      raise core.HarnessError('x64 child started without jax_enable_x64')
    for cid, rng in ctx.cases('x64', 40 if ctx.quick else 600):
      h = gen_history(rng, ctx.quick)
      if h['cspec'][0] in ('adam', 'adagrad'):
        h['cspec'] = ('sgd', h['cspec'][1])      # linear, well-conditioned rules only at float64 tolerances
      if h['sspec'][0] == 'adam':
        h['sspec'] = ('sgd', 1.0)
      run_history(ctx, fedjax, jax, jnp, h, rng, x64=True)
    return
  n = 160 if ctx.quick else 3000
  for cid, rng in ctx.cases('hist', n):
    h = gen_history(rng, ctx.quick)
    run_history(ctx, fedjax, jax, jnp, h, rng)
  for cid, rng in ctx.cases('ownkey', 24 if ctx.quick else 200):
    run_ownkey(ctx, fedjax, jax, jnp, rng)
  for cid, rng in ctx.cases('optwrap', 120 if ctx.quick else 1500):
    run_optwrap(ctx, fedjax, jax, jnp, rng)
  # configuration the library must be indifferent to: the same kind of histories in 64-bit mode (float64 data and parameters,
  # float64-level tolerance), in a fresh interpreter started with JAX_ENABLE_X64=1
  if ctx.replay_case is None or ctx.replay_case.startswith('x64/'):
    from vmon import xproc
    ctx.absorb(xproc.run_family(ctx, 'vmon.checks.c01', 'x64', env={'JAX_ENABLE_X64': '1'}))



if __name__ == '__main__':
  from vmon import xproc as _xproc
  _xproc.child_main(_xproc.family_handler(__name__))

TECHNIQUE += '; the same histories in a fresh interpreter under JAX_ENABLE_X64=1 (float64 tolerance); differential of the optimizer wrappers against optax'
