"""C04 — Shuffled batching samples without replacement, exact count, seeded.

The dataset carries a unique int64 `idx` column, so the stream of drawn example
indices of ClientDataset.shuffle_repeat_batch() is directly observable. Every
stream is judged by an index-stream checker written from the docstring.
"""
import itertools
import signal

import numpy as np

from vmon import gen
from vmon.core import Inconclusive, bit_equal

PROPERTY = 'C04'
LEVEL = 'exploration'
RULE = ('Exhaustive box over (N, batch_size, num_epochs, num_steps, drop_remainder, skip_shuffle, seed) '
        '[quick: N<=12,B<=14, E in {None,1,2,3}, S in {None,0,1,2,5,9}, 2 derived seeds + seed=None; thorough: '
        'N<=16,B<=20, 3 derived seeds + seed=None]; both-None streams are cut with islice at 4*ceil(N/B)+3 batches. Plus seeded random larger '
        'points (N<=200, B<=260 incl. B>N, E<=6, S<=40) and a "long" family (N in 6..40, >=7 complete windows) that '
        'reaches the re-shuffle monitor. Every point is iterated twice on one view and once on a fresh view. '
        'Non-trivial: B does not divide N, or B>N, or some batch straddles >=2 epoch boundaries; distinct by '
        '(N,B,E,S,drop,skip,seed,cut).')
ASSUMPTIONS = [
    'the unique idx column identifies the drawn example; the other columns are only checked to follow idx row-wise',
    'the optional batch preprocessor used by the harness is strictly per-example',
    'infinite streams (num_epochs=None and num_steps=None) are judged on a finite islice prefix only',
    'seed=None streams get the structural checks only (no reproducibility claim)',
    '"re-shuffled" is judged only for N>=6 and >=6 complete windows: at least two distinct windows',
]
SHARDS = {'quick': 4, 'thorough': 14}
SHARD_TIMEOUT = {'quick': 600, 'thorough': 2400}
EXHAUSTIVE = {'quick': True, 'thorough': True}
MIN_HITS = {
    'quick': {
        'mon:size': 30000, 'mon:count': 30000, 'mon:window': 40000, 'mon:balance': 20000, 'mon:cover': 18000,
        'mon:cyclic': 9000, 'mon:reshuffle': 800, 'mon:reiterate': 40000, 'concurrent-iterators': 3000, 'mon:rows': 50000, 'mon:readonly': 30000,
        'count:epochs': 1500, 'count:epochs-drop': 1500, 'count:steps': 5000, 'count:min-epochs-steps': 15000,
        'count:infinite': 1000, 'straddle>=2': 4000, 'B>N': 10000, 'seed=None': 5000, 'big-dataset': 9, 'many-epochs-exact-multiple': 200,
    },
    'thorough': {
        'mon:size': 90000, 'mon:count': 90000, 'mon:window': 140000, 'mon:balance': 70000, 'mon:cover': 60000,
        'mon:cyclic': 25000, 'mon:reshuffle': 10000, 'mon:reiterate': 140000, 'concurrent-iterators': 10000, 'mon:rows': 160000, 'mon:readonly': 80000,
        'count:epochs': 7000, 'count:epochs-drop': 7000, 'count:steps': 18000, 'count:min-epochs-steps': 50000,
        'count:infinite': 6000, 'straddle>=2': 20000, 'B>N': 45000, 'seed=None': 18000,
    },
}

E_BOX = (None, 1, 2, 3)
S_BOX = (None, 0, 1, 2, 5, 9)


def ref_count(n, b, e, s, drop):
  """Documented number of batches; None for the infinite stream."""
  if e is None:
    return s
  tot = n * e
  c = tot // b if drop else -(-tot // b)
  return c if s is None else min(s, c)


def count_mode(e, s, drop):
  if e is None and s is None:
    return 'infinite'
  if e is None:
    return 'steps'
  if s is None:
    return 'epochs-drop' if drop else 'epochs'
  return 'min-epochs-steps'


def straddles(n, b, nbatches):
  """Max number of epoch boundaries strictly inside one batch."""
  best = 0
  for j in range(nbatches):
    lo, hi = j * b, (j + 1) * b
    # multiples k*n with lo < k*n < hi
    k = (hi - 1) // n - lo // n
    best = max(best, k)
  return best


def judge_stream(ctx, wit, ref, n, b, base, batches, expected, mode, skip):
  """Structural checks on one iteration of the view."""
  ok_size = all(bt and all(getattr(v, 'shape', (None,))[:1] == (b,) for v in bt.values()) for bt in batches)
  ctx.check(ok_size, 'size/batch-rows', f'a batch does not have exactly batch_size={b} rows: '
            f'{[len(next(iter(bt.values()))) if bt else 0 for bt in batches][:20]}', wit)
  ctx.count('count:' + mode)
  if expected is not None:
    ctx.check(len(batches) == expected, 'count/' + mode, f'{len(batches)} batches produced, documented count is {expected}',
              wit)
  else:
    ctx.check(len(batches) == wit['cut'], 'count/infinite-ended-early',
              f'infinite stream ended after {len(batches)} < {wit["cut"]} batches', wit)
  if not ok_size:
    return None
  if not ctx.check(all(set(bt) == set(ref) for bt in batches), 'rows/feature-set',
                   'a batch does not carry exactly the (preprocessed) features of the dataset', wit):
    return None
  if not batches:
    return np.zeros((0,), np.int64)
  stream = np.concatenate([bt['idx'] for bt in batches])
  pos = stream.astype(np.int64) - base
  valid = stream.dtype == np.int64 and bool(((pos >= 0) & (pos < n)).all())
  if not ctx.check(valid, 'window/invalid-id', 'a drawn id is not an id of the dataset', {**wit, 'stream': stream[:40]}):
    return None
  # every column follows the drawn index row-wise
  rows_ok = True
  for name, col in ref.items():
    got = np.concatenate([bt[name] for bt in batches], axis=0)
    if not bit_equal(got, col[pos]):
      rows_ok = False
      break
  ctx.check(rows_ok, 'rows/feature-mismatch', 'a feature row does not belong to the drawn example', wit)
  # complete windows are permutations
  nfull = len(pos) // n
  w = pos[:nfull * n].reshape(nfull, n)
  if nfull:
    perm = bool((np.sort(w, axis=1) == np.arange(n)[None, :]).all())
    ctx.check(perm, 'window/not-permutation', 'a complete window of N drawn ids is not a permutation of the dataset',
              {**wit, 'stream': pos[:60]})
  else:
    ctx.check(len(set(pos.tolist())) == len(pos), 'window/partial-duplicate',
              'an id is drawn twice before the first window is complete', {**wit, 'stream': pos[:60]})
  # usage counts differ by at most one at the end of every batch (= every prefix the consumer can observe)
  counts = np.zeros((n,), np.int64)
  bad_at = None
  for j in range(len(batches)):
    counts += np.bincount(pos[j * b:(j + 1) * b], minlength=n)
    if counts.max() - counts.min() > 1:
      bad_at = j
      break
  ctx.check(bad_at is None, 'balance/usage-differs-by-more-than-one',
            f'after batch {bad_at} the usage counts of two examples differ by more than one', {**wit, 'stream': pos[:60]})
  # the first ceil(N/B) batches cover the dataset
  c = -(-n // b)
  if len(batches) >= c:
    ctx.check(len(set(pos[:c * b].tolist())) == n, 'cover/first-batches-miss-example',
              f'the first ceil(N/B)={c} batches do not cover every example', {**wit, 'stream': pos[:60]})
  if skip:
    ctx.check(bool(np.array_equal(pos, np.arange(len(pos)) % n)), 'cyclic/skip-shuffle-not-cyclic-order',
              'with skip_shuffle the stream is not the cyclic original order', {**wit, 'stream': pos[:60]})
  elif n >= 6 and nfull >= 6:
    distinct = len({tuple(r) for r in w.tolist()})
    ctx.count('reshuffle:windows', nfull)
    ctx.check(distinct >= 2, 'reshuffle/all-windows-identical',
              f'all {nfull} complete windows of the stream are the same permutation', {**wit, 'stream': pos[:60]})
  return pos


def same_batches(x, y):
  return len(x) == len(y) and all(set(a) == set(c) and all(bit_equal(a[f], c[f]) for f in a) for a, c in zip(x, y))


def run_point(ctx, cd, rng, n, b, e, s, drop, skip, seed, cut=None):
  base = int(rng.randint(0, 1000)) if rng.rand() < 0.7 else 0
  raw = gen.make_examples(rng, n, idx_base=base)
  dig = gen.freeze(raw)
  with_pre = rng.rand() < 0.35
  if with_pre:
    mult = int(rng.randint(2, 9))
    pre = cd.BatchPreprocessor([lambda ex: {**ex, 'derived': (ex['idx'] * mult + 1).astype(np.float32)}])
    ref = {**raw, 'derived': (raw['idx'] * mult + 1).astype(np.float32)}
    ds = cd.ClientDataset(raw, pre)
  else:
    ref = dict(raw)
    ds = cd.ClientDataset(raw)
  infinite = e is None and s is None
  if infinite and cut is None:
    cut = 4 * (-(-n // b)) + 3
  expected = ref_count(n, b, e, s, drop)
  mode = count_mode(e, s, drop)
  kwargs = dict(batch_size=b, num_epochs=e, num_steps=s, drop_remainder=drop, seed=seed, skip_shuffle=skip)
  style = int(rng.randint(3))
  wit = {'N': n, 'batch_size': b, 'num_epochs': e, 'num_steps': s, 'drop_remainder': drop, 'skip_shuffle': skip,
         'seed': seed, 'idx_base': base, 'features': list(raw), 'preprocessor': with_pre, 'cut': cut,
         'invocation': ['kwargs', 'hparams', 'hparams+override'][style]}

  def make_view():
    if style == 0:
      return ds.shuffle_repeat_batch(**kwargs)
    if style == 1:
      return ds.shuffle_repeat_batch(cd.ShuffleRepeatBatchHParams(**kwargs))
    return ds.shuffle_repeat_batch(cd.ShuffleRepeatBatchHParams(batch_size=b + 3, num_epochs=5, seed=77), **kwargs)

  # A count bug must not hang the harness: finite streams are read through a cap just above the documented count.
  cap = cut if infinite else expected + 5

  def collect():
    view = make_view()
    first = list(itertools.islice(iter(view), cap))
    second = list(itertools.islice(iter(view), cap))
    third = list(itertools.islice(iter(make_view()), cap))
    return first, second, third

  r = ctx.call('ClientDataset.shuffle_repeat_batch', collect, witness=wit)
  if r.ok:
    it1, it2, it3 = r.value
    judge_stream(ctx, wit, ref, n, b, base, it1, expected, mode, skip)
    if seed is None and not skip:
      judge_stream(ctx, {**wit, 'iteration': 2}, ref, n, b, base, it2, expected, mode, skip)
    else:
      ctx.check(same_batches(it1, it2), 'reiterate/second-iteration-differs',
                'second iteration over the same view yields different batches', wit)
      ctx.check(same_batches(it1, it3), 'reiterate/fresh-view-differs',
                'a fresh view with identical hyper-parameters yields different batches', wit)
    # Two iterators over ONE view object alive at the same time (zip(view, view), nested passes): each must behave
    # like a stand-alone iteration -- with a fixed seed identical to it, otherwise still a valid stream on its own.
    if (expected is None or expected > 1) and (wit['N'] * 7 + b + (seed or 0)) % 3 == 0:
      def lockstep():
        view = make_view()
        a, c = iter(view), iter(view)
        o1, o2 = [], []
        for _ in range(cap):
          x = next(a, None)
          y = next(c, None)
          if x is None and y is None:
            break
          if x is not None:
            o1.append(x)
          if y is not None:
            o2.append(y)
        return o1, o2

      r2 = ctx.call('ClientDataset.shuffle_repeat_batch[two-live-iterators]', lockstep, witness=wit)
      if r2.ok:
        c1, c2 = r2.value
        if seed is not None or skip:
          ctx.check(same_batches(c1, it1) and same_batches(c2, it1), 'reiterate/concurrent-iterators-interfere',
                    'two live iterators over the same view do not both reproduce the stand-alone seeded stream', wit)
        else:
          judge_stream(ctx, {**wit, 'iteration': 'lockstep-1'}, ref, n, b, base, c1, expected, mode, skip)
          judge_stream(ctx, {**wit, 'iteration': 'lockstep-2'}, ref, n, b, base, c2, expected, mode, skip)
        ctx.count('concurrent-iterators')
  ctx.check(gen.digest(raw) == dig, 'readonly/raw-mutated', 'raw dataset arrays changed', wit)

  nb = cap if infinite else expected
  st = straddles(n, b, nb)
  klass = ['mode:' + mode, 'B>N' if b > n else ('B|N' if n % b == 0 else 'B!|N')]
  if st >= 2:
    klass.append('straddle>=2')
  if seed is None:
    klass.append('seed=None')
  if skip:
    klass.append('skip_shuffle')
  if expected == 0:
    klass.append('zero-batches')
  if with_pre:
    klass.append('preprocessor')
  nontrivial = (n % b != 0) or b > n or st >= 2
  ctx.case_done((n, b, e, s, drop, skip, seed, cut) if nontrivial else None, sample=wit, klass=klass)


def guarded(ctx, fn, *args, **kwargs):
  """Per-case wall-clock alarm (DESIGN 2.7): a case that does not terminate is INCONCLUSIVE, never a violation,
  and must not take the whole shard (and the violations it already recorded) down with it."""
  seconds = 20 if ctx.quick else 120
  fam = 'watchdog:timeouts:' + str(ctx.cur_case).split('/')[0]
  if ctx.counters.get(fam, 0) >= 2:  # the family keeps hanging: do not burn the shard's budget on it
    ctx.count('watchdog:skipped-after-timeouts')
    return

  def on_alarm(signum, frame):
    raise Inconclusive(f'case exceeded {seconds}s wall-clock (possible non-termination)')

  old = signal.signal(signal.SIGALRM, on_alarm)
  signal.setitimer(signal.ITIMER_REAL, seconds)
  try:
    fn(*args, **kwargs)
  except Inconclusive as e:
    ctx.count(fam)
    ctx.inconclusive_because(str(e))
  finally:
    signal.setitimer(signal.ITIMER_REAL, 0)
    signal.signal(signal.SIGALRM, old)


def run(ctx):
  import fedjax  # noqa: F401
  from fedjax.core import client_datasets as cd
  if ctx.quick:
    ns, bs, nseeds, with_none = range(1, 13), range(1, 15), 2, True
    nrand, nlong = 1500, 600
  else:
    ns, bs, nseeds, with_none = range(1, 17), range(1, 21), 3, True
    nrand, nlong = 30000, 12000
  seed_slots = list(range(nseeds)) + ([None] if with_none else [])
  box = itertools.product(ns, bs, E_BOX, S_BOX, (False, True), (False, True), seed_slots)
  for cid, (n, b, e, s, drop, skip, slot) in ctx.enum('box', box):
    rng = ctx.rng('box', n, b, e, s, drop, skip, slot)
    seed = None if slot is None else int(rng.randint(0, 2**32 - 1))
    guarded(ctx, run_point, ctx, cd, rng, n, b, e, s, drop, skip, seed)

  for cid, rng in ctx.cases('rand', nrand):
    n = int(rng.randint(1, 201))
    u = rng.rand()
    if u < 0.35:
      b = int(rng.randint(n + 1, 261)) if n < 260 else 260  # B > N
    elif u < 0.55:
      b = max(1, n // int(rng.randint(1, 6)))  # dividing / near-dividing
    else:
      b = int(rng.randint(1, 261))
    e = None if rng.rand() < 0.3 else int(rng.randint(1, 7))
    s = None if rng.rand() < 0.4 else int(rng.randint(0, 41))
    if e is None and s is not None and rng.rand() < 0.5:
      s = int(-(-n * int(rng.randint(1, 5)) // b)) + int(rng.randint(-1, 2))  # around whole epochs
      s = max(s, 0)
    drop = bool(rng.rand() < 0.5)
    skip = bool(rng.rand() < 0.3)
    seed = None if rng.rand() < 0.15 else int(rng.randint(0, 2**32 - 1))
    guarded(ctx, run_point, ctx, cd, rng, n, b, e, s, drop, skip, seed)

  # long streams: >= 7 complete windows so that "successive windows are re-shuffled" is judged
  for cid, rng in ctx.cases('long', nlong):
    n = int(rng.randint(6, 41))
    b = int(rng.randint(1, 51))
    need = -(-7 * n // b) + int(rng.randint(0, 4))
    m = rng.randint(4)
    cut = None
    if m == 0:
      e, s = int(rng.randint(7, 11)), None
    elif m == 1:
      e, s = None, need
    elif m == 2:
      e, s = int(rng.randint(7, 11)), need + int(rng.randint(0, 30))
    else:
      e, s, cut = None, None, need
    drop = bool(rng.rand() < 0.5)
    skip = bool(rng.rand() < 0.1)
    seed = None if rng.rand() < 0.25 else int(rng.randint(0, 2**32 - 1))
    guarded(ctx, run_point, ctx, cd, rng, n, b, e, s, drop, skip, seed, cut=cut)

  # many epochs: (N, B, E) with 7 <= E <= 16 where N*E is an exact multiple of B although B does not divide N (a batch count
  # computed in floating point lands one ulp off there), plus their neighbours; both remainder modes
  trip = [(n_, b_, e_) for e_ in range(7, 17) for b_ in range(2, 24) for n_ in range(2, 64)
          if n_ % b_ and (n_ * e_) % b_ == 0]
  for cid, rng in ctx.cases('epochs', 240 if ctx.quick else 2400):
    i = int(cid.split('/')[1])
    n, b, e = trip[(i * 7919 + int(rng.randint(len(trip)))) % len(trip)] if i >= 4 else [(29, 7, 7), (15, 11, 11), (58, 14, 7), (30, 22, 11)][i]
    ctx.count('many-epochs-exact-multiple')
    guarded(ctx, run_point, ctx, cd, rng, n, b, e, None, bool(i % 2), bool(rng.rand() < 0.3), int(rng.randint(0, 2**32 - 1)))

  # big datasets (integer-width and chunk boundaries of any index buffer): N around 2^15, 2^16 and beyond, large batches,
  # two to three windows each; every value class of N is hit in both tiers
  BIG_N = [32767, 32768, 32769, 40000, 65535, 65536, 65537, 70001, 131073]
  for cid, rng in ctx.cases('big', len(BIG_N) * (1 if ctx.quick else 3)):
    i = int(cid.split('/')[1])
    n = BIG_N[i % len(BIG_N)] if i < len(BIG_N) else int(rng.randint(2**15 - 5, 2**17 + 5))
    b = int([4096, 5000, 8192, n, n // 2 + 1][rng.randint(5)])
    m = rng.randint(3)
    if m == 0:
      e, s = 2, None
    elif m == 1:
      e, s = None, -(-2 * n // b) + 1
    else:
      e, s = 3, -(-2 * n // b) + 2
    skip = bool(i % 4 == 3)
    ctx.count('big-dataset')
    guarded(ctx, run_point, ctx, cd, rng, n, b, e, s, bool(rng.rand() < 0.5), skip, int(rng.randint(0, 2**32 - 1)))


TECHNIQUE = ('runtime monitoring: index-stream checker over a unique idx column (batch size, documented batch count, '
             'window permutations, usage balance, coverage, cyclic order, re-shuffle, seeded re-iteration) over an '
             'exhaustive small box plus random larger and long streams')
LEVEL_TEXT = ('Every (N, batch_size, num_epochs, num_steps, drop_remainder, skip_shuffle, seed-slot) point of a small box is '
              'executed on the real ShuffleRepeatBatchView (exhaustive within the box), plus random larger points (batch '
              'sizes above N, many epochs) and long streams. Each produced stream is judged by an independent checker '
              'written from the docstring. Held-on-observed: not a proof beyond the box, seeds are sampled, infinite '
              'streams are judged on a finite prefix.')
LEVEL_NOTE = ('Trusts NumPy (sort/bincount/fancy indexing) and the harness re-implementation of the documented count '
              'formula; the re-shuffle monitor has a false-alarm chance below 1e-14 per stream and cannot see a stream '
              'that re-shuffles only rarely.')
