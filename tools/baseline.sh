#!/bin/sh
# Runs the repository's pinned baseline (guard off: there are no in-repo hooks) and compares with BASELINE.json stable_pass.
OUT=${1:-/tmp/vmon-baseline.xml}
cd /repo && /venv/bin/python -m pytest -ra -q -p no:cacheprovider --timeout=900 --continue-on-collection-errors --junitxml=$OUT > /tmp/vmon-baseline.log 2>&1
/venv/bin/python - "$OUT" <<'PY'
import json, sys, xml.etree.ElementTree as ET
base = json.load(open('/root/.vp/BASELINE.json'))
want = set(base['stable_pass'])
got = set()
for tc in ET.parse(sys.argv[1]).getroot().iter('testcase'):
    bad = any(c.tag in ('failure', 'error', 'skipped') for c in tc)
    name = f"{tc.get('classname')}::{tc.get('name')}"
    if not bad:
        got.add(name)
missing = sorted(want - got)
print(f'stable_pass={len(want)} passing_now={len(got & want)} missing={len(missing)} newly_passing={len(got - want)}')
for m in missing: print('  MISSING', m)
sys.exit(1 if missing else 0)
PY
