"""Fresh-interpreter replays: run a piece of a check in a new Python process with another PYTHONHASHSEED.

Shard processes run with PYTHONHASHSEED=0, so anything whose result depends on set/dict-of-bytes iteration order looks
deterministic inside one shard. A check module that wants a cross-process observation calls

  out = xproc.run_child('vmon.checks.cXX', payload, hashseed)

and ends with

  if __name__ == '__main__':
    xproc.child_main(handler)        # handler(payload) -> picklable result

Only the pickled payload crosses over; the child imports fedjax from the same FEDJAX_REPO as the shard.
"""
import os
import pickle
import subprocess
import sys
import tempfile

from vmon import REPO_ROOT, VERIF_ROOT
from vmon.core import HarnessError


def run_child(module, payload, hashseed, timeout=900, env=None):
  work = tempfile.mkdtemp(prefix='vmon-xproc-', dir=os.environ.get('VMON_WORK') or None)
  spec, res = os.path.join(work, 'in.pkl'), os.path.join(work, 'out.pkl')
  try:
    with open(spec, 'wb') as f:
      pickle.dump(payload, f)
    env = dict(os.environ, **(env or {}))
    env['PYTHONHASHSEED'] = str(hashseed)
    try:
      p = subprocess.run([sys.executable, '-m', module, '--xproc', spec, res], env=env, capture_output=True, text=True,
                         timeout=timeout, cwd=VERIF_ROOT)
    except subprocess.TimeoutExpired as e:
      raise HarnessError(f'fresh-interpreter child of {module} timed out after {timeout}s') from e
    if p.returncode != 0 or not os.path.exists(res):
      raise HarnessError(f'fresh-interpreter child of {module} failed rc={p.returncode}: {p.stderr[-1500:]}')
    with open(res, 'rb') as f:
      return pickle.load(f)
  finally:
    import shutil
    shutil.rmtree(work, ignore_errors=True)


def child_main(handler):
  if len(sys.argv) != 4 or sys.argv[1] != '--xproc':
    raise SystemExit('usage: python -m <check module> --xproc in.pkl out.pkl')
  if REPO_ROOT not in sys.path:
    sys.path.insert(0, REPO_ROOT)
  with open(sys.argv[2], 'rb') as f:
    payload = pickle.load(f)
  out = handler(payload)
  with open(sys.argv[3], 'wb') as f:
    pickle.dump(out, f)


def run_family(ctx, module, family, env=None, timeout=2400):
  """Runs one family of a check in a fresh interpreter with extra environment (e.g. JAX_ENABLE_X64=1) and returns the child
  context's result() (merge it with ctx.absorb). The child gets the same tier / seed / shard assignment / replay case; the
  check module must end with `xproc.child_main(xproc.family_handler(__name__))` and its run() must look at ctx.xproc_child."""
  payload = {'family': family, 'tier': ctx.tier, 'seed': ctx.seed, 'shard': ctx.shard, 'nshards': ctx.nshards,
             'replay_case': ctx.replay_case, 'prop': ctx.prop}
  return run_child(module, payload, os.environ.get('PYTHONHASHSEED', '0'), timeout=timeout, env=env)


def family_handler(module_name):
  def handler(payload):
    import importlib
    from vmon.core import Ctx
    mod = importlib.import_module(module_name) if module_name != '__main__' else sys.modules['__main__']
    ctx = Ctx(payload['prop'], payload['tier'], payload['seed'], payload['shard'], payload['nshards'],
              replay_case=payload['replay_case'])
    ctx.xproc_child = payload['family']
    mod.run(ctx)
    return ctx.result()
  return handler
